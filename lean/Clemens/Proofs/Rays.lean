import Clemens.Model.Sliding
import Clemens.Spec.Geo
/-
Lemma library for C12a: single-bit boards, the one-step shifts, composition of geometric
steps, and the ray walker as a walk over squares.
-/
namespace Clemens

/-! ### single-bit boards -/


theorem getLsbD_bit (u t : Nat) (hu : u < 64) : (bit u).getLsbD t = decide (t = u) := by
  unfold bit
  rw [BitVec.getLsbD_shiftLeft]
  by_cases h : t = u
  · subst h; simp [hu]
  · simp [h]
    intro h1 h2
    have : t - u ≠ 0 := by omega
    simp [this]

theorem bit_ne_zero (u : Nat) (hu : u < 64) : bit u ≠ 0#64 := by
  intro h
  have := getLsbD_bit u u hu
  rw [h] at this
  simp at this

theorem bit_and_ne_zero (u : Nat) (occ : BB) (hu : u < 64) :
    ((bit u &&& occ) != 0#64) = occ.getLsbD u := by
  by_cases h : occ.getLsbD u
  · rw [h, bne_iff_ne]
    intro h0
    have : (bit u &&& occ).getLsbD u = true := by
      rw [BitVec.getLsbD_and, getLsbD_bit _ _ hu, h]; simp
    rw [h0] at this; simp at this
  · simp [h]
    apply BitVec.eq_of_getLsbD_eq
    intro i hi
    rw [BitVec.getLsbD_and, getLsbD_bit _ _ hu]
    by_cases hiu : i = u
    · subst hiu; simpa using h
    · simp [hiu]


/-! ### geometric steps -/

theorem step_lt (d : Dir) (k u v : Nat) (h : Geo.step d k u = some v) : v < 64 := by
  unfold Geo.step at h
  simp only at h
  split at h
  · injection h with h; omega
  · cases h


def Geo.onB (d : Dir) (k u : Nat) : Prop :=
  0 ≤ ((u % 8 : Nat) : Int) + k * d.df ∧ ((u % 8 : Nat) : Int) + k * d.df < 8 ∧
       0 ≤ ((u / 8 : Nat) : Int) + k * d.dr ∧ ((u / 8 : Nat) : Int) + k * d.dr < 8

instance (d : Dir) (k u : Nat) : Decidable (Geo.onB d k u) := by unfold Geo.onB; infer_instance

theorem step_def (d : Dir) (k u : Nat) : Geo.step d k u =
   if Geo.onB d k u then some ((((u / 8 : Nat) : Int) + k * d.dr) * 8 + (((u % 8 : Nat) : Int) + k * d.df)).toNat else none := by
  simp only [Geo.step, fileOf, rankOf, Geo.onB]
  congr

theorem step_eq_some (d : Dir) (k u v : Nat) :
    Geo.step d k u = some v ↔
      (Geo.onB d k u ∧
       (v : Int) = (((u / 8 : Nat) : Int) + k * d.dr) * 8 + (((u % 8 : Nat) : Int) + k * d.df)) := by
  rw [step_def]
  by_cases hc : Geo.onB d k u
  · rw [if_pos hc]
    simp only [Option.some.injEq]
    unfold Geo.onB at hc
    constructor
    · intro h; refine ⟨hc, ?_⟩; omega
    · intro h; omega
  · rw [if_neg hc]
    constructor
    · intro h; cases h
    · intro h; exact absurd h.1 hc

theorem step_eq_none (d : Dir) (k u : Nat) :
    Geo.step d k u = none ↔ ¬ Geo.onB d k u := by
  rw [step_def]
  by_cases hc : Geo.onB d k u
  · rw [if_pos hc]; simp [hc]
  · rw [if_neg hc]; simp [hc]

theorem step_succ (d : Dir) (k u : Nat) (hu : u < 64) :
    Geo.step d (k + 1) u = (Geo.step d 1 u).bind (Geo.step d k) := by
  cases h1 : Geo.step d 1 u with
  | none =>
    rw [Option.bind_none, step_eq_none]
    rw [step_eq_none] at h1
    cases d <;> simp only [Dir.df, Dir.dr, Geo.onB] at * <;> omega
  | some v =>
    rw [Option.bind_some]
    rw [step_eq_some] at h1
    cases h2 : Geo.step d k v with
    | none =>
      rw [step_eq_none] at *
      cases d <;> simp only [Dir.df, Dir.dr, Geo.onB] at * <;> omega
    | some w =>
      rw [step_eq_some] at *
      cases d <;> simp only [Dir.df, Dir.dr, Geo.onB] at * <;> omega


/-! ### finite facts (kernel evaluation) -/

theorem shift_single_all : ∀ d ∈ Dir.all, ∀ u < 64,
    d.shift (bit u) = (match Geo.step d 1 u with | some t => bit t | none => 0#64) := by decide +kernel

theorem shift_single' (d : Dir) (u : Nat) (hu : u < 64) :
    d.shift (bit u) = (match Geo.step d 1 u with | some t => bit t | none => 0#64) :=
  shift_single_all d (by cases d <;> decide) u hu

theorem step8_none_all : ∀ d ∈ Dir.all, ∀ u < 64, Geo.step d 8 u = none := by decide +kernel

theorem step8_none (d : Dir) (u : Nat) (hu : u < 64) : Geo.step d 8 u = none :=
  step8_none_all d (by cases d <;> decide) u hu

/-! ### the ray walker -/
/-- square-level description of one ray walk -/
def walkSpec (d : Dir) (occ : BB) : Nat → Nat → Nat → Bool
  | 0, _, _ => false
  | fuel+1, u, t => !occ.has u && (match Geo.step d 1 u with
      | some v => t == v || walkSpec d occ fuel v t
      | none => false)

theorem rayWalk_getLsbD (d : Dir) (occ : BB) (t : Nat) : ∀ (fuel u : Nat) (acc : BB), u < 64 →
    (rayWalk d occ fuel (bit u) acc).getLsbD t = (acc.getLsbD t || walkSpec d occ fuel u t) := by
  intro fuel
  induction fuel with
  | zero => intro u acc _; simp [rayWalk, walkSpec]
  | succ n ih =>
    intro u acc hu
    simp only [rayWalk, walkSpec, BB.has]
    rw [bit_and_ne_zero u occ hu, shift_single' d u hu]
    cases h1 : Geo.step d 1 u with
    | none => simp
    | some v =>
      have hv := step_lt d 1 u v h1
      simp only []
      have : (bit v == 0#64) = false := by simpa using bit_ne_zero v hv
      rw [this]
      cases ho : occ.getLsbD u with
      | true => simp
      | false =>
        simp only [Bool.or_self, Bool.false_eq_true, if_false, Bool.not_false, Bool.true_and]
        rw [ih v _ hv, BitVec.getLsbD_or, getLsbD_bit v t hv]
        simp [Bool.or_assoc]
        rfl

theorem any_const_and {α} (b : Bool) (f : α → Bool) (l : List α) :
    l.any (fun x => b && f x) = (b && l.any f) := by
  induction l with
  | nil => simp
  | cons a l ih => simp only [List.any_cons, ih]; cases b <;> simp

theorem any_congr' {α} (f g : α → Bool) (l : List α) (h : ∀ x ∈ l, f x = g x) : l.any f = l.any g := by
  induction l with
  | nil => rfl
  | cons a l ih =>
    simp only [List.any_cons]
    rw [h a (by simp), ih (fun x hx => h x (by simp [hx]))]

theorem all_congr' {α} (f g : α → Bool) (l : List α) (h : ∀ x ∈ l, f x = g x) : l.all f = l.all g := by
  induction l with
  | nil => rfl
  | cons a l ih =>
    simp only [List.all_cons]
    rw [h a (by simp), ih (fun x hx => h x (by simp [hx]))]

/-- the body of `Geo.reachAlong` with the number of steps as a parameter -/
def reachN (d : Dir) (occ : BB) (n s t : Nat) : Bool :=
  (List.range n).any fun j =>
    Geo.step d (j + 1) s == some t &&
      (List.range j).all fun i => match Geo.step d (i + 1) s with
        | some u => !occ.has u
        | none => false

theorem reachAlong_eq (d : Dir) (occ : BB) (s t : Nat) : Geo.reachAlong d occ s t = reachN d occ 7 s t := rfl

theorem walkSpec_eq (d : Dir) (occ : BB) (t : Nat) : ∀ (n u : Nat), u < 64 →
    walkSpec d occ n u t = (!occ.has u && reachN d occ n u t) := by
  intro n
  induction n with
  | zero => intro u _; simp [walkSpec, reachN]
  | succ n ih =>
    intro u hu
    simp only [walkSpec, reachN]
    congr 1
    rw [List.range_succ_eq_map, List.any_cons, List.any_map]
    simp only [List.range_zero, List.all_nil, Bool.and_true, Function.comp_def, Nat.zero_add]
    cases h1 : Geo.step d 1 u with
    | none =>
      simp only []
      symm
      simp only [Bool.or_eq_false_iff, List.any_eq_false]
      refine ⟨by simp, ?_⟩
      intro j _
      rw [step_succ d (j+1) u hu, h1]; simp
    | some v =>
      have hv := step_lt d 1 u v h1
      simp only []
      rw [ih v hv, reachN]
      congr 1
      · rw [Bool.beq_comm]; simp
      · rw [← any_const_and]
        apply any_congr'
        intro j _
        rw [step_succ d (j+1) u hu, h1, Option.bind_some]
        rw [List.range_succ_eq_map, List.all_cons, List.all_map]
        simp only [Nat.zero_add, h1, Function.comp_def]
        rw [Bool.and_left_comm]
        congr 2
        apply all_congr'
        intro i _
        rw [step_succ d (i+1) u hu, h1, Option.bind_some]




theorem reachN_8 (d : Dir) (occ : BB) (s t : Nat) (hs : s < 64) :
    reachN d occ 8 s t = reachN d occ 7 s t := by
  unfold reachN
  rw [List.range_succ (n := 7), List.any_append]
  simp [step8_none d s hs]

theorem foldl_rayWalk_getLsbD (occ : BB) (s t : Nat) (hs : s < 64) : ∀ (dirs : List Dir) (acc : BB),
    (dirs.foldl (fun acc d => rayWalk d occ 8 (bit s) acc) acc).getLsbD t =
      (acc.getLsbD t || dirs.any fun d => walkSpec d occ 8 s t) := by
  intro dirs
  induction dirs with
  | nil => simp
  | cons d ds ih =>
    intro acc
    rw [List.foldl_cons, ih, rayWalk_getLsbD d occ t 8 s acc hs, List.any_cons, Bool.or_assoc]

/-- the ray walker is geometric reachability, for every occupancy that does not contain the origin -/
theorem walker_exact' (dirs : List Dir) (s t : Nat) (occ : BB) (hs : s < 64) (ho : occ.getLsbD s = false) :
    (slidingAttacks s dirs occ).getLsbD t = Geo.reach dirs occ s t := by
  unfold slidingAttacks Geo.reach
  rw [foldl_rayWalk_getLsbD occ s t hs]
  simp only [BitVec.getLsbD_zero, Bool.false_or]
  apply any_congr'
  intro d _
  rw [walkSpec_eq d occ t 8 s hs, reachN_8 d occ s t hs, reachAlong_eq, BB.has, ho]
  rfl

/-! ### pawn pushes -/


theorem getLsbD_bit' (u t : Nat) (hu : u < 64) : (bit u).getLsbD t = (t == u) := by
  rw [getLsbD_bit u t hu]; rfl

theorem bit_and (u : Nat) (x : BB) (hu : u < 64) : bit u &&& x = if x.getLsbD u then bit u else 0#64 := by
  apply BitVec.eq_of_getLsbD_eq
  intro i hi
  rw [BitVec.getLsbD_and, getLsbD_bit _ _ hu]
  by_cases hiu : i = u
  · subst hiu
    cases h : x.getLsbD i
    · simp
    · rw [if_pos rfl, getLsbD_bit _ _ hu]; simp
  · cases h : x.getLsbD u
    · simp [hiu]
    · rw [if_pos rfl, getLsbD_bit _ _ hu]; simp [hiu]

theorem offset_facts : ∀ s < 64,
    Geo.offset 0 1 s = Geo.step .N 1 s ∧ Geo.offset 0 (2 * 1) s = Geo.step .N 2 s ∧
    Geo.offset 0 (-1) s = Geo.step .S 1 s ∧ Geo.offset 0 (2 * -1) s = Geo.step .S 2 s := by decide +kernel

theorem rank_facts : ∀ s < 64, ∀ t2 < 64,
    (Geo.step .N 2 s = some t2 → rankMask4.getLsbD t2 = (rankOf s == 1)) ∧
    (Geo.step .S 2 s = some t2 → rankMask5.getLsbD t2 = (rankOf s == 6)) := by
  decide +kernel

/-- one colour of `pawnPushes_exact`, parametrised by the direction of advance -/
theorem pushes_dir (d : Dir) (m : BB) (hr : Nat) (s t : Nat) (occ : BB) (hs : s < 64) (ht : t < 64)
    (hm : ∀ t2 < 64, Geo.step d 2 s = some t2 → m.getLsbD t2 = (rankOf s == hr)) :
    ((d.shift (bit s) &&& ~~~occ) ||| (d.shift (d.shift (bit s) &&& ~~~occ) &&& ~~~occ &&& m)).getLsbD t =
    (match Geo.step d 1 s with
     | some t1 => !occ.has t1 && (t == t1 || (rankOf s == hr &&
        (match Geo.step d 2 s with | some t2 => t == t2 && !occ.has t2 | none => false)))
     | none => false) := by
  have h0 : d.shift 0#64 = 0#64 := by cases d <;> decide
  rw [step_succ d 1 s hs] at hm ⊢
  rw [shift_single' d s hs]
  cases h1 : Geo.step d 1 s with
  | none => simp [h0]
  | some t1 =>
    have ht1 := step_lt d 1 s t1 h1
    rw [h1] at hm
    simp only [Option.bind_some, BB.has] at hm ⊢
    rw [bit_and t1 _ ht1, BitVec.getLsbD_not]
    cases ho : occ.getLsbD t1 with
    | true => simp [h0, ht1]
    | false =>
      simp only [ht1, decide_true, Bool.not_false, Bool.and_self, if_true, Bool.true_and]
      rw [shift_single' d t1 ht1]
      cases h2 : Geo.step d 1 t1 with
      | none => simp [getLsbD_bit', ht1]
      | some t2 =>
        have ht2 := step_lt d 1 t1 t2 h2
        have hm2 := hm t2 ht2 h2
        simp only [BitVec.getLsbD_or, BitVec.getLsbD_and, BitVec.getLsbD_not, getLsbD_bit', ht1, ht2, ht, decide_true, Bool.true_and]
        by_cases htt : t = t2
        · subst htt; rw [hm2]; simp [Bool.and_comm]
        · have : (t == t2) = false := by simpa using htt
          simp [this]


/-! ### relevance masks -/


def maskCovers (dirs : List Dir) (walker : Nat → BB → BB) : Prop :=
  ∀ s < 64, ∀ d ∈ dirs, ∀ j < 7, ∀ i < j, (Geo.step d (j + 1) s).isSome = true →
    (match Geo.step d (i + 1) s with
      | some u => (magicMask walker s).getLsbD u
      | none => true) = true

instance (dirs walker) : Decidable (maskCovers dirs walker) := by unfold maskCovers; infer_instance

theorem rook_maskCovers : maskCovers rookDirs rookWalker := by decide +kernel
theorem bishop_maskCovers : maskCovers bishopDirs bishopWalker := by decide +kernel

theorem reach_mask_gen (dirs : List Dir) (walker : Nat → BB → BB) (h : maskCovers dirs walker)
    (s t : Nat) (occ : BB) (hs : s < 64) :
    Geo.reach dirs occ s t = Geo.reach dirs (occ &&& magicMask walker s) s t := by
  unfold Geo.reach
  apply any_congr'
  intro d hd
  unfold Geo.reachAlong
  apply any_congr'
  intro j hj
  simp only
  cases hst : (Geo.step d (j + 1) s == some t) with
  | false => simp
  | true =>
    simp only [Bool.true_and]
    apply all_congr'
    intro i hi
    have hsome : (Geo.step d (j + 1) s).isSome = true := by
      rw [beq_iff_eq] at hst; rw [hst]; rfl
    have := h s hs d hd j (by simpa using hj) i (by simpa using hi) hsome
    cases hu : Geo.step d (i + 1) s with
    | none => rfl
    | some u =>
      rw [hu] at this
      simp only [BB.has] at this ⊢
      rw [BitVec.getLsbD_and, this, Bool.and_true]


/-! ### leaper and pawn-attack tables (kernel evaluation, 64×64 cases each) -/

theorem knight_all : ∀ s < 64, ∀ t < 64, (knightAttacks s).getLsbD t = Geo.knightStep s t := by decide +kernel
theorem king_all : ∀ s < 64, ∀ t < 64, (kingAttacks s).getLsbD t = Geo.kingStep s t := by decide +kernel
theorem pawn_all : ∀ c < 2, ∀ s < 64, ∀ t < 64, (pawnAttacks c s).getLsbD t = Geo.pawnAttack c s t := by decide +kernel

end Clemens
