import Clemens.Proofs.Swap
/-
C18b (a) — the specification's exchange minimax `Fide.seeRec`, unrolled along the sequence of least attackers,
is `minimaxSeq` over their values.
-/
namespace Clemens.P18
open Clemens

/-- the board after the piece on `s` has captured on `t` -/
def capBoard (q : Fide.Pos) (s t : Nat) : Fide.Pos :=
  { q with board := Fide.setSq (Fide.setSq q.board s 0) t (q.at s) }

/-- the values of the capturers the specification finds one after the other (same recursion as `Fide.seeRec`) -/
def specSeq (value : Nat → Int) : Nat → Fide.Pos → Nat → Nat → List Int
  | 0, _, _, _ => []
  | fuel+1, q, t, side =>
    match Fide.leastAttacker q side t with
    | none => []
    | some s =>
      if Fide.kindOf (q.at s) == 5 && Fide.attacked (capBoard q s t) (Fide.other side) t then []
      else value (Fide.kindOf (q.at s)) :: specSeq value fuel (capBoard q s t) t (Fide.other side)

theorem seeRec_eq_minimaxSeq (value : Nat → Int) (fuel : Nat) (q : Fide.Pos) (t side : Nat) (victim : Int) :
    Fide.seeRec value fuel q t side victim = minimaxSeq victim (specSeq value fuel q t side) := by
  induction fuel generalizing q side victim with
  | zero => rfl
  | succ n ih =>
    rw [Fide.seeRec, specSeq]
    cases h : Fide.leastAttacker q side t with
    | none => rfl
    | some s =>
      simp only
      by_cases hk : (Fide.kindOf (q.at s) == 5 && Fide.attacked (capBoard q s t) (Fide.other side) t) = true
      · have hk' := hk
        unfold capBoard at hk'
        rw [if_pos hk, if_pos hk']; rfl
      · have hk' := hk
        unfold capBoard at hk'
        rw [if_neg hk, if_neg hk', minimaxSeq]
        have := ih (capBoard q s t) (Fide.other side) (value (Fide.kindOf (q.at s)))
        unfold capBoard at this
        rw [this]; rfl

/-- (a) the specification's exchange value is the minimax over the list of capturer values it finds -/
theorem spec_see_eq (value : Nat → Int) (P : Fide.Pos) (src tgt : Nat) :
    Fide.see value P src tgt =
      exchangeValue (value (Fide.kindOf (P.at tgt))) (value (Fide.kindOf (P.at src)))
        (specSeq value 40 (capBoard P src tgt) tgt (Fide.other (Fide.colorOf (P.at src)))) := by
  unfold Fide.see exchangeValue
  simp only
  have := seeRec_eq_minimaxSeq value 40 (capBoard P src tgt) tgt (Fide.other (Fide.colorOf (P.at src)))
    (value (Fide.kindOf (P.at src)))
  unfold capBoard at this ⊢
  rw [this]

end Clemens.P18
