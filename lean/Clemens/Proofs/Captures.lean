import Clemens.Proofs.BoardViews
import Clemens.Proofs.MoveWord
/-
C17: the capture generator yields the capturing moves of the full generator, in the same order.
-/
namespace Clemens

/-! ### lists of squares -/

theorem mem_squares_B {b : BB} {i : Nat} : i ∈ squares b ↔ i < 64 ∧ b.getLsbD i = true := by
  unfold squares; simp [List.mem_filter]

theorem squares_and (a b : BB) : squares (a &&& b) = (squares a).filter (fun i => b.getLsbD i) := by
  unfold squares
  rw [List.filter_filter]
  apply List.filter_congr
  intro i _
  rw [BitVec.getLsbD_and, Bool.and_comm]

theorem flatMap_congr' {α β : Type} {l : List α} {f g : α → List β} (h : ∀ x ∈ l, f x = g x) :
    l.flatMap f = l.flatMap g := by
  induction l with
  | nil => rfl
  | cons a l ih =>
    rw [List.flatMap_cons, List.flatMap_cons, h a (by simp), ih (fun x hx => h x (by simp [hx]))]

/-! ### occupancy under `wfShape` -/

theorem foldl_pieces (p : Pos) (c : Nat) :
    (List.range 6).foldl (fun acc t => acc ||| p.pieces c t) 0#64 =
      p.pieces c 0 ||| p.pieces c 1 ||| p.pieces c 2 ||| p.pieces c 3 ||| p.pieces c 4 ||| p.pieces c 5 := by
  simp [List.range, List.range.loop]

theorem at_range {p : Pos} (ha : boardAgrees p) {s : Nat} (hs : s < 64) :
    p.at s = 0 ∨ (1 ≤ p.at s ∧ p.at s ≤ 6) ∨ (9 ≤ p.at s ∧ p.at s ≤ 14) := by
  rcases (ha s hs).1 with h | h
  · exact Or.inl h
  · obtain ⟨hc, ht, hpc, _⟩ := validPiece_cases h
    rw [hpc]; unfold newPiece
    generalize pieceColor (p.at s) = c at *
    generalize pieceType (p.at s) = t at *
    omega

theorem white_getLsbD {p : Pos} (hw : wfShape p = true) {s : Nat} (hs : s < 64) :
    p.white.getLsbD s = (decide (1 ≤ p.at s) && decide (p.at s ≤ 6)) := by
  obtain ⟨ha, hwh, _, _⟩ := (wfShape_iff_core p).1 hw
  rw [hwh, foldl_pieces, Bool.eq_iff_iff]
  have h := (ha s hs).2 0
  simp only [BitVec.getLsbD_or, Bool.or_eq_true, Bool.and_eq_true, decide_eq_true_eq]
  rw [h 0 (by omega) (by omega), h 1 (by omega) (by omega), h 2 (by omega) (by omega),
    h 3 (by omega) (by omega), h 4 (by omega) (by omega), h 5 (by omega) (by omega)]
  unfold newPiece
  omega

theorem black_getLsbD {p : Pos} (hw : wfShape p = true) {s : Nat} (hs : s < 64) :
    p.black.getLsbD s = (decide (9 ≤ p.at s) && decide (p.at s ≤ 14)) := by
  obtain ⟨ha, _, hbl, _⟩ := (wfShape_iff_core p).1 hw
  rw [hbl, foldl_pieces, Bool.eq_iff_iff]
  have h := (ha s hs).2 1
  simp only [BitVec.getLsbD_or, Bool.or_eq_true, Bool.and_eq_true, decide_eq_true_eq]
  rw [h 0 (by omega) (by omega), h 1 (by omega) (by omega), h 2 (by omega) (by omega),
    h 3 (by omega) (by omega), h 4 (by omega) (by omega), h 5 (by omega) (by omega)]
  unfold newPiece
  omega

/-- a square is occupied in the board array iff it is in `AllPieces` -/
theorem all_getLsbD {p : Pos} (hw : wfShape p = true) {s : Nat} (hs : s < 64) :
    p.all.getLsbD s = (p.at s != 0) := by
  obtain ⟨ha, _, _, hall⟩ := (wfShape_iff_core p).1 hw
  rw [hall, BitVec.getLsbD_or, white_getLsbD hw hs, black_getLsbD hw hs, Bool.eq_iff_iff]
  have := at_range ha hs
  simp only [Bool.or_eq_true, Bool.and_eq_true, decide_eq_true_eq, bne_iff_ne, ne_eq]
  omega

/-- not our own piece, but a piece: exactly the enemy's squares -/
theorem enemy_getLsbD {p : Pos} (hw : wfShape p = true) (hside : p.side < 2) {s : Nat} (hs : s < 64) :
    (p.byColor (switchColor p.side)).getLsbD s = ((p.at s != 0) && (~~~(p.byColor p.side)).getLsbD s) := by
  have ha := agrees_of_wfShape_core p hw
  have hr := at_range ha hs
  have hcase : p.side = 0 ∨ p.side = 1 := by omega
  rcases hcase with h | h
  · rw [h]
    simp only [switchColor, Pos.byColor, Nat.zero_ne_one, if_false, if_true, Nat.succ_ne_zero,
      BitVec.getLsbD_not, hs, decide_true, Bool.true_and]
    rw [white_getLsbD hw hs, black_getLsbD hw hs, Bool.eq_iff_iff]
    simp only [Bool.and_eq_true, decide_eq_true_eq, bne_iff_ne, ne_eq, Bool.not_eq_true', Bool.and_eq_false_iff,
      decide_eq_false_iff_not]
    omega
  · rw [h]
    simp only [switchColor, Pos.byColor, if_true, Nat.succ_ne_zero, if_false,
      BitVec.getLsbD_not, hs, decide_true, Bool.true_and]
    rw [white_getLsbD hw hs, black_getLsbD hw hs, Bool.eq_iff_iff]
    simp only [Bool.and_eq_true, decide_eq_true_eq, bne_iff_ne, ne_eq, Bool.not_eq_true', Bool.and_eq_false_iff,
      decide_eq_false_iff_not]
    omega

theorem enemy_occupied {p : Pos} (hw : wfShape p = true) (hside : p.side < 2) {s : Nat} (hs : s < 64)
    (h : (p.byColor (switchColor p.side)).getLsbD s = true) : (p.at s != 0) = true := by
  rw [enemy_getLsbD hw hside hs, Bool.and_eq_true] at h
  exact h.1

/-- the destinations of the full generator that are occupied are the destinations of the capture generator -/
theorem filter_dest {p : Pos} (hw : wfShape p = true) (hside : p.side < 2) (att : BB) :
    (squares (att &&& ~~~(p.byColor p.side))).filter (fun t => p.at t != 0) =
      squares (att &&& p.byColor (switchColor p.side)) := by
  unfold squares
  rw [List.filter_filter]
  apply List.filter_congr
  intro t ht
  have ht : t < 64 := by simpa using ht
  rw [BitVec.getLsbD_and, BitVec.getLsbD_and, enemy_getLsbD hw hside ht]
  cases att.getLsbD t <;> cases (p.at t != 0) <;> simp

/-! ### `isCapture` of the generated words -/

theorem isCapture_mk0 (p : Pos) {s t : Nat} (hs : s < 64) (ht : t < 64) :
    isCapture p (Move.mk s t 0) = (p.at t != 0) := by
  unfold isCapture
  rw [Move.kind_mk s t 0 hs ht (by omega), Move.tgt_mk s t 0 hs ht]
  simp

theorem isCapture_mk2 (p : Pos) {s t : Nat} (hs : s < 64) (ht : t < 64) :
    isCapture p (Move.mk s t 2) = true := by
  unfold isCapture
  rw [Move.kind_mk s t 2 hs ht (by omega)]
  simp

theorem isCapture_promo (p : Pos) {s t pt : Nat} (hs : s < 64) (ht : t < 64) (hpt : 1 ≤ pt ∧ pt ≤ 4) :
    isCapture p ((Move.mk s t 1).withPromo pt) = (p.at t != 0) := by
  unfold isCapture
  rw [Move.kind_withPromo s t pt hs ht hpt, Move.tgt_withPromo s t pt hs ht hpt]
  simp

/-- every word `pawnMoveWithPromotion` builds is a capture iff its target square is occupied -/
theorem isCapture_pawnMove (p : Pos) {side s t : Nat} (hs : s < 64) (ht : t < 64) {m : Move}
    (hm : m ∈ pawnMoveWithPromotion side s t) : isCapture p m = (p.at t != 0) := by
  unfold pawnMoveWithPromotion at hm
  split at hm
  · rw [List.mem_singleton] at hm; rw [hm]; exact isCapture_mk0 p hs ht
  · split at hm
    · rw [List.mem_singleton] at hm; rw [hm]; exact isCapture_mk0 p hs ht
    · simp only [List.map_cons, List.map_nil, List.mem_cons, List.not_mem_nil, or_false, KNIGHT, BISHOP, ROOK, QUEEN] at hm
      rcases hm with h | h | h | h <;> rw [h] <;> exact isCapture_promo p hs ht (by omega)

/-! ### the generators, piece by piece -/

theorem filter_genHelper {p : Pos} (hw : wfShape p = true) (hside : p.side < 2) (sources : BB)
    (attacks : Nat → BB) :
    (genHelper sources (~~~(p.byColor p.side)) attacks).filter (isCapture p) =
      genHelper sources (p.byColor (switchColor p.side)) attacks := by
  unfold genHelper
  rw [List.filter_flatMap]
  apply flatMap_congr'
  intro s hs
  have hs : s < 64 := (mem_squares_B.1 hs).1
  rw [List.filter_map, ← filter_dest hw hside (attacks s)]
  congr 1
  apply List.filter_congr
  intro t ht
  have ht : t < 64 := (mem_squares_B.1 ht).1
  simp only [Function.comp]
  exact isCapture_mk0 p hs ht

theorem pawnPushes_free (c : Nat) (pawns occ : BB) (t : Nat)
    (h : (pawnPushes c pawns occ).getLsbD t = true) : occ.getLsbD t = false := by
  unfold pawnPushes doublePushTargets singlePushTargets at h
  split at h <;>
    simp only [BitVec.getLsbD_or, BitVec.getLsbD_and, BitVec.getLsbD_not, Bool.or_eq_true,
      Bool.and_eq_true, Bool.not_eq_true'] at h <;>
    rcases h with h | h
  · exact h.2.2
  · exact h.1.2.2
  · exact h.2.2
  · exact h.1.2.2

theorem filter_pushes {p : Pos} (hw : wfShape p = true) {s : Nat} (hs : s < 64) :
    ((squares (pawnPushesBySquare p.side s p.all)).flatMap fun t => pawnMoveWithPromotion p.side s t).filter
      (isCapture p) = [] := by
  rw [List.filter_eq_nil_iff]
  intro m hm
  rw [List.mem_flatMap] at hm
  obtain ⟨t, ht, hm⟩ := hm
  obtain ⟨ht64, hbit⟩ := mem_squares_B.1 ht
  have hfree := pawnPushes_free _ _ _ _ hbit
  rw [all_getLsbD hw ht64] at hfree
  rw [isCapture_pawnMove p hs ht64 hm, hfree]
  simp

theorem filter_pawnCaptures {p : Pos} (hw : wfShape p = true) (hside : p.side < 2) {s : Nat} (hs : s < 64) :
    (genPawnCaptures p s).filter (isCapture p) = genPawnCaptures p s := by
  rw [List.filter_eq_self]
  intro m hm
  unfold genPawnCaptures at hm
  rw [List.mem_flatMap] at hm
  obtain ⟨t, ht, hm⟩ := hm
  obtain ⟨ht64, hbit⟩ := mem_squares_B.1 ht
  rw [BitVec.getLsbD_and, Bool.and_eq_true] at hbit
  rw [isCapture_pawnMove p hs ht64 hm]
  exact enemy_occupied hw hside ht64 hbit.2

theorem filter_enPassant (p : Pos) {s : Nat} (hs : s < 64) :
    (genEnPassant p s).filter (isCapture p) = genEnPassant p s := by
  rw [List.filter_eq_self]
  intro m hm
  unfold genEnPassant at hm
  split at hm
  · rw [List.mem_map] at hm
    obtain ⟨t, ht, rfl⟩ := hm
    exact isCapture_mk2 p hs (mem_squares_B.1 ht).1
  · exact absurd hm (by simp)

theorem filter_pawns {p : Pos} (hw : wfShape p = true) (hside : p.side < 2) :
    ((squares (p.pieces p.side PAWN)).flatMap fun s =>
      ((squares (pawnPushesBySquare p.side s p.all)).flatMap fun t => pawnMoveWithPromotion p.side s t) ++
      genPawnCaptures p s ++ genEnPassant p s).filter (isCapture p) =
    (squares (p.pieces p.side PAWN)).flatMap fun s => genPawnCaptures p s ++ genEnPassant p s := by
  rw [List.filter_flatMap]
  apply flatMap_congr'
  intro s hs
  have hs : s < 64 := (mem_squares_B.1 hs).1
  rw [List.filter_append, List.filter_append, filter_pushes hw hs, filter_pawnCaptures hw hside hs,
    filter_enPassant p hs, List.nil_append]

/-! ### the theorem, with the exact condition on the castling words -/

/-- `genMoves` filtered by `isCapture` is `genCaptures` with the capturing castling words spliced in -/
theorem filter_genMoves {p : Pos} (hw : wfShape p = true) (hside : p.side < 2) :
    (genMoves p).filter (isCapture p) =
      let dest := p.byColor (switchColor p.side)
      genHelper (p.pieces p.side ROOK) dest (fun s => rookAttacks s p.all) ++
      genHelper (p.pieces p.side BISHOP) dest (fun s => bishopAttacks s p.all) ++
      genHelper (p.pieces p.side QUEEN) dest (fun s => queenAttacks s p.all) ++
      genHelper (p.pieces p.side KNIGHT) dest knightAttacks ++
      ((squares (p.pieces p.side PAWN)).flatMap fun s => genPawnCaptures p s ++ genEnPassant p s) ++
      (genCastling p).filter (isCapture p) ++
      genHelper (p.pieces p.side KING) dest kingAttacks := by
  unfold genMoves
  simp only [List.filter_append, filter_genHelper hw hside, filter_pawns hw hside]

theorem captures_eq_filter_iff {p : Pos} (hw : wfShape p = true) (hside : p.side < 2) :
    genCaptures p = (genMoves p).filter (isCapture p) ↔ ∀ m ∈ genCastling p, isCapture p m = false := by
  rw [filter_genMoves hw hside]
  unfold genCaptures
  simp only
  constructor
  · intro h
    have h1 := List.append_cancel_right h
    have h2 : (genCastling p).filter (isCapture p) = [] := List.self_eq_append_right.1 h1
    intro m hm
    have := (List.filter_eq_nil_iff.1 h2) m hm
    simpa using this
  · intro h
    have h2 : (genCastling p).filter (isCapture p) = [] := by
      rw [List.filter_eq_nil_iff]
      intro m hm
      rw [h m hm]; simp
    rw [h2, List.append_nil]

/-! ### castling words are not captures when the king's target is on the board -/

/-- the square the castling word `c` names as the king's target, in the `uint8` arithmetic of the engine -/
def castlingTarget (p : Pos) (c : Nat) : Nat :=
  if castlingKingSide c then (lsb (p.pieces p.side KING) + 2) % 256 else (lsb (p.pieces p.side KING) + 254) % 256

theorem canCastleNow_spec {p : Pos} {c : Nat} (h : canCastleNow p c = true) :
    c &&& p.castling ≠ 0 ∧ p.at (castlingTarget p c) = 0 := by
  unfold canCastleNow at h
  split at h
  · exact absurd h (by simp)
  · rename_i hr
    split at h
    · exact absurd h (by simp)
    · split at h
      · exact absurd h (by simp)
      · refine ⟨by simpa using hr, ?_⟩
        rw [List.all_eq_true] at h
        have h1 := h 1 (by simp)
        unfold castlingTarget
        cases hks : castlingKingSide c
        · simp only [hks, Bool.false_eq_true, if_false, Bool.and_eq_true, Bool.or_eq_true, decide_eq_true_eq,
            Pos.isEmpty, beq_iff_eq] at h1
          simp only [Bool.false_eq_true, if_false]
          rcases h1.1 with h0 | h0
          · omega
          · rw [← h0]; congr 1
        · simp only [hks, if_true, Bool.and_eq_true, Bool.or_eq_true, decide_eq_true_eq,
            Pos.isEmpty, beq_iff_eq] at h1
          simp only [if_true]
          rcases h1.1 with h0 | h0
          · omega
          · exact h0

theorem mem_genCastling {p : Pos} {m : Move} (hm : m ∈ genCastling p) :
    ∃ c, c ∈ [1, 2, 4, 8] ∧ castlingColor c = p.side ∧ canCastleNow p c = true ∧
      m = (3 <<< 12) ||| lsb (p.pieces p.side KING) ||| (castlingTarget p c <<< 6) := by
  unfold genCastling at hm
  rw [List.mem_flatMap] at hm
  obtain ⟨c, hc, hm⟩ := hm
  split at hm
  · exact absurd hm (by simp)
  · rename_i h1
    split at hm
    · exact absurd hm (by simp)
    · rename_i h2
      rw [List.mem_singleton] at hm
      refine ⟨c, hc, by simpa using h1, by simpa using h2, ?_⟩
      rw [hm]; rfl

/-- whenever castling `c` is offered, the king's target square computed by the generator is on the board
(true whenever the king stands on files c–f of any rank, in particular on e1/e8) -/
def castlingTargetOnBoard (p : Pos) : Prop :=
  ∀ c, c ∈ [1, 2, 4, 8] → castlingColor c = p.side → canCastleNow p c = true →
    if castlingKingSide c then lsb (p.pieces p.side KING) + 2 < 64
    else 2 ≤ lsb (p.pieces p.side KING) ∧ lsb (p.pieces p.side KING) < 64

theorem castling_not_capture {p : Pos} (hk : castlingTargetOnBoard p) :
    ∀ m ∈ genCastling p, isCapture p m = false := by
  intro m hm
  obtain ⟨c, hc, hcol, hcan, rfl⟩ := mem_genCastling hm
  have hb := hk c hc hcol hcan
  obtain ⟨_, hempty⟩ := canCastleNow_spec hcan
  have hlt : lsb (p.pieces p.side KING) < 64 ∧ castlingTarget p c < 64 := by
    unfold castlingTarget
    split at hb
    · rw [if_pos (by assumption)]; omega
    · rw [if_neg (by assumption)]; omega
  unfold isCapture
  rw [Move.kind_eq, Move.tgt_eq]
  show ((decide _) || _) = false
  rw [castlingWord_eq_add _ _ hlt.1 hlt.2]
  have e1 : (lsb (p.pieces p.side KING) + castlingTarget p c * 64 + 12288) / 4096 % 4 = 3 := by omega
  have e2 : (lsb (p.pieces p.side KING) + castlingTarget p c * 64 + 12288) / 64 % 64 = castlingTarget p c := by
    omega
  rw [e1, e2, hempty]
  rfl

/-! ### legal positions: the king is on e1/e8 while it has a castling right -/

theorem lsb_of_popcount_one {b : BB} {i : Nat} (hp : popcount b = 1) (hi : i < 64) (hb : b.getLsbD i = true) :
    lsb b = i := by
  unfold popcount at hp
  unfold lsb
  have hmem : i ∈ squares b := mem_squares_B.2 ⟨hi, hb⟩
  match hsq : squares b, hp, hmem with
  | [x], _, hmem =>
    rw [List.mem_singleton] at hmem
    rw [hmem]; rfl

theorem castlingTargetOnBoard_of_WF {p : Pos} (h : WF p = true) : castlingTargetOnBoard p := by
  unfold WF at h
  simp only [Bool.and_eq_true] at h
  obtain ⟨⟨hw, _⟩, hch⟩ := h
  have ha := agrees_of_wfShape_core p hw
  unfold wfChess at hch
  simp only [Bool.and_eq_true, Bool.or_eq_true, beq_iff_eq] at hch
  obtain ⟨⟨⟨⟨⟨⟨⟨⟨hk0, hk1⟩, _⟩, c1⟩, c2⟩, c4⟩, c8⟩, _⟩, _⟩ := hch
  have kw : p.at 4 = 6 → lsb (p.pieces 0 KING) = 4 := fun h4 =>
    lsb_of_popcount_one hk0 (by omega) (((ha 4 (by omega)).2 0 KING (by omega) (by decide)).2 h4)
  have kb : p.at 60 = 14 → lsb (p.pieces 1 KING) = 60 := fun h60 =>
    lsb_of_popcount_one hk1 (by omega) (((ha 60 (by omega)).2 1 KING (by omega) (by decide)).2 h60)
  intro c hc hcol hcan
  obtain ⟨hr, _⟩ := canCastleNow_spec hcan
  rw [Nat.and_comm] at hr
  simp only [List.mem_cons, List.not_mem_nil, or_false] at hc
  rcases hc with rfl | rfl | rfl | rfl
  · have hs : p.side = 0 := by rw [← hcol]; rfl
    rcases c1 with h0 | h0
    · exact absurd h0 hr
    · rw [hs, kw h0.1]; decide
  · have hs : p.side = 0 := by rw [← hcol]; rfl
    rcases c2 with h0 | h0
    · exact absurd h0 hr
    · rw [hs, kw h0.1]; decide
  · have hs : p.side = 1 := by rw [← hcol]; rfl
    rcases c4 with h0 | h0
    · exact absurd h0 hr
    · rw [hs, kb h0.1]; decide
  · have hs : p.side = 1 := by rw [← hcol]; rfl
    rcases c8 with h0 | h0
    · exact absurd h0 hr
    · rw [hs, kb h0.1]; decide

/-- sufficient: the king of the side to move stands on a square 2..61 -/
theorem castlingTargetOnBoard_of_king {p : Pos}
    (h : 2 ≤ lsb (p.pieces p.side KING) ∧ lsb (p.pieces p.side KING) ≤ 61) : castlingTargetOnBoard p := by
  intro c _ _ _
  split <;> omega

end Clemens
