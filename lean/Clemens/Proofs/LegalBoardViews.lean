import Clemens.Model.WF
/-
NOTE (P15): this file is a verbatim copy of `Clemens/Proofs/BoardViews.lean` placed in the namespace `Clemens.LBV`.
Reason: the lemma libraries of C02 (`MakeMove*.lean`), C10 (`BoardViews.lean`, `MakeMoveShape.lean`) and C12d (`Attackers.lean`)
declare clashing global names (`Clemens.validPiece_lt`, `Clemens.makeMove_eq`, `Clemens.absPos_at`, …), so `Clemens.Props.C02` and
`Clemens.Props.C10` cannot be imported into one module.  C01/C10b need `makeMove_refines` (C02) and `makeMove_wfShape` (C10)
together; the latter is taken from this copy (`LBV.makeMove_agrees_core`), whose statement mentions model definitions only.
-/
/-
Lemma library for C10: the board array and the twelve piece bitboards describe the same placement,
and the primitive operations (`setPiece`, `deletePiece`, `movePiece`, `helperBitboards`) keep it so.
-/
namespace Clemens
namespace LBV

/-! ### total array helpers -/

theorem vget_vset {α : Type} {n : Nat} (v : Vector α n) (i j : Nat) (x d : α) :
    vget (vset v i x) j d = if i = j ∧ i < n then x else vget v j d := by
  unfold vget vset
  rw [Vector.getElem?_setIfInBounds]
  by_cases h : i = j
  · subst h
    by_cases h2 : i < n <;> simp [h2]
  · simp [h]

theorem vget_vset_self {α : Type} {n : Nat} (v : Vector α n) (i : Nat) (x d : α) (h : i < n) :
    vget (vset v i x) i d = x := by
  rw [vget_vset]; simp [h]

theorem vget_vset_ne {α : Type} {n : Nat} (v : Vector α n) (i j : Nat) (x d : α) (h : i ≠ j) :
    vget (vset v i x) j d = vget v j d := by
  rw [vget_vset]; simp [h]

/-! ### single-square sets -/

theorem bit_getLsbD (s i : Nat) : (bit s).getLsbD i = decide (i = s ∧ i < 64) := by
  unfold bit
  rw [Bool.eq_iff_iff]
  simp [BitVec.getLsbD_shiftLeft]
  omega

/-! ### piece codes -/

theorem validPiece_lt {pc : Nat} (h : validPiece pc = true) : pc < 16 := by
  unfold validPiece pieceColor at h
  simp [Nat.shiftRight_eq_div_pow] at h
  omega

theorem validPiece_cases_aux : ∀ pc, pc < 16 → validPiece pc = true →
    pieceColor pc < 2 ∧ pieceType pc < 6 ∧ pc = newPiece (pieceColor pc) (pieceType pc) ∧ pc ≠ 0 := by
  decide

theorem validPiece_cases {pc : Nat} (h : validPiece pc = true) :
    pieceColor pc < 2 ∧ pieceType pc < 6 ∧ pc = newPiece (pieceColor pc) (pieceType pc) ∧ pc ≠ 0 :=
  validPiece_cases_aux pc (validPiece_lt h) h

theorem newPiece_facts_aux : ∀ c, c < 2 → ∀ t, t < 6 →
    pieceColor (newPiece c t) = c ∧ pieceType (newPiece c t) = t ∧ validPiece (newPiece c t) = true := by
  decide

theorem pieceColor_newPiece {c t : Nat} (hc : c < 2) (ht : t < 6) : pieceColor (newPiece c t) = c :=
  (newPiece_facts_aux c hc t ht).1
theorem pieceType_newPiece {c t : Nat} (hc : c < 2) (ht : t < 6) : pieceType (newPiece c t) = t :=
  (newPiece_facts_aux c hc t ht).2.1
theorem validPiece_newPiece {c t : Nat} (hc : c < 2) (ht : t < 6) : validPiece (newPiece c t) = true :=
  (newPiece_facts_aux c hc t ht).2.2

theorem newPiece_ne_zero (c t : Nat) : newPiece c t ≠ 0 := by
  unfold newPiece; omega

theorem newPiece_inj {c t c' t' : Nat} (ht : t < 6) (ht' : t' < 6)
    (h : newPiece c t = newPiece c' t') : c = c' ∧ t = t' := by
  unfold newPiece at h; omega

theorem pieceIdx_inj {c t c' t' : Nat} (ht : t < 6) (ht' : t' < 6) :
    c * 6 + t = c' * 6 + t' ↔ c = c' ∧ t = t' := by
  omega

theorem pieceIdx_lt {c t : Nat} (hc : c < 2) (ht : t < 6) : c * 6 + t < 12 := by omega

/-! ### the agreement predicate -/

/-- core agreement of the two placement views (without the aggregate clauses) -/
def boardAgrees (p : Pos) : Prop :=
  ∀ s, s < 64 → (p.at s = 0 ∨ validPiece (p.at s) = true) ∧
    ∀ c t, c < 2 → t < 6 → ((p.pieces c t).getLsbD s = true ↔ p.at s = newPiece c t)

theorem boardAgrees_congr {p q : Pos} (hb : q.bb = p.bb) (hB : q.board = p.board)
    (ha : boardAgrees p) : boardAgrees q := by
  intro s hs
  have := ha s hs
  simpa [Pos.at, Pos.pieces, hb, hB] using this

/-- an empty square carries no bit in any of the twelve sets -/
theorem boardAgrees_empty {p : Pos} (ha : boardAgrees p) {s : Nat} (hs : s < 64) (he : p.at s = 0)
    {c t : Nat} (hc : c < 2) (ht : t < 6) : (p.pieces c t).getLsbD s = false := by
  have h := ((ha s hs).2 c t hc ht)
  rw [he] at h
  have : ¬ (p.pieces c t).getLsbD s = true := fun hh => newPiece_ne_zero c t (h.1 hh).symm
  simpa using this

/-- `SetPiece` on a square that is empty, or already holds the very same piece -/
theorem setPiece_agrees' (K : Keys) (p q : Pos) (pc s : Nat) (h : setPiece K p pc s = some q)
    (he : p.at s = 0 ∨ p.at s = pc) (ha : boardAgrees p) : boardAgrees q := by
  unfold setPiece at h
  split at h
  · rename_i hcond
    simp only [Bool.and_eq_true, decide_eq_true_eq] at hcond
    obtain ⟨hs, hv⟩ := hcond
    obtain ⟨hc, ht, hpc, hpc0⟩ := validPiece_cases hv
    injection h with h
    subst h
    intro s' hs'
    obtain ⟨h1, h2⟩ := ha s' hs'
    by_cases hss : s = s'
    · subst hss
      simp only [Pos.at, Pos.pieces] at *
      rw [vget_vset_self _ _ _ _ hs]
      refine ⟨Or.inr hv, ?_⟩
      intro c' t' hc' ht'
      rw [vget_vset]
      by_cases hidx : pieceColor pc * 6 + pieceType pc = c' * 6 + t'
      · obtain ⟨e1, e2⟩ := (pieceIdx_inj ht ht').1 hidx
        have hlt := pieceIdx_lt hc ht
        simp only [hidx, true_and]
        rw [if_pos (by omega)]
        simp only [BitVec.getLsbD_or, bit_getLsbD, hs, and_self, decide_true, Bool.or_true, true_iff]
        rw [← e1, ← e2]; exact hpc
      · rw [if_neg (fun hh => hidx hh.1)]
        have hne : pc ≠ newPiece c' t' := by
          intro hh
          rw [hpc] at hh
          have := newPiece_inj ht ht' hh
          exact hidx (by rw [this.1, this.2])
        rcases he with he | he
        · have := (h2 c' t' hc' ht')
          rw [he] at this
          constructor
          · intro hb; exact absurd (this.1 hb).symm (newPiece_ne_zero _ _)
          · intro hb; exact absurd hb hne
        · have := (h2 c' t' hc' ht')
          rw [he] at this
          exact this
    · simp only [Pos.at, Pos.pieces] at *
      rw [vget_vset_ne _ _ _ _ _ hss]
      refine ⟨h1, ?_⟩
      intro c' t' hc' ht'
      rw [vget_vset]
      split
      · rename_i hidx
        obtain ⟨e1, e2⟩ := (pieceIdx_inj ht ht').1 hidx.1
        simp only [BitVec.getLsbD_or, bit_getLsbD]
        have : decide (s' = s ∧ s' < 64) = false := by simp; omega
        rw [this, Bool.or_false, e1, e2]
        exact h2 c' t' hc' ht'
      · exact h2 c' t' hc' ht'
  · exact absurd h (by simp)

theorem setPiece_agrees_core (K : Keys) (p q : Pos) (pc s : Nat) (h : setPiece K p pc s = some q)
    (he : p.at s = 0) (ha : boardAgrees p) : boardAgrees q :=
  setPiece_agrees' K p q pc s h (Or.inl he) ha

theorem deletePiece_agrees_core (K : Keys) (p q : Pos) (s pc : Nat) (h : deletePiece K p s = some (q, pc))
    (ha : boardAgrees p) : boardAgrees q := by
  unfold deletePiece at h
  simp only at h
  split at h
  · rename_i hcond
    simp only [Bool.and_eq_true, decide_eq_true_eq] at hcond
    obtain ⟨hs, hv⟩ := hcond
    obtain ⟨hc, ht, hpc, hpc0⟩ := validPiece_cases hv
    injection h with h
    injection h with h hpc'
    subst h
    intro s' hs'
    obtain ⟨h1, h2⟩ := ha s' hs'
    by_cases hss : s = s'
    · subst hss
      simp only [Pos.at, Pos.pieces] at *
      rw [vget_vset_self _ _ _ _ hs]
      refine ⟨Or.inl rfl, ?_⟩
      intro c' t' hc' ht'
      have hz : (0 = newPiece c' t') ↔ False := ⟨fun hh => newPiece_ne_zero _ _ hh.symm, False.elim⟩
      rw [vget_vset, hz]
      split
      · simp [bit_getLsbD, hs]
      · rename_i hidx
        refine ⟨fun hb => ?_, False.elim⟩
        have := (h2 c' t' hc' ht').1 hb
        rw [this] at hidx
        apply hidx
        rw [pieceColor_newPiece hc' ht', pieceType_newPiece hc' ht']
        exact ⟨rfl, pieceIdx_lt hc' ht'⟩
    · simp only [Pos.at, Pos.pieces] at *
      rw [vget_vset_ne _ _ _ _ _ hss]
      refine ⟨h1, ?_⟩
      intro c' t' hc' ht'
      rw [vget_vset]
      split
      · rename_i hidx
        obtain ⟨e1, e2⟩ := (pieceIdx_inj ht ht').1 hidx.1
        simp only [BitVec.getLsbD_and, BitVec.getLsbD_not, bit_getLsbD]
        have : decide (s' = s ∧ s' < 64) = false := by simp; omega
        rw [this, e1, e2]
        simp only [hs', decide_true, Bool.not_false, Bool.and_true]
        exact h2 c' t' hc' ht'
      · exact h2 c' t' hc' ht'
  · exact absurd h (by simp)

/-- what `DeletePiece` does to the board array -/
theorem deletePiece_at (K : Keys) (p q : Pos) (s pc : Nat) (h : deletePiece K p s = some (q, pc)) :
    s < 64 ∧ pc = p.at s ∧ validPiece pc = true ∧ ∀ s', q.at s' = if s' = s then 0 else p.at s' := by
  unfold deletePiece at h
  simp only at h
  split at h
  · rename_i hcond
    simp only [Bool.and_eq_true, decide_eq_true_eq] at hcond
    obtain ⟨hs, hv⟩ := hcond
    injection h with h
    injection h with h hpc'
    subst h
    refine ⟨hs, hpc'.symm, hpc' ▸ hv, ?_⟩
    intro s'
    simp only [Pos.at]
    rw [vget_vset]
    by_cases hss : s = s'
    · subst hss; simp [hs]
    · rw [if_neg (fun hh => hss hh.1), if_neg (fun hh => hss hh.symm)]
  · exact absurd h (by simp)

/-- what `SetPiece` does to the board array -/
theorem setPiece_at (K : Keys) (p q : Pos) (pc s : Nat) (h : setPiece K p pc s = some q) :
    s < 64 ∧ validPiece pc = true ∧ ∀ s', q.at s' = if s' = s then pc else p.at s' := by
  unfold setPiece at h
  split at h
  · rename_i hcond
    simp only [Bool.and_eq_true, decide_eq_true_eq] at hcond
    obtain ⟨hs, hv⟩ := hcond
    injection h with h
    subst h
    refine ⟨hs, hv, ?_⟩
    intro s'
    simp only [Pos.at]
    rw [vget_vset]
    by_cases hss : s = s'
    · subst hss; simp [hs]
    · rw [if_neg (fun hh => hss hh.1), if_neg (fun hh => hss hh.symm)]
  · exact absurd h (by simp)

/-- `MovePiece` between two different squares, the destination empty (or holding the same piece) -/
theorem movePiece_agrees (K : Keys) (p q : Pos) (f t pc : Nat) (h : movePiece K p f t = some (q, pc))
    (he : f = t ∨ p.at t = 0 ∨ p.at t = p.at f) (ha : boardAgrees p) : boardAgrees q := by
  unfold movePiece at h
  cases h1 : deletePiece K p f with
  | none => simp [h1] at h
  | some r =>
    obtain ⟨p1, pc1⟩ := r
    simp only [h1, Option.bind_some, bind, pure] at h
    cases h2 : setPiece K p1 pc1 t with
    | none => simp [h2] at h
    | some p2 =>
      simp only [h2, Option.bind_some, Option.some.injEq, Prod.mk.injEq] at h
      obtain ⟨hq, _⟩ := h
      subst hq
      have a1 := deletePiece_agrees_core K p p1 f pc1 h1 ha
      obtain ⟨_, hpc, _, hat⟩ := deletePiece_at K p p1 f pc1 h1
      refine setPiece_agrees' K p1 p2 pc1 t h2 ?_ a1
      rw [hat t]
      split
      · exact Or.inl rfl
      · rename_i hne
        rcases he with he | he | he
        · exact absurd he.symm hne
        · exact Or.inl he
        · exact Or.inr (he.trans hpc.symm)

theorem movePiece_at (K : Keys) (p q : Pos) (f t pc : Nat) (h : movePiece K p f t = some (q, pc)) :
    f < 64 ∧ t < 64 ∧ pc = p.at f ∧ validPiece pc = true ∧
      ∀ s', q.at s' = if s' = t then pc else if s' = f then 0 else p.at s' := by
  unfold movePiece at h
  cases h1 : deletePiece K p f with
  | none => simp [h1] at h
  | some r =>
    obtain ⟨p1, pc1⟩ := r
    simp only [h1, Option.bind_some, bind, pure] at h
    cases h2 : setPiece K p1 pc1 t with
    | none => simp [h2] at h
    | some p2 =>
      simp only [h2, Option.bind_some, Option.some.injEq, Prod.mk.injEq] at h
      obtain ⟨hq, hpc'⟩ := h
      subst hq; subst hpc'
      obtain ⟨hf, hpc, hv, hat⟩ := deletePiece_at K p p1 f pc1 h1
      obtain ⟨ht, _, hat2⟩ := setPiece_at K p1 p2 pc1 t h2
      refine ⟨hf, ht, hpc, hv, ?_⟩
      intro s'
      rw [hat2 s', hat s']

theorem helperBitboards_agrees_core (p : Pos) (ha : boardAgrees p) : boardAgrees (helperBitboards p) :=
  boardAgrees_congr (p := p) rfl rfl ha

/-! ### `wfShape` versus `boardAgrees` -/

/-- the placement part of `wfShape` is `boardAgrees` -/
theorem placement_iff_agrees (p : Pos) :
    ((List.range 64).all (fun s =>
      let pc := p.at s
      (pc == 0 || validPiece pc) &&
      (List.range 2).all fun c => (List.range 6).all fun t =>
        (p.pieces c t).has s == (pc == newPiece c t)) = true) ↔ boardAgrees p := by
  unfold boardAgrees
  simp only [List.all_eq_true, List.mem_range, Bool.and_eq_true, Bool.or_eq_true, beq_iff_eq, BB.has]
  constructor
  · intro h s hs
    obtain ⟨h1, h2⟩ := h s hs
    refine ⟨h1, ?_⟩
    intro c t hc ht
    have := h2 c hc t ht
    rw [this]
    simp
  · intro h s hs
    obtain ⟨h1, h2⟩ := h s hs
    refine ⟨h1, ?_⟩
    intro c hc t ht
    have := h2 c t hc ht
    rw [Bool.eq_iff_iff]
    simpa using this

theorem wfShape_iff_core (p : Pos) : wfShape p = true ↔
    boardAgrees p ∧
    p.white = (List.range 6).foldl (fun acc t => acc ||| p.pieces 0 t) 0#64 ∧
    p.black = (List.range 6).foldl (fun acc t => acc ||| p.pieces 1 t) 0#64 ∧
    p.all = (p.white ||| p.black) := by
  unfold wfShape
  rw [Bool.and_eq_true, Bool.and_eq_true, Bool.and_eq_true, placement_iff_agrees]
  simp only [beq_iff_eq, and_assoc]

theorem agrees_of_wfShape_core (p : Pos) (hw : wfShape p = true) : boardAgrees p :=
  ((wfShape_iff_core p).1 hw).1

theorem wfShape_of_agrees_core (p : Pos) (ha : boardAgrees p) : wfShape (helperBitboards p) = true := by
  rw [wfShape_iff_core]
  exact ⟨helperBitboards_agrees_core p ha, rfl, rfl, rfl⟩

/-- `wfShape` only looks at the placement fields -/
theorem wfShape_congr {p q : Pos} (hb : q.bb = p.bb) (hB : q.board = p.board) (hw : q.white = p.white)
    (hk : q.black = p.black) (hall : q.all = p.all) : wfShape q = wfShape p := by
  unfold wfShape
  simp only [Pos.at, Pos.pieces, hb, hB, hw, hk, hall]

theorem pieces_disjoint_core (p : Pos) (ha : boardAgrees p) (c t c' t' : Nat) (hc : c < 2) (ht : t < 6)
    (hc' : c' < 2) (ht' : t' < 6) (hne : (c, t) ≠ (c', t')) :
    p.pieces c t &&& p.pieces c' t' = 0#64 := by
  apply BitVec.eq_of_getLsbD_eq
  intro i hi
  rw [BitVec.getLsbD_and]
  simp only [BitVec.getLsbD_zero, Bool.and_eq_false_imp]
  intro h1
  have e1 := ((ha i hi).2 c t hc ht).1 h1
  cases h2 : (p.pieces c' t').getLsbD i with
  | false => rfl
  | true =>
    have e2 := ((ha i hi).2 c' t' hc' ht').1 h2
    rw [e1] at e2
    obtain ⟨a, b⟩ := newPiece_inj ht ht' e2
    exact absurd (by rw [a, b]) hne

/-! ### what the primitives do to the bitboards (used for the necessity of the castling side condition) -/

theorem deletePiece_pieces_ne (K : Keys) (p q : Pos) (s pc : Nat) (h : deletePiece K p s = some (q, pc))
    (c t i : Nat) (hi : i ≠ s) (hb : (p.pieces c t).getLsbD i = true) : (q.pieces c t).getLsbD i = true := by
  unfold deletePiece at h
  simp only at h
  split at h
  · injection h with h
    injection h with h _
    subst h
    simp only [Pos.pieces] at *
    rw [vget_vset]
    split
    · rename_i hidx
      rw [hidx.1]
      have hlt : i < 64 := by
        cases hd : decide (i < 64) with
        | true => simpa using hd
        | false =>
          have : ¬ i < 64 := by simpa using hd
          rw [BitVec.getLsbD_of_ge _ _ (by omega)] at hb
          exact absurd hb (by simp)
      simp only [BitVec.getLsbD_and, BitVec.getLsbD_not, bit_getLsbD, hb, Bool.true_and, hlt, decide_true]
      simp [hi]
    · exact hb
  · exact absurd h (by simp)

theorem setPiece_pieces_mono (K : Keys) (p q : Pos) (pc s : Nat) (h : setPiece K p pc s = some q)
    (c t i : Nat) (hb : (p.pieces c t).getLsbD i = true) : (q.pieces c t).getLsbD i = true := by
  unfold setPiece at h
  split at h
  · injection h with h
    subst h
    simp only [Pos.pieces] at *
    rw [vget_vset]
    split
    · rename_i hidx
      rw [hidx.1]
      simp only [BitVec.getLsbD_or, hb, Bool.true_or]
    · exact hb
  · exact absurd h (by simp)

theorem movePiece_pieces_keep (K : Keys) (p q : Pos) (f t pc : Nat) (h : movePiece K p f t = some (q, pc))
    (c' t' i : Nat) (hi : i ≠ f) (hb : (p.pieces c' t').getLsbD i = true) :
    (q.pieces c' t').getLsbD i = true := by
  unfold movePiece at h
  cases h1 : deletePiece K p f with
  | none => simp [h1] at h
  | some r =>
    obtain ⟨p1, pc1⟩ := r
    simp only [h1, Option.bind_some, bind, pure] at h
    cases h2 : setPiece K p1 pc1 t with
    | none => simp [h2] at h
    | some p2 =>
      simp only [h2, Option.bind_some, Option.some.injEq, Prod.mk.injEq] at h
      obtain ⟨hq, _⟩ := h
      subst hq
      exact setPiece_pieces_mono K p1 p2 pc1 t h2 c' t' i
        (deletePiece_pieces_ne K p p1 f pc1 h1 c' t' i hi hb)

end LBV
end Clemens
