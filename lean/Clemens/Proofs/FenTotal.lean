import Clemens.Model.Fen
/-
Lemmas for C11: the FEN parser of the model never reaches a `.panic`.
-/
namespace Clemens

/-! ### `splitBytes` -/

theorem splitBytes_ne_nil (sep : Nat) (b : Bytes) : splitBytes sep b ≠ [] := by
  induction b with
  | nil => simp [splitBytes]
  | cons x xs ih =>
    unfold splitBytes
    split
    · simp
    · split <;> simp

theorem splitBytes_no_sep_aux (sep : Nat) (b : Bytes) : ∀ t ∈ splitBytes sep b, sep ∉ t := by
  induction b with
  | nil => simp [splitBytes]
  | cons x xs ih =>
    unfold splitBytes
    split
    · rename_i h; exact absurd h (splitBytes_ne_nil sep xs)
    · rename_i t ts h
      rw [h] at ih
      split
      · intro u hu
        simp only [List.mem_cons] at hu
        rcases hu with rfl | rfl | hu
        · simp
        · exact ih _ (by simp)
        · exact ih _ (by simp [hu])
      · rename_i hne
        intro u hu
        simp only [List.mem_cons] at hu
        rcases hu with rfl | hu
        · have := ih t (by simp)
          simp only [List.mem_cons, not_or]
          exact ⟨fun h => hne h.symm, this⟩
        · exact ih _ (by simp [hu])

/-! ### `decodeRune`: a rune below 0x80 is a byte of the input -/

theorem and31 (x : Nat) : x &&& 0x1F = x % 32 := Nat.and_two_pow_sub_one_eq_mod x 5
theorem and15 (x : Nat) : x &&& 0x0F = x % 16 := Nat.and_two_pow_sub_one_eq_mod x 4
theorem and7 (x : Nat) : x &&& 0x07 = x % 8 := Nat.and_two_pow_sub_one_eq_mod x 3
theorem and63 (x : Nat) : x &&& 0x3F = x % 64 := Nat.and_two_pow_sub_one_eq_mod x 6

theorem or2_ge {a b : Nat} (h : 128 ≤ a) : 128 ≤ a ||| b := by
  have := @Nat.left_le_or a b; omega
theorem or3_ge {a b c : Nat} (h : 128 ≤ a ∨ 128 ≤ b) : 128 ≤ a ||| b ||| c := by
  have := @Nat.left_le_or (a ||| b) c
  have := @Nat.left_le_or a b
  have := @Nat.right_le_or a b
  omega
theorem or4_ge {a b c d : Nat} (h : 128 ≤ a ∨ 128 ≤ b) : 128 ≤ a ||| b ||| c ||| d := by
  have := @Nat.left_le_or (a ||| b ||| c) d
  have := or3_ge (c := c) h
  omega

/-- a decoded rune below 0x80 is the first byte itself: multi-byte sequences decode to ≥ 0x80,
errors to 0xFFFD -/
theorem decodeRune_lt_128 (s : Bytes) (h : (decodeRune s).1 < 128) :
    ∃ rest, s = (decodeRune s).1 :: rest := by
  unfold decodeRune at h ⊢
  split at h
  · simp [runeError] at h
  · rename_i b0 rest
    split at h
    · rename_i hb; simp [hb]
    · exfalso
      split at h
      · simp [runeError] at h
      · rename_i h1 h2
        simp only [Bool.or_eq_true, decide_eq_true_eq, not_or, Nat.not_lt] at h2
        simp only [and31, and15, and7, and63, Bool.and_eq_true, decide_eq_true_eq] at h
        repeat' split at h
        all_goals first
          | (simp [runeError] at h; done)
          | (simp only at h
             first
              | exact absurd (or2_ge (by omega)) (Nat.not_le.mpr h)
              | exact absurd (or3_ge (by omega)) (Nat.not_le.mpr h)
              | exact absurd (or4_ge (by omega)) (Nat.not_le.mpr h))

theorem decodeRune_lt_128_mem (s : Bytes) (h : (decodeRune s).1 < 128) : (decodeRune s).1 ∈ s := by
  obtain ⟨rest, hr⟩ := decodeRune_lt_128 s h
  generalize (decodeRune s).1 = r at hr
  subst hr
  exact List.mem_cons_self

/-- `decodeRune` yields rune 32 only from byte 32 -/
theorem decodeRune_eq_32 (s : Bytes) (h : (decodeRune s).1 = 32) : ∃ rest, s = 32 :: rest := by
  have := decodeRune_lt_128 s (by omega)
  rwa [h] at this

/-! ### `runes` -/

theorem runesAux_lt_128_mem (fuel off : Nat) (s : Bytes) :
    ∀ x ∈ runesAux fuel off s, x.2 < 128 → x.2 ∈ s := by
  induction fuel generalizing off s with
  | zero => simp [runesAux]
  | succ n ih =>
    cases s with
    | nil => simp [runesAux]
    | cons b bs =>
      intro x hx hlt
      simp only [runesAux, List.mem_cons] at hx
      rcases hx with rfl | hx
      · exact decodeRune_lt_128_mem _ hlt
      · exact List.mem_of_mem_drop (ih _ _ x hx hlt)

/-- every ASCII rune of a Go string is one of its bytes -/
theorem runes_lt_128_mem (s : Bytes) : ∀ r ∈ runes s, r < 128 → r ∈ s := by
  intro r hr hlt
  simp only [runes, runesWithOffsets, List.mem_map] at hr
  obtain ⟨x, hx, rfl⟩ := hr
  exact runesAux_lt_128_mem _ _ _ x hx hlt

theorem runes_no_32 (s : Bytes) (h : 32 ∉ s) : ∀ r ∈ runes s, r ≠ 32 := by
  intro r hr he
  subst he
  exact h (runes_lt_128_mem s 32 hr (by omega))

/-! ### piece codes -/

theorem validPiece_of_idx : ∀ i, i < 6 → validPiece (i + 1) = true ∧ validPiece (i + 9) = true := by
  decide

theorem findIdx?_lt {α} {p : α → Bool} {l : List α} {i : Nat} (h : l.findIdx? p = some i) :
    i < l.length := (List.findIdx?_eq_some_iff_findIdx_eq.mp h).1

/-- `pieceFromChar` yields the code 0 (from `' '`) or a valid piece code -/
theorem pieceFromChar_some (r pc : Nat) (h : pieceFromChar r = some pc) :
    (r = 32 ∧ pc = 0) ∨ validPiece pc = true := by
  unfold pieceFromChar at h
  split at h
  · left; simp_all
  · right
    split at h
    · rename_i i hi
      have hlt := findIdx?_lt hi
      have : "PNBRQK".toList.length = 6 := by decide
      rw [this] at hlt
      simp only [Option.some.injEq] at h
      subst h
      exact (validPiece_of_idx i hlt).1
    · split at h
      · rename_i i hi
        have hlt := findIdx?_lt hi
        have : "pnbrqk".toList.length = 6 := by decide
        rw [this] at hlt
        simp only [Option.some.injEq] at h
        subst h
        exact (validPiece_of_idx i hlt).2
      · simp at h

theorem pieceFromChar_some' (r pc : Nat) (h : pieceFromChar r = some pc) :
    pc = 0 ∨ validPiece pc = true := by
  rcases pieceFromChar_some r pc h with h | h
  · exact .inl h.2
  · exact .inr h

theorem setPiece_eq_none_iff (K : Keys) (p : Pos) (pc sq : Nat) :
    setPiece K p pc sq = none ↔ ¬(sq < 64 ∧ validPiece pc = true) := by
  unfold setPiece
  split <;> simp_all

theorem setPiece_isSome (K : Keys) (p : Pos) (pc sq : Nat) (hs : sq < 64) (hv : validPiece pc = true) :
    setPiece K p pc sq ≠ none := by
  rw [Ne, setPiece_eq_none_iff]; simp [hs, hv]

/-! ### the fields of the FEN -/

theorem fenSetPieces_go_ne_panic (K : Keys) (rs : List Nat) (h : ∀ r ∈ rs, r ≠ 32) (sq : Nat) (p : Pos) :
    fenSetPieces.go K rs sq p ≠ .panic := by
  induction rs generalizing sq p with
  | nil => simp [fenSetPieces.go]
  | cons r rs ih =>
    have ih' := fun sq p => ih (fun r hr => h r (by simp [hr])) sq p
    have hr : r ≠ 32 := h r (by simp)
    unfold fenSetPieces.go
    split
    · exact ih' _ _
    · split
      · exact ih' _ _
      · split
        · simp
        · rename_i pc hpc
          split
          · simp
          · rename_i hsq
            have hv : validPiece pc = true := by
              rcases pieceFromChar_some r pc hpc with h | h
              · exact absurd h.1 hr
              · exact h
            split
            · rename_i hn
              exact absurd hn (setPiece_isSome K p pc sq (by omega) hv)
            · exact ih' _ _

theorem fenSetPieces_ne_panic (K : Keys) (t : Bytes) (h : 32 ∉ t) (p : Pos) :
    fenSetPieces K t p ≠ .panic :=
  fenSetPieces_go_ne_panic K _ (runes_no_32 t h) _ _

theorem fenSetSide_ne_panic (t : Bytes) (p : Pos) : fenSetSide t p ≠ .panic := by
  unfold fenSetSide
  repeat' split
  all_goals simp

theorem foldlM_castling_ne_panic (rs : List Nat) (p : Pos) :
    rs.foldlM (fun (p : Pos) r =>
      if r = 75 then Res.ok { p with castling := p.castling ||| 1 }
      else if r = 81 then .ok { p with castling := p.castling ||| 2 }
      else if r = 107 then .ok { p with castling := p.castling ||| 4 }
      else if r = 113 then .ok { p with castling := p.castling ||| 8 }
      else .error) p ≠ Res.panic := by
  induction rs generalizing p with
  | nil => simp [List.foldlM, pure]
  | cons r rs ih =>
    simp only [List.foldlM, bind]
    repeat' split
    all_goals first | exact ih _ | simp [Res.bind]

theorem fenSetCastling_ne_panic (t : Bytes) (p : Pos) : fenSetCastling t p ≠ .panic := by
  unfold fenSetCastling
  split
  · simp
  · exact foldlM_castling_ne_panic _ _

theorem squareFromString_go_ne_panic (l : List (Nat × Nat)) (f r : Int) :
    squareFromString.go l f r ≠ .panic := by
  induction l generalizing f r with
  | nil => simp [squareFromString.go]
  | cons x xs ih =>
    obtain ⟨i, c⟩ := x
    unfold squareFromString.go
    repeat' split
    all_goals first | exact ih _ _ | simp

theorem squareFromString_ne_panic (s : Bytes) : squareFromString s ≠ .panic := by
  unfold squareFromString
  split
  · simp
  · simp
  · rename_i h; exact absurd h (squareFromString_go_ne_panic _ _ _)

theorem fenSetEnPassant_ne_panic (t : Bytes) (p : Pos) : fenSetEnPassant t p ≠ .panic := by
  unfold fenSetEnPassant
  split
  · simp
  · have := squareFromString_ne_panic t
    simp only [bind, pure]
    cases h : squareFromString t <;> simp_all [Res.bind]

theorem atoi_some_int64 (s : Bytes) (v : Int) (h : atoi s = some v) :
    -9223372036854775808 ≤ v ∧ v ≤ 9223372036854775807 := by
  unfold atoi at h
  split at h
  rename_i neg digits hm
  simp only at h
  generalize List.foldl (fun acc b => acc * 10 + (b - 48)) 0 digits = n at h
  repeat' split at h
  all_goals first
    | (simp at h; done)
    | (simp only [Option.some.injEq] at h; omega)

theorem atoi_none_or_int64 (s : Bytes) :
    atoi s = none ∨ ∃ v : Int, atoi s = some v ∧ -9223372036854775808 ≤ v ∧ v ≤ 9223372036854775807 := by
  cases h : atoi s with
  | none => exact .inl rfl
  | some v => exact .inr ⟨v, rfl, atoi_some_int64 s v h⟩

theorem Res.bind_ne_panic {α β} (r : Res α) (f : α → Res β) (hr : r ≠ .panic) (hf : ∀ a, f a ≠ .panic) :
    r.bind f ≠ .panic := by
  cases r <;> simp_all [Res.bind]

theorem parseFen_ne_panic (K : Keys) (b : Bytes) : parseFen K b ≠ .panic := by
  unfold parseFen
  split
  · rename_i t0 t1 t2 t3 t4 t5 hsplit
    have h0 : 32 ∉ t0 := splitBytes_no_sep_aux 32 b t0 (by simp [hsplit])
    simp only [bind, pure]
    refine Res.bind_ne_panic _ _ (fenSetPieces_ne_panic K t0 h0 _) fun p => ?_
    refine Res.bind_ne_panic _ _ (fenSetSide_ne_panic _ _) fun p => ?_
    refine Res.bind_ne_panic _ _ (fenSetCastling_ne_panic _ _) fun p => ?_
    refine Res.bind_ne_panic _ _ (fenSetEnPassant_ne_panic _ _) fun p => ?_
    repeat' split
    all_goals simp
  · simp

end Clemens
