import Clemens.Model.See
import Clemens.Spec.FideSee
/-
C18 — arithmetic core of the static exchange evaluation (swap algorithm), independent of chess,
and its tie to the model's `seeLoop` / `see`.

The swap lemmas hold for arbitrary non-negative attacker values; about the generated `Gen.pieceValue` only
`genPieceValue_nonneg` (every entry is ≥ 0) is used — a `decide`d inequality, not an equality with the current list.
-/
namespace Clemens

/-- best result for the side to move, which may capture a piece of value `victim` with the first attacker of the list
(the attackers alternate sides) or stop -/
def minimaxSeq (victim : Int) : List Int → Int
  | [] => 0
  | a :: rest => max 0 (victim - minimaxSeq a rest)

/-- exchange value of making the first capture with a piece of value `a0` (that capture is not optional) -/
def exchangeValue (victim a0 : Int) (rest : List Int) : Int := victim - minimaxSeq a0 rest

/-- gain list of the swap algorithm without the early exit, deepest first: gain[0] = victim, gain[d] = a_{d-1} - gain[d-1] -/
def gainsNoPrune (victim : Int) (attackers : List Int) : List Int :=
  attackers.foldl (fun gs a => (a - gs.headD 0) :: gs) [victim]

/-- gain list with the early exit `max(-gain[d-1], gain[d]) < 0` as in `seeLoop`: every iteration pushes the speculative
`g := a - prev`, stops if `max (-prev) g < 0`, otherwise continues with the next attacker (stops if there is none). -/
def gainsPruned : List Int → List Int → List Int   -- attackers, gains so far (deepest first)
  | [], gs => gs
  | a :: rest, gs =>
    let prev := gs.headD 0
    let g := a - prev
    if max (-prev) g < 0 then g :: gs else gainsPruned rest (g :: gs)

/-- the pruned gain list of a whole exchange (deepest first) -/
def gainsPrunedRun (victim : Int) (attackers : List Int) : List Int := gainsPruned attackers [victim]

/-- one step of the backward pass -/
def seeStep (acc g' : Int) : Int := -(max (-g') acc)

theorem seeFold_cons (g : Int) (gs : List Int) : seeFold (g :: gs) = gs.foldl seeStep g := rfl

/-! ### A1: no pruning = minimax -/

theorem gainsNoPrune_fold (a : Int) (rest : List Int) (g : Int) (gs : List Int) :
    seeFold (((a :: rest).foldl (fun gs a => (a - gs.headD 0) :: gs) (g :: gs)).drop 1)
      = gs.foldl seeStep (g - minimaxSeq a rest) := by
  induction rest generalizing a g gs with
  | nil => simp [seeFold_cons, minimaxSeq]
  | cons b rest ih =>
    have h := ih b (a - g) (g :: gs)
    simp only [List.foldl_cons, List.headD_cons] at h ⊢
    rw [h]
    congr 1
    simp only [seeStep, minimaxSeq]
    omega

theorem swap_unpruned_eq' (victim a0 : Int) (rest : List Int) :
    seeFold ((gainsNoPrune victim (a0 :: rest)).drop 1) = exchangeValue victim a0 rest := by
  unfold gainsNoPrune exchangeValue
  rw [gainsNoPrune_fold]; rfl

/-! ### A2: pruning keeps the sign -/

theorem gainsPruned_cons (a : Int) (rest : List Int) (g : Int) (gs : List Int) :
    gainsPruned (a :: rest) (g :: gs) =
      if max (-g) (a - g) < 0 then (a - g) :: g :: gs else gainsPruned rest ((a - g) :: g :: gs) := rfl

theorem minimaxSeq_nonneg (v : Int) (l : List Int) : 0 ≤ minimaxSeq v l := by
  cases l <;> simp [minimaxSeq] <;> omega

theorem minimaxSeq_le (v : Int) (l : List Int) (hv : 0 ≤ v) : minimaxSeq v l ≤ v := by
  cases l with
  | nil => simpa [minimaxSeq]
  | cons a rest =>
    have := minimaxSeq_nonneg a rest
    simp only [minimaxSeq]; omega

theorem signOf_eq_iff (x y : Int) :
    Fide.signOf x = Fide.signOf y ↔ ((x < 0 ↔ y < 0) ∧ (0 < x ↔ 0 < y)) := by
  unfold Fide.signOf
  by_cases h1 : x < 0 <;> by_cases h2 : y < 0 <;> by_cases h3 : x > 0 <;> by_cases h4 : y > 0 <;>
    simp [h1, h2, h3, h4] <;> omega

theorem signOf_seeStep_congr {x y : Int} (g : Int) (h : Fide.signOf x = Fide.signOf y) :
    Fide.signOf (seeStep x g) = Fide.signOf (seeStep y g) := by
  rw [signOf_eq_iff] at h ⊢
  unfold seeStep
  omega

theorem signOf_foldl_congr (gs : List Int) {x y : Int} (h : Fide.signOf x = Fide.signOf y) :
    Fide.signOf (gs.foldl seeStep x) = Fide.signOf (gs.foldl seeStep y) := by
  induction gs generalizing x y with
  | nil => simpa
  | cons g gs ih => exact ih (signOf_seeStep_congr g h)

/-- the pruned backward pass equals an unpruned backward pass started from a value of the right sign -/
theorem gainsPruned_fold (a : Int) (rest : List Int) (g : Int) (gs : List Int)
    (ha : 0 ≤ a) (hr : ∀ x ∈ rest, 0 ≤ x) :
    ∃ X, seeFold ((gainsPruned (a :: rest) (g :: gs)).drop 1) = gs.foldl seeStep X ∧
      Fide.signOf X = Fide.signOf (g - minimaxSeq a rest) := by
  induction rest generalizing a g gs with
  | nil =>
    refine ⟨g, ?_, by simp [minimaxSeq]⟩
    by_cases hp : max (-g) (a - g) < 0 <;> simp [gainsPruned, hp, seeFold_cons]
  | cons b rest ih =>
    by_cases hp : max (-g) (a - g) < 0
    · refine ⟨g, by simp [gainsPruned_cons, hp, seeFold_cons], ?_⟩
      have h1 := minimaxSeq_le a (b :: rest) ha
      have h2 := minimaxSeq_nonneg a (b :: rest)
      rw [signOf_eq_iff]
      omega
    · obtain ⟨X', hX, hs⟩ := ih b (a - g) (g :: gs) (hr b (by simp)) (fun x hx => hr x (by simp [hx]))
      refine ⟨seeStep X' g, ?_, ?_⟩
      · rw [gainsPruned_cons, if_neg hp, hX]; rfl
      · rw [signOf_seeStep_congr g hs]
        congr 1
        simp only [seeStep, minimaxSeq]
        omega

theorem swap_sign' (victim a0 : Int) (rest : List Int) (ha : 0 ≤ a0) (hr : ∀ a ∈ rest, 0 ≤ a) :
    Fide.signOf (seeFold ((gainsPrunedRun victim (a0 :: rest)).drop 1)) = Fide.signOf (exchangeValue victim a0 rest) := by
  obtain ⟨X, hX, hs⟩ := gainsPruned_fold a0 rest victim [] ha hr
  unfold gainsPrunedRun exchangeValue
  rw [hX]; simpa using hs

/-! ### Tie to the model: `seeLoop` is `gainsPruned` over the attacker values the loop finds -/

/-- the state of the next iteration of `seeLoop` (after the speculative push and when the early exit is not taken);
`none` when there is no further attacker or it is a king that may not capture -/
def seeNext (p : Pos) (tgt : Nat) (maxXray : BB) (st : SeeState) : Option SeeState :=
  let prev := st.gains.headD 0
  let g := pieceValue st.atype - prev
  let gains := g :: st.gains
  let attacks := st.attacks ^^^ st.src
  let occ := st.occ ^^^ st.src
  let already := st.already ||| st.src
  let attacks := if (st.src &&& maxXray) != 0#64 then attacks ||| considerXrays p tgt occ already else attacks
  let side := switchColor st.side
  let (src, atype) := leastValuable p attacks side
  if src == 0#64 then none
  else if atype == KING && (attacks &&& p.byColor (switchColor side)) != 0#64 then none
  else some { gains, attacks, occ, already, src, atype, side }

/-- the attacker values the model's loop would use after the current attacker `st.atype`, ignoring the early exit
(same recursion as `seeLoop`; `fuel` = number of further iterations allowed) -/
def attackerValues (p : Pos) (tgt : Nat) (maxXray : BB) : Nat → SeeState → List Int
  | 0, _ => []
  | fuel+1, st =>
    match seeNext p tgt maxXray st with
    | none => []
    | some st' => pieceValue st'.atype :: attackerValues p tgt maxXray fuel st'

theorem seeNext_gains {p : Pos} {tgt : Nat} {maxXray : BB} {st st' : SeeState}
    (h : seeNext p tgt maxXray st = some st') :
    st'.gains = (pieceValue st.atype - st.gains.headD 0) :: st.gains := by
  unfold seeNext at h
  simp only at h
  generalize (if (st.src &&& maxXray != 0#64) = true then _ else _ : BB) = attacks at h
  split at h
  · exact absurd h (by simp)
  · split at h
    · exact absurd h (by simp)
    · rw [← Option.some.inj h]

/-- one unfolding of `seeLoop` in terms of `seeNext` -/
theorem seeLoop_succ (p : Pos) (tgt : Nat) (maxXray : BB) (fuel : Nat) (st : SeeState) :
    seeLoop p tgt maxXray (fuel+1) st =
      if max (-(st.gains.headD 0)) (pieceValue st.atype - st.gains.headD 0) < 0 then
        (pieceValue st.atype - st.gains.headD 0) :: st.gains
      else match seeNext p tgt maxXray st with
        | none => (pieceValue st.atype - st.gains.headD 0) :: st.gains
        | some st' => seeLoop p tgt maxXray fuel st' := by
  rw [seeLoop]
  unfold seeNext
  simp only
  split
  · rfl
  · generalize (if (st.src &&& maxXray != 0#64) = true then _ else _ : BB) = attacks
    split
    · rfl
    · split <;> rfl

theorem gainsPruned_cons' (a : Int) (rest gs : List Int) :
    gainsPruned (a :: rest) gs =
      if max (-(gs.headD 0)) (a - gs.headD 0) < 0 then (a - gs.headD 0) :: gs
      else gainsPruned rest ((a - gs.headD 0) :: gs) := by
  rw [gainsPruned]

theorem seeLoop_eq' (p : Pos) (tgt : Nat) (maxXray : BB) (fuel : Nat) (st : SeeState) :
    seeLoop p tgt maxXray (fuel+1) st =
      gainsPruned (pieceValue st.atype :: attackerValues p tgt maxXray fuel st) st.gains := by
  induction fuel generalizing st with
  | zero =>
    rw [seeLoop_succ, gainsPruned_cons']
    simp only [attackerValues, gainsPruned]
    split
    · rfl
    · cases h : seeNext p tgt maxXray st with
      | none => rfl
      | some st' => exact seeNext_gains h
  | succ n ih =>
    rw [seeLoop_succ, gainsPruned_cons']
    split
    · rfl
    · rw [attackerValues]
      cases h : seeNext p tgt maxXray st with
      | none => rfl
      | some st' =>
        simp only
        rw [ih st', seeNext_gains h]

/-- the only fact about the generated piece values that the C18 proofs use: no value is negative.  A `decide`d inequality over
the generated list, re-evaluated on every run (no entry, no ordering and not the king's value is pinned). -/
theorem genPieceValue_nonneg : ∀ x ∈ Gen.pieceValue, 0 ≤ x := by decide

theorem getD_nonneg (l : List Int) (h : ∀ x ∈ l, 0 ≤ x) (t : Nat) : 0 ≤ l.getD t 0 := by
  rw [List.getD_eq_getElem?_getD]
  cases ht : l[t]? with
  | none => simp
  | some x => simpa using h x (List.mem_of_getElem? ht)

theorem pieceValue_nonneg (t : Nat) : 0 ≤ pieceValue t :=
  getD_nonneg Gen.pieceValue genPieceValue_nonneg t

theorem attackerValues_nonneg (p : Pos) (tgt : Nat) (maxXray : BB) (fuel : Nat) (st : SeeState) :
    ∀ a ∈ attackerValues p tgt maxXray fuel st, 0 ≤ a := by
  induction fuel generalizing st with
  | zero => simp [attackerValues]
  | succ n ih =>
    rw [attackerValues]
    cases seeNext p tgt maxXray st with
    | none => simp
    | some st' =>
      intro a ha
      simp only [List.mem_cons] at ha
      rcases ha with rfl | ha
      · exact pieceValue_nonneg _
      · exact ih st' a ha

/-- the state `see` starts the loop from -/
def seeInit (p : Pos) (m : Move) : SeeState :=
  { gains := [pieceValue (pieceType (p.at m.tgt))], attacks := squareAttackedBy p m.tgt, occ := p.all,
    already := bit m.src, src := bit m.src, atype := pieceType (p.at m.src), side := p.side }

/-- the x-ray mask `see` uses -/
def seeMaxXray (p : Pos) : BB :=
  p.pieces 0 PAWN ||| p.pieces 1 PAWN ||| p.pieces 0 BISHOP ||| p.pieces 1 BISHOP |||
    p.pieces 0 ROOK ||| p.pieces 1 ROOK ||| p.pieces 0 QUEEN ||| p.pieces 1 QUEEN

/-- explicit form: the value returned by `see` is the pruned swap value for the attacker sequence of the model -/
theorem see_eq_swap_explicit (p : Pos) (m : Move) (v : Int) (h : see p m = some v) :
    v = seeFold ((gainsPrunedRun (pieceValue (pieceType (p.at m.tgt)))
          (pieceValue (pieceType (p.at m.src)) ::
            attackerValues p m.tgt (seeMaxXray p) 30 (seeInit p m))).drop 1) := by
  unfold see at h
  simp only at h
  split at h
  · simp at h
  · simp only [Option.some.injEq] at h
    rw [← h, seeLoop_eq']
    rfl

end Clemens
