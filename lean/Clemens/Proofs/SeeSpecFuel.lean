import Clemens.Proofs.SeeSpecStep
/-
C18b — fuel: every capture removes a piece from the squares other than the target, so the specification's list does
not depend on the fuel once the fuel exceeds the number of such pieces.
-/
namespace Clemens.P18
open Clemens

theorem countP_lt {α} (l : List α) (f g : α → Bool) (himp : ∀ x ∈ l, g x = true → f x = true)
    (x : α) (hx : x ∈ l) (hfx : f x = true) (hgx : g x = false) : l.countP g < l.countP f := by
  induction l with
  | nil => cases hx
  | cons y l ih =>
    rw [List.countP_cons, List.countP_cons]
    rcases List.mem_cons.1 hx with rfl | hx'
    · have hle : l.countP g ≤ l.countP f :=
        List.countP_mono_left (fun z hz hg => himp z (List.mem_cons_of_mem _ hz) hg)
      rw [hfx, hgx]; simp; omega
    · have := ih (fun z hz hg => himp z (List.mem_cons_of_mem _ hz) hg) hx'
      have h2 : (if g y = true then 1 else 0) ≤ (if f y = true then 1 else 0) := by
        cases hg : g y with
        | false => simp
        | true => rw [himp y (List.mem_cons_self ..) hg]; simp
      omega

/-- number of pieces that can still capture: occupied squares other than the target -/
def cnt (p : Pos) (t : Nat) (R : BB) : Nat :=
  (List.range 64).countP fun a => a != t && (occOf p R).getLsbD a

theorem cnt_lt (p : Pos) (t : Nat) (R : BB) (s : Nat) (hs : s < 64) (hst : s ≠ t)
    (hocc : (occOf p R).getLsbD s = true) : cnt p t (R ||| bit s) < cnt p t R := by
  unfold cnt
  apply countP_lt _ _ _ _ s (List.mem_range.2 hs)
  · simp [hst, hocc]
  · rw [occOf_or_bit p R s s hs hs]; simp
  · intro x hx h
    rw [List.mem_range] at hx
    rw [Bool.and_eq_true] at h ⊢
    exact ⟨h.1, occOf_sub p R s hs x hx h.2⟩

/-- what the specification's least attacker is, on a `Board` -/
theorem Board.least_facts {p : Pos} {t : Nat} {R : BB} {q : Fide.Pos} (hb : Board p t R q) (hw : wfShape p = true)
    (ht : t < 64) (hpt : p.at t ≠ 0) (hRt : R.getLsbD t = false) (c : Nat) (hc : c < 2) (s : Nat)
    (h : Fide.leastAttacker q c t = some s) :
    s < 64 ∧ s ≠ t ∧ R.getLsbD s = false ∧ p.at s ≠ 0 := by
  rw [hb.leastAttacker hw ht hpt hRt c hc] at h
  cases hp : pick (selF p t R c) with
  | none => rw [hp] at h; cases h
  | some ka =>
    obtain ⟨k, a⟩ := ka
    rw [hp] at h
    simp only [Option.map_some, Option.some.injEq] at h
    subst h
    obtain ⟨_, ha, hsel, _, _⟩ := pick_some hp
    unfold selF at hsel
    simp only [Bool.and_eq_true, Bool.not_eq_true', beq_iff_eq] at hsel
    obtain ⟨⟨hatt, hR⟩, hpc⟩ := hsel
    refine ⟨ha, ?_, hR, by rw [hpc]; exact newPiece_ne_zero _ _⟩
    intro e
    rw [e, attT_self _ _ _ ht] at hatt
    cases hatt

theorem other_lt (c : Nat) : Fide.other c < 2 := by unfold Fide.other; omega

theorem specSeq_fuel (value : Nat → Int) (p : Pos) (hw : wfShape p = true) (t : Nat) (ht : t < 64) (hpt : p.at t ≠ 0) :
    ∀ (n j : Nat) (R : BB) (q : Fide.Pos) (c : Nat), Board p t R q → R.getLsbD t = false → c < 2 →
      cnt p t R ≤ n → specSeq value (n + j) q t c = specSeq value n q t c := by
  intro n
  induction n with
  | zero =>
    intro j R q c hb hRt hc hcnt
    cases j with
    | zero => rfl
    | succ j =>
      rw [Nat.zero_add]
      show specSeq value (j + 1) q t c = []
      apply specSeq_none
      cases hl : Fide.leastAttacker q c t with
      | none => rfl
      | some s =>
        exfalso
        obtain ⟨hs, hst, hRs, hps⟩ := hb.least_facts hw ht hpt hRt c hc s hl
        have hocc : (occOf p R).getLsbD s = true := by
          rw [occOf_bit p R s hs, all_bit p hw s hs, hRs]; simpa using hps
        have := cnt_lt p t R s hs hst hocc
        omega
  | succ n ih =>
    intro j R q c hb hRt hc hcnt
    rw [show n + 1 + j = (n + j) + 1 by omega, specSeq, specSeq]
    cases hl : Fide.leastAttacker q c t with
    | none => rfl
    | some s =>
      simp only
      obtain ⟨hs, hst, hRs, hps⟩ := hb.least_facts hw ht hpt hRt c hc s hl
      have hocc : (occOf p R).getLsbD s = true := by
        rw [occOf_bit p R s hs, all_bit p hw s hs, hRs]; simpa using hps
      have hlt := cnt_lt p t R s hs hst hocc
      have hRt' : (R ||| bit s).getLsbD t = false := by
        rw [BitVec.getLsbD_or, hRt, getLsbD_bit s t hs]; simp [Ne.symm hst]
      rw [ih j (R ||| bit s) (capBoard q s t) (Fide.other c) (hb.cap hw ht s hs hst hRs hps) hRt' (other_lt c) (by omega)]

end Clemens.P18
