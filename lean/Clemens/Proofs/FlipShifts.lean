import Clemens.Proofs.Flip
/-
Lemma library for C15 (part 2): the one-step shifts, fills, leaper attack sets and pawn attack sets are
union-homomorphisms; their behaviour under the vertical flip is therefore a finite fact over the 64 squares.
-/
namespace Clemens

theorem IsHom.flipV : IsHom flipV := ⟨flipV_zero, flipV_or⟩

theorem IsHom.comp {f g : BB → BB} (hf : IsHom f) (hg : IsHom g) : IsHom (fun b => f (g b)) :=
  ⟨by rw [hg.zero, hf.zero], fun a b => by rw [hg.or, hf.or]⟩

theorem IsHom.id : IsHom (fun b => b) := ⟨rfl, fun _ _ => rfl⟩

theorem IsHom.shl {f : BB → BB} (hf : IsHom f) (n : Nat) : IsHom (fun b => f b <<< n) :=
  ⟨by rw [hf.zero]; simp, fun a b => by rw [hf.or]; exact BitVec.shiftLeft_or_distrib _ _ _⟩

theorem IsHom.shr {f : BB → BB} (hf : IsHom f) (n : Nat) : IsHom (fun b => f b >>> n) :=
  ⟨by rw [hf.zero]; simp, fun a b => by rw [hf.or]; exact BitVec.ushiftRight_or_distrib _ _ _⟩

theorem IsHom.andc {f : BB → BB} (hf : IsHom f) (m : BB) : IsHom (fun b => f b &&& m) :=
  ⟨by rw [hf.zero]; simp, fun a b => by rw [hf.or]; exact BitVec.and_or_distrib_right⟩

theorem IsHom.union {f g : BB → BB} (hf : IsHom f) (hg : IsHom g) : IsHom (fun b => f b ||| g b) :=
  ⟨by rw [hf.zero, hg.zero]; simp, fun a b => by
    rw [hf.or, hg.or]
    generalize f a = x, f b = y, g a = z, g b = w
    ac_rfl⟩

theorem hom_northOne : IsHom northOne := IsHom.id.shl 8
theorem hom_southOne : IsHom southOne := IsHom.id.shr 8
theorem hom_eastOne : IsHom eastOne := (IsHom.id.shl 1).andc notAFile
theorem hom_westOne : IsHom westOne := (IsHom.id.shr 1).andc notHFile
theorem hom_northEastOne : IsHom northEastOne := (IsHom.id.shl 9).andc notAFile
theorem hom_northWestOne : IsHom northWestOne := (IsHom.id.shl 7).andc notHFile
theorem hom_southEastOne : IsHom southEastOne := (IsHom.id.shr 7).andc notAFile
theorem hom_southWestOne : IsHom southWestOne := (IsHom.id.shr 9).andc notHFile

theorem IsHom.stepL {f : BB → BB} (hf : IsHom f) (k : Nat) : IsHom (fun b => f b ||| f b <<< k) := hf.union (hf.shl k)
theorem IsHom.stepR {f : BB → BB} (hf : IsHom f) (k : Nat) : IsHom (fun b => f b ||| f b >>> k) := hf.union (hf.shr k)

theorem hom_northFill : IsHom northFill := ((IsHom.id.stepL 8).stepL 16).stepL 32
theorem hom_southFill : IsHom southFill := ((IsHom.id.stepR 8).stepR 16).stepR 32
theorem hom_fileFill : IsHom fileFill := hom_northFill.union hom_southFill

theorem hom_knightAttacksSet : IsHom knightAttacksSet := by
  have we := hom_westOne.union hom_eastOne
  have we2 := (hom_westOne.comp hom_westOne).union (hom_eastOne.comp hom_eastOne)
  exact (((we.shl 16).union (we.shr 16)).union (hom_northOne.comp we2)).union (hom_southOne.comp we2)

theorem hom_kingAttacksSet : IsHom kingAttacksSet := by
  have att := hom_westOne.union hom_eastOne
  have kings := IsHom.id.union att
  exact (att.union (hom_northOne.comp kings)).union (hom_southOne.comp kings)

theorem pawnAttacksSet0_eq : pawnAttacksSet 0 = fun b => northEastOne b ||| northWestOne b := by
  funext b; simp [pawnAttacksSet]
theorem pawnAttacksSet1_eq : pawnAttacksSet 1 = fun b => southEastOne b ||| southWestOne b := by
  funext b; simp [pawnAttacksSet]

theorem hom_pawnAttacksSet0 : IsHom (pawnAttacksSet 0) := by
  rw [pawnAttacksSet0_eq]; exact hom_northEastOne.union hom_northWestOne
theorem hom_pawnAttacksSet1 : IsHom (pawnAttacksSet 1) := by
  rw [pawnAttacksSet1_eq]; exact hom_southEastOne.union hom_southWestOne

/-! ### the flip exchanges north and south -/

theorem flipV_northOne (b : BB) : flipV (northOne b) = southOne (flipV b) :=
  IsHom.ext (IsHom.flipV.comp hom_northOne) (hom_southOne.comp IsHom.flipV) (by decide +kernel) b
theorem flipV_southOne (b : BB) : flipV (southOne b) = northOne (flipV b) :=
  IsHom.ext (IsHom.flipV.comp hom_southOne) (hom_northOne.comp IsHom.flipV) (by decide +kernel) b
theorem flipV_eastOne (b : BB) : flipV (eastOne b) = eastOne (flipV b) :=
  IsHom.ext (IsHom.flipV.comp hom_eastOne) (hom_eastOne.comp IsHom.flipV) (by decide +kernel) b
theorem flipV_westOne (b : BB) : flipV (westOne b) = westOne (flipV b) :=
  IsHom.ext (IsHom.flipV.comp hom_westOne) (hom_westOne.comp IsHom.flipV) (by decide +kernel) b
theorem flipV_northEastOne (b : BB) : flipV (northEastOne b) = southEastOne (flipV b) :=
  IsHom.ext (IsHom.flipV.comp hom_northEastOne) (hom_southEastOne.comp IsHom.flipV) (by decide +kernel) b
theorem flipV_northWestOne (b : BB) : flipV (northWestOne b) = southWestOne (flipV b) :=
  IsHom.ext (IsHom.flipV.comp hom_northWestOne) (hom_southWestOne.comp IsHom.flipV) (by decide +kernel) b
theorem flipV_southEastOne (b : BB) : flipV (southEastOne b) = northEastOne (flipV b) :=
  IsHom.ext (IsHom.flipV.comp hom_southEastOne) (hom_northEastOne.comp IsHom.flipV) (by decide +kernel) b
theorem flipV_southWestOne (b : BB) : flipV (southWestOne b) = northWestOne (flipV b) :=
  IsHom.ext (IsHom.flipV.comp hom_southWestOne) (hom_northWestOne.comp IsHom.flipV) (by decide +kernel) b
theorem flipV_northFill (b : BB) : flipV (northFill b) = southFill (flipV b) :=
  IsHom.ext (IsHom.flipV.comp hom_northFill) (hom_southFill.comp IsHom.flipV) (by decide +kernel) b
theorem flipV_southFill (b : BB) : flipV (southFill b) = northFill (flipV b) :=
  IsHom.ext (IsHom.flipV.comp hom_southFill) (hom_northFill.comp IsHom.flipV) (by decide +kernel) b
theorem flipV_fileFill (b : BB) : flipV (fileFill b) = fileFill (flipV b) :=
  IsHom.ext (IsHom.flipV.comp hom_fileFill) (hom_fileFill.comp IsHom.flipV) (by decide +kernel) b
theorem flipV_knightAttacksSet (b : BB) : flipV (knightAttacksSet b) = knightAttacksSet (flipV b) :=
  IsHom.ext (IsHom.flipV.comp hom_knightAttacksSet) (hom_knightAttacksSet.comp IsHom.flipV) (by decide +kernel) b
theorem flipV_kingAttacksSet (b : BB) : flipV (kingAttacksSet b) = kingAttacksSet (flipV b) :=
  IsHom.ext (IsHom.flipV.comp hom_kingAttacksSet) (hom_kingAttacksSet.comp IsHom.flipV) (by decide +kernel) b
theorem flipV_pawnAttacksSet0 (b : BB) : flipV (pawnAttacksSet 0 b) = pawnAttacksSet 1 (flipV b) :=
  IsHom.ext (IsHom.flipV.comp hom_pawnAttacksSet0) (hom_pawnAttacksSet1.comp IsHom.flipV) (by decide +kernel) b
theorem flipV_pawnAttacksSet1 (b : BB) : flipV (pawnAttacksSet 1 b) = pawnAttacksSet 0 (flipV b) :=
  IsHom.ext (IsHom.flipV.comp hom_pawnAttacksSet1) (hom_pawnAttacksSet0.comp IsHom.flipV) (by decide +kernel) b

theorem flipV_rankMask4 : flipV rankMask4 = rankMask5 := by decide +kernel
theorem flipV_rankMask5 : flipV rankMask5 = rankMask4 := by decide +kernel
theorem flipV_rankMask : ∀ i < 6, flipV (rankMask2 <<< (8 * i)) = rankMask2 <<< (8 * (5 - i)) := by decide +kernel

end Clemens
