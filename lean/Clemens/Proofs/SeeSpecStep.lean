import Clemens.Proofs.SeeSpecKing
/-
C18b (b)+(c) — one step of the two loops side by side, and the induction: the model's `attackerValues` is the
specification's `specSeq` (same fuel).
-/
namespace Clemens.P18
open Clemens

/-- no king other than possibly the one making the first capture is attacked, in the original position, by an enemy
piece other than the one standing on the target.  (Follows from legality of the position and of the first capture.) -/
def KingSafe (p : Pos) (src0 t : Nat) : Prop :=
  ∀ c k S, c < 2 → k < 64 → S < 64 → p.at k = newPiece c KING → k ≠ src0 → S ≠ t → p.at S ≠ 0 →
    Fide.colorOf (p.at S) ≠ c → attT p.all (p.at S) k S = false

/-! ### one-step unfoldings of the specification's list -/

theorem specSeq_none (value : Nat → Int) (n : Nat) (q : Fide.Pos) (t c : Nat)
    (h : Fide.leastAttacker q c t = none) : specSeq value (n + 1) q t c = [] := by
  rw [specSeq, h]

theorem specSeq_stop (value : Nat → Int) (n : Nat) (q : Fide.Pos) (t c s' : Nat)
    (h : Fide.leastAttacker q c t = some s')
    (hc : (Fide.kindOf (q.at s') == 5 && Fide.attacked (capBoard q s' t) (Fide.other c) t) = true) :
    specSeq value (n + 1) q t c = [] := by
  rw [specSeq, h]
  simp only
  rw [if_pos hc]

theorem specSeq_cons (value : Nat → Int) (n : Nat) (q : Fide.Pos) (t c s' : Nat)
    (h : Fide.leastAttacker q c t = some s')
    (hc : (Fide.kindOf (q.at s') == 5 && Fide.attacked (capBoard q s' t) (Fide.other c) t) = false) :
    specSeq value (n + 1) q t c =
      value (Fide.kindOf (q.at s')) :: specSeq value n (capBoard q s' t) t (Fide.other c) := by
  rw [specSeq, h]
  simp only
  rw [if_neg (by rw [hc]; exact Bool.false_ne_true)]

/-! ### a king has captured: both loops stop -/

/-- invariant after a king's capture -/
structure KPre (p : Pos) (t : Nat) (st : SeeState) (q : Fide.Pos) (s : Nat) : Prop where
  s_lt : s < 64
  src_eq : st.src = bit s
  side_lt : st.side < 2
  type_eq : st.atype = 5
  piece_s : p.at s = newPiece st.side 5
  noatt : ∀ a, a < 64 → st.attacks.getLsbD a = true → (p.byColor (switchColor st.side)).getLsbD a = false
  spec_noatt : Fide.attacked q (Fide.other st.side) t = false

theorem pick_false : pick (fun _ _ => false) = none := by decide

theorem KPre.model_stop {p : Pos} {t : Nat} {st : SeeState} {q : Fide.Pos} {s : Nat} (h : KPre p t st q s)
    (hw : wfShape p = true) : seeNext p t (seeMaxXray p) st = none := by
  have hx : ((st.src &&& seeMaxXray p) != 0#64) = false := by
    rw [h.src_eq, bit_and_ne_zero s _ h.s_lt, seeMaxXray_bit p hw s h.s_lt, h.piece_s]
    exact mx_codes st.side h.side_lt 5 (by decide)
  have ha1 : att1 p t (seeMaxXray p) st = st.attacks ^^^ bit s := by
    unfold att1; rw [hx, h.src_eq]; rfl
  have hsw := switchColor_lt st.side
  have hbits : ∀ k, k < 6 → ∀ a, a < 64 →
      (att1 p t (seeMaxXray p) st &&& p.pieces (switchColor st.side) k).getLsbD a = (fun _ _ => false) k a := by
    intro k hk a ha
    rw [ha1, BitVec.getLsbD_and, BitVec.getLsbD_xor, getLsbD_bit s a h.s_lt,
      wfShape_bit p hw (switchColor st.side) k a hsw hk ha]
    by_cases e : a = s
    · subst e
      rw [h.piece_s]
      have : (newPiece st.side 5 == newPiece (switchColor st.side) k) = false := by
        rw [beq_eq_false_iff_ne]
        intro e'
        exact sw_ne st.side h.side_lt (newPiece_inj _ _ _ _ (by decide) hk e').1.symm
      rw [this]; simp
    · simp only [e, decide_false, Bool.xor_false]
      cases hatt : st.attacks.getLsbD a with
      | false => rfl
      | true =>
        have hn := h.noatt a ha hatt
        rw [byColor_bit p hw (switchColor st.side) a hsw ha] at hn
        cases hpc : (p.at a == newPiece (switchColor st.side) k) with
        | false => rfl
        | true =>
          rw [beq_iff_eq] at hpc
          unfold Fide.isOwn at hn
          rw [absPos_at_A, hpc, (newPiece_color _ hsw k hk).1] at hn
          have : (newPiece (switchColor st.side) k != 0) = true := by simpa using newPiece_ne_zero _ _
          rw [this] at hn
          simp at hn
  rw [seeNext_eq]
  simp only
  rw [leastValuable_pick p _ _ _ hbits, pick_false]
  simp

theorem KPre.spec_stop {p : Pos} {t : Nat} {st : SeeState} {q : Fide.Pos} {s : Nat} (h : KPre p t st q s)
    (value : Nat → Int) : ∀ n, specSeq value n q t (Fide.other st.side) = [] := by
  intro n
  cases n with
  | zero => rfl
  | succ n => exact specSeq_none value n q t _ (leastAttacker_none_of_not_attacked q _ t h.spec_noatt)

theorem KPre.values {p : Pos} {t : Nat} {st : SeeState} {q : Fide.Pos} {s : Nat} (h : KPre p t st q s)
    (hw : wfShape p = true) (n : Nat) :
    attackerValues p t (seeMaxXray p) n st = specSeq pieceValue n q t (Fide.other st.side) := by
  rw [h.spec_stop]
  cases n with
  | zero => rfl
  | succ n => rw [attackerValues, h.model_stop hw]


/-! ### a piece other than a king has captured: one step of both loops -/

/-- the state the model continues with when `s'` (of kind `k`) is the next capturer -/
def nextState (p : Pos) (t : Nat) (mx : BB) (st : SeeState) (s' k : Nat) : SeeState :=
  { gains := (pieceValue st.atype - st.gains.headD 0) :: st.gains,
    attacks := att1 p t mx st, occ := st.occ ^^^ st.src,
    already := st.already ||| st.src, src := bit s', atype := k, side := switchColor st.side }

theorem step (p : Pos) (hw : wfShape p = true) (t src0 : Nat) (ht : t < 64) (hpt : p.at t ≠ 0)
    (hks : KingSafe p src0 t) (st : SeeState) (R : BB) (s : Nat) (q : Fide.Pos)
    (hpre : Pre p t src0 st R s) (hnk : st.atype ≠ 5) (hb : Board p t (R ||| bit s) q) :
    (seeNext p t (seeMaxXray p) st = none ∧ ∀ n, specSeq pieceValue (n + 1) q t (Fide.other st.side) = []) ∨
    (∃ st' s', seeNext p t (seeMaxXray p) st = some st' ∧
      (∀ n, specSeq pieceValue (n + 1) q t (Fide.other st.side) =
        pieceValue st'.atype :: specSeq pieceValue n (capBoard q s' t) t (Fide.other st'.side)) ∧
      ((st'.atype ≠ 5 ∧ Pre p t src0 st' (R ||| bit s) s' ∧ Board p t (R ||| bit s ||| bit s') (capBoard q s' t)) ∨
        KPre p t st' (capBoard q s' t) s')) := by
  have hs := hpre.s_lt
  have hst := hpre.s_ne_t ht
  have hsw := switchColor_lt st.side
  have hso : switchColor st.side = Fide.other st.side := switchColor_eq_other st.side hpre.side_lt
  have hR1 : ∀ a, (R ||| bit s).getLsbD a = (R.getLsbD a || decide (a = s)) := by
    intro a; rw [BitVec.getLsbD_or, getLsbD_bit s a hs]
  have hR1t : (R ||| bit s).getLsbD t = false := by
    rw [hR1, hpre.t_notin]; simp [Ne.symm hst]
  have hbits : ∀ k, k < 6 → ∀ a, a < 64 →
      (att1 p t (seeMaxXray p) st &&& p.pieces (switchColor st.side) k).getLsbD a =
        selF p t (R ||| bit s) (switchColor st.side) k a := by
    intro k hk a ha
    rw [BitVec.getLsbD_and, hpre.att1_bits hw ht hnk a ha, wfShape_bit p hw _ k a hsw hk ha]
    rfl
  have hlv := leastValuable_pick p (att1 p t (seeMaxXray p) st) (switchColor st.side) _ hbits
  have hla : Fide.leastAttacker q (Fide.other st.side) t =
      (pick (selF p t (R ||| bit s) (switchColor st.side))).map (·.2) := by
    rw [← hso]; exact hb.leastAttacker hw ht hpt hR1t (switchColor st.side) hsw
  cases hp : pick (selF p t (R ||| bit s) (switchColor st.side)) with
  | none =>
    left
    refine ⟨?_, fun n => ?_⟩
    · rw [seeNext_eq]
      simp only
      rw [hlv, hp]
      simp
    · apply specSeq_none
      rw [hla, hp]; rfl
  | some ka =>
    obtain ⟨k, s'⟩ := ka
    obtain ⟨hk6, hs', hsel, _, _⟩ := pick_some hp
    unfold selF at hsel
    simp only [Bool.and_eq_true, Bool.not_eq_true', beq_iff_eq] at hsel
    obtain ⟨⟨hatt', hR1s'⟩, hpc'⟩ := hsel
    have hs't : s' ≠ t := by
      intro e; rw [e, attT_self _ _ _ ht] at hatt'; cases hatt'
    have hps' : p.at s' ≠ 0 := by rw [hpc']; exact newPiece_ne_zero _ _
    have hqs' : q.at s' = p.at s' := by rw [hb.off s' hs' hs't, hR1s']; simp
    have hkind : Fide.kindOf (q.at s') = k := by rw [hqs', hpc']; exact (newPiece_color _ hsw k hk6).2
    have hla' : Fide.leastAttacker q (Fide.other st.side) t = some s' := by rw [hla, hp]; rfl
    have hb' : Board p t (R ||| bit s ||| bit s') (capBoard q s' t) := hb.cap hw ht s' hs' hs't hR1s' hps'
    have hR2t : (R ||| bit s ||| bit s').getLsbD t = false := by
      rw [BitVec.getLsbD_or, hR1t, getLsbD_bit s' t hs']; simp [Ne.symm hs't]
    have hss' : s' ≠ s := by
      intro e; rw [e, hR1, hpre.s_notin] at hR1s'; simp at hR1s'
    -- the state the model continues with
    have hnext : seeNext p t (seeMaxXray p) st =
        if (k == KING && (att1 p t (seeMaxXray p) st &&& p.byColor (switchColor (switchColor st.side))) != 0#64) = true
        then none
        else some (nextState p t (seeMaxXray p) st s' k) := by
      rw [seeNext_eq]
      simp only
      rw [hlv, hp]
      simp only
      have : (bit s' == 0#64) = false := by
        rw [beq_eq_false_iff_ne]; exact bit_ne_zero s' hs'
      rw [this]
      simp only [Bool.false_eq_true, if_false]
      rfl
    rw [sw_sw st.side hpre.side_lt] at hnext
    -- the invariant for the next state when it is not a king
    have hpre' : ∀ st' : SeeState, st'.attacks = att1 p t (seeMaxXray p) st → st'.occ = st.occ ^^^ st.src →
        st'.already = st.already ||| st.src → st'.src = bit s' → st'.atype = k → st'.side = switchColor st.side →
        Pre p t src0 st' (R ||| bit s) s' := by
      intro st' e1 e2 e3 e4 e5 e6
      refine ⟨hs', e4, hR1s', hR1t, ?_, ?_, ?_, ?_, ?_, ?_, ?_, ?_, ?_⟩
      · intro a ha; rw [e2]; exact hpre.occ1 hw a ha
      · intro a ha; rw [e1]; exact hpre.att1_bits hw ht hnk a ha
      · intro a ha
        rw [e3, e4, BitVec.getLsbD_or, hpre.alr_eq a ha, getLsbD_bit s' a hs', hR1]
      · rw [e1, hpre.att1_bits hw ht hnk s' hs', hatt', hR1s']; rfl
      · rw [e6]; exact hsw
      · rw [e5]; exact hk6
      · rw [e5, e6]; exact hpc'
      · intro r hr hRr
        rw [hR1, Bool.or_eq_true, decide_eq_true_eq] at hRr
        apply attT_mono (occOf p R) _ _ _ _ (occOf_sub p R s hs)
        rcases hRr with hRr | rfl
        · exact hpre.hist r hr hRr
        · exact hpre.att_at_s
      · rw [BitVec.getLsbD_or, hpre.src0_in]; rfl
    by_cases hk5 : k = 5
    · -- a king is the next capturer
      subst hk5
      have hkstep : Geo.kingStep t s' = true := by
        apply attT_king _ (p.at s') t s' _ hatt'
        rw [hpc']
        have : switchColor st.side = 0 ∨ switchColor st.side = 1 := by omega
        rcases this with e | e <;> rw [e] <;> decide
      have hsc_iff := hb'.attacked_iff hw ht hpt hR2t (Fide.other (Fide.other st.side))
      have hoo : Fide.other (Fide.other st.side) = st.side := by
        have := hpre.side_lt
        have : st.side = 0 ∨ st.side = 1 := by omega
        rcases this with e | e <;> rw [e] <;> rfl
      rw [hoo] at hsc_iff
      by_cases hmc : ((att1 p t (seeMaxXray p) st &&& p.byColor st.side) != 0#64) = true
      · -- the model sees an enemy attacker: so does the specification
        left
        refine ⟨?_, fun n => ?_⟩
        · rw [hnext, hmc]; rfl
        · apply specSeq_stop _ _ _ _ _ s' hla'
          rw [hkind, hoo]
          simp only [beq_self_eq_true, Bool.true_and]
          rw [hsc_iff]
          rw [bne_zero_iff] at hmc
          obtain ⟨a, ha, hbit⟩ := hmc
          rw [BitVec.getLsbD_and, Bool.and_eq_true, hpre.att1_bits hw ht hnk a ha, Bool.and_eq_true,
            byColor_bit p hw st.side a hpre.side_lt ha] at hbit
          obtain ⟨⟨hatta, hRa⟩, hown⟩ := hbit
          unfold Fide.isOwn at hown
          rw [absPos_at_A, Bool.and_eq_true, bne_iff_ne, beq_iff_eq] at hown
          have hat : a ≠ t := by
            intro e; rw [e, attT_self _ _ _ ht] at hatta; cases hatta
          have has' : a ≠ s' := by
            intro e
            rw [e, hpc', (newPiece_color _ hsw 5 (by decide)).1] at hown
            exact sw_ne st.side hpre.side_lt hown.2
          refine ⟨a, ha, hat, ?_, hown.1, hown.2, ?_⟩
          · rw [BitVec.getLsbD_or, getLsbD_bit s' a hs']
            simp only [Bool.not_eq_true'] at hRa
            rw [hRa]; simp [has']
          · exact attT_mono _ _ _ _ _ (occOf_sub p _ s' hs') hatta
      · -- the model sees none: neither does the specification (legality)
        have hmc' : ((att1 p t (seeMaxXray p) st &&& p.byColor st.side) != 0#64) = false := by
          simpa using hmc
        have hsc : Fide.attacked (capBoard q s' t) st.side t = false := by
          cases hsc : Fide.attacked (capBoard q s' t) st.side t with
          | false => rfl
          | true =>
            exfalso
            obtain ⟨S, hS, hSt, hRS, hpS, hcS, hattS⟩ := hsc_iff.1 hsc
            have hRS1 : (R ||| bit s).getLsbD S = false := by
              rw [BitVec.getLsbD_or, Bool.or_eq_false_iff] at hRS; exact hRS.1
            -- not an attacker before the king moved
            have h1 : attT (occOf p (R ||| bit s)) (p.at S) t S = false := by
              cases h1 : attT (occOf p (R ||| bit s)) (p.at S) t S with
              | false => rfl
              | true =>
                exfalso
                have : ((att1 p t (seeMaxXray p) st &&& p.byColor st.side) != 0#64) = true := by
                  rw [bne_zero_iff]
                  refine ⟨S, hS, ?_⟩
                  rw [BitVec.getLsbD_and, hpre.att1_bits hw ht hnk S hS, h1, hRS1,
                    byColor_bit p hw st.side S hpre.side_lt hS]
                  unfold Fide.isOwn
                  rw [absPos_at_A, hcS]
                  simpa using hpS
                rw [this] at hmc'; cases hmc'
            have hx := king_xray p hw t s' S (R ||| bit s) ht hs' hkstep
              (by rw [all_bit p hw s' hs']; simpa using hps') hR1s'
              (by
                intro r hr hRr
                rw [hR1, Bool.or_eq_true, decide_eq_true_eq] at hRr
                apply attT_mono (occOf p R) _ _ _ _ (occOf_sub p R s hs)
                rcases hRr with hRr | rfl
                · exact hpre.hist r hr hRr
                · exact hpre.att_at_s)
              h1 hattS
            have hs'src0 : s' ≠ src0 := by
              intro e; rw [e, hpre.src0_in] at hR1s'; cases hR1s'
            have := hks (switchColor st.side) s' S hsw hs' hS hpc' hs'src0 hSt hpS
              (by rw [hcS]; exact (sw_ne st.side hpre.side_lt).symm)
            rw [this] at hx; cases hx
        right
        refine ⟨nextState p t (seeMaxXray p) st s' 5, s', ?_, fun n => ?_, Or.inr ?_⟩
        · rw [hnext, hmc']; rfl
        · rw [specSeq_cons _ _ _ _ _ s' hla' (by rw [hkind, hoo, hsc]; rfl), hkind]
          show _ = pieceValue 5 :: specSeq pieceValue n _ t (Fide.other (switchColor st.side))
          rw [hso]
        · refine ⟨hs', rfl, hsw, rfl, hpc', ?_, ?_⟩
          · intro a ha hatta
            have hatta : (att1 p t (seeMaxXray p) st).getLsbD a = true := hatta
            show (p.byColor (switchColor (switchColor st.side))).getLsbD a = false
            rw [sw_sw st.side hpre.side_lt]
            cases hbc : (p.byColor st.side).getLsbD a with
            | false => rfl
            | true =>
              exfalso
              have : ((att1 p t (seeMaxXray p) st &&& p.byColor st.side) != 0#64) = true := by
                rw [bne_zero_iff]
                exact ⟨a, ha, by rw [BitVec.getLsbD_and, hbc]; simpa using hatta⟩
              rw [this] at hmc'; cases hmc'
          · show Fide.attacked (capBoard q s' t) (Fide.other (switchColor st.side)) t = false
            rw [hso, hoo]; exact hsc
    · -- any other piece
      right
      have hkk : (k == KING) = false := by
        rw [beq_eq_false_iff_ne]; exact hk5
      refine ⟨nextState p t (seeMaxXray p) st s' k, s', ?_, fun n => ?_,
        Or.inl ⟨hk5, hpre' _ rfl rfl rfl rfl rfl rfl, hb'⟩⟩
      · rw [hnext, hkk]; rfl
      · rw [specSeq_cons _ _ _ _ _ s' hla' (by rw [hkind]; simp [hk5]), hkind]
        show _ = pieceValue k :: specSeq pieceValue n _ t (Fide.other (switchColor st.side))
        rw [hso]

/-- (b)+(c) the attacker values the model's loop finds are the specification's, for every fuel -/
theorem sim (p : Pos) (hw : wfShape p = true) (t src0 : Nat) (ht : t < 64) (hpt : p.at t ≠ 0)
    (hks : KingSafe p src0 t) :
    ∀ (n : Nat) (st : SeeState) (R : BB) (s : Nat) (q : Fide.Pos),
      Pre p t src0 st R s → st.atype ≠ 5 → Board p t (R ||| bit s) q →
      attackerValues p t (seeMaxXray p) n st = specSeq pieceValue n q t (Fide.other st.side) := by
  intro n
  induction n with
  | zero => intros; rfl
  | succ n ih =>
    intro st R s q hpre hnk hb
    rcases step p hw t src0 ht hpt hks st R s q hpre hnk hb with ⟨h1, h2⟩ | ⟨st', s', h1, h2, h3⟩
    · rw [attackerValues, h1, h2]
    · rw [attackerValues, h1, h2]
      simp only
      congr 1
      rcases h3 with ⟨hnk', hpre', hb'⟩ | hk
      · exact ih st' _ s' _ hpre' hnk' hb'
      · exact hk.values hw n

end Clemens.P18
