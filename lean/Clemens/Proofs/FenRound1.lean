import Clemens.Proofs.FenTotal
import Clemens.Proofs.AtoiRender
import Clemens.Proofs.MoveText
import Clemens.Proofs.BoardViews
/-
Lemmas for C11 (FEN round trip), part 1: decimal rendering, ASCII strings and runes, `strings.Split`,
the castling / en-passant fields, and the single steps of the placement parser.
-/
namespace Clemens.P17
open Clemens

/-! ### decimal numbers -/

theorem natToDec_eq (n : Nat) : natToDec n = (Nat.toDigits 10 n).map Char.toNat := by
  unfold natToDec
  show (Nat.repr n).toList.map Char.toNat = _
  rw [Nat.repr_eq_ofList_toDigits]
  simp

theorem atoi_natToDec (n : Nat) (hn : n < 2^63) : atoi (natToDec n) = some (n : Int) := by
  obtain ⟨h1, h2, h3⟩ := digitBytes_facts n
  rw [natToDec_eq, atoi_digits _ h1 h2, h3]
  have : n ≤ 9223372036854775807 := by omega
  simp [this]

theorem natToDec_small : ∀ e, e < 10 → natToDec e = [48 + e] := by decide

theorem isDigit_small : ∀ e, e < 10 → isDigitRune (48 + e) = true ∧ runeMinusZeroU8 (48 + e) = e := by decide

theorem piece_char_facts : ∀ pc, pc < 16 → validPiece pc = true →
    ∃ ch, pieceToChar pc = some ch ∧ ch < 128 ∧ ch ≠ 32 ∧ ch ≠ 47 ∧ isDigitRune ch = false ∧ pieceFromChar ch = some pc := by
  decide

/-! ### ASCII strings, `strings.Split` -/

theorem runesAux_ascii (s : Bytes) (h : ∀ b ∈ s, b < 128) (fuel off : Nat) (hf : s.length ≤ fuel) :
    (runesAux fuel off s).map (·.2) = s := by
  induction s generalizing fuel off with
  | nil => cases fuel <;> simp [runesAux]
  | cons b bs ih =>
    cases fuel with
    | zero => simp at hf
    | succ n =>
      have hb : b < 128 := h b (by simp)
      have hd : decodeRune (b :: bs) = (b, 1) := by
        simp [decodeRune, hb]
      simp only [runesAux, hd, List.map_cons, List.drop_one, List.tail_cons]
      rw [ih (fun x hx => h x (by simp [hx])) n (off + 1) (by simpa using hf)]

theorem runes_ascii (s : Bytes) (h : ∀ b ∈ s, b < 128) : runes s = s := by
  unfold runes runesWithOffsets
  exact runesAux_ascii s h _ _ (Nat.le_refl _)

theorem runesWithOffsets_two (a b : Nat) (ha : a < 128) (hb : b < 128) :
    runesWithOffsets [a, b] = [(0, a), (1, b)] := by
  simp [runesWithOffsets, runesAux, decodeRune, ha, hb]

theorem splitBytes_nosep (a : Bytes) (h : 32 ∉ a) : splitBytes 32 a = [a] := by
  induction a with
  | nil => simp [splitBytes]
  | cons x xs ih =>
    have hx : x ≠ 32 := fun e => h (by simp [e])
    have := ih (fun e => h (by simp [e]))
    simp [splitBytes, this, hx]

theorem splitBytes_append (a rest : Bytes) (h : 32 ∉ a) :
    splitBytes 32 (a ++ 32 :: rest) = a :: splitBytes 32 rest := by
  induction a with
  | nil =>
    simp only [List.nil_append, splitBytes]
    split
    · rename_i h; exact absurd h (splitBytes_ne_nil _ _)
    · rename_i h; simp [h]
  | cons x xs ih =>
    have hx : x ≠ 32 := fun e => h (by simp [e])
    have := ih (fun e => h (by simp [e]))
    simp [splitBytes, this, hx]

/-! ### castling and en passant fields -/

/-- the castling field `ToFen` prints -/
def castlingText (c : Nat) : Bytes :=
  if c &&& 15 == 0 then [45]
  else (if c &&& 1 != 0 then [75] else []) ++ (if c &&& 2 != 0 then [81] else []) ++
       (if c &&& 4 != 0 then [107] else []) ++ (if c &&& 8 != 0 then [113] else [])

def epText (e : Nat) : Bytes := if e = 64 then [45] else squareToString e

theorem castlingText_facts : ∀ c, c < 16 → 32 ∉ castlingText c ∧ ∀ b ∈ castlingText c, b < 128 := by decide

theorem runes_castlingText : ∀ c, c < 16 → runes (castlingText c) = castlingText c := by decide

theorem fenSetCastling_print (c : Nat) (hc : c < 16) (q : Pos) :
    fenSetCastling (castlingText c) q = .ok { q with castling := c } := by
  have hr := runes_castlingText c hc
  unfold fenSetCastling
  rw [hr]
  have : c = 0 ∨ c = 1 ∨ c = 2 ∨ c = 3 ∨ c = 4 ∨ c = 5 ∨ c = 6 ∨ c = 7 ∨ c = 8 ∨ c = 9 ∨ c = 10 ∨ c = 11 ∨
      c = 12 ∨ c = 13 ∨ c = 14 ∨ c = 15 := by omega
  rcases this with rfl | rfl | rfl | rfl | rfl | rfl | rfl | rfl | rfl | rfl | rfl | rfl | rfl | rfl | rfl | rfl <;>
    (simp [castlingText, List.foldlM, bind, Res.bind] <;> rfl)

theorem epText_facts : ∀ e, e ≤ 64 → 32 ∉ epText e ∧ (e ≠ 64 → epText e ≠ [45]) := by decide

theorem fenSetEnPassant_print (e : Nat) (he : e ≤ 64) (q : Pos) :
    fenSetEnPassant (epText e) q = .ok { q with ep := e } := by
  unfold fenSetEnPassant
  by_cases h : e = 64
  · subst h; simp [epText]
  · have h2 := (epText_facts e he).2 h
    rw [if_neg h2]
    have : epText e = squareToString e := by simp [epText, h]
    rw [this, squareFromString_squareToString e (by omega)]
    rfl

/-! ### single steps of `fenSetPieces` -/
/-- the pending run of empty squares, as `ToFen` prints it -/
def flush (e : Nat) : Bytes := if e > 0 then natToDec e else []

theorem flush_acc (acc : Bytes) (e : Nat) : (if e > 0 then acc ++ natToDec e else acc) = acc ++ flush e := by
  unfold flush; split <;> simp

theorem flush_ascii (e : Nat) (he : e ≤ 8) : ∀ b ∈ flush e, b < 128 ∧ b ≠ 32 := by
  unfold flush
  split
  · rw [natToDec_small e (by omega)]; intro b hb; simp at hb; omega
  · simp

theorem go_flush (K : Keys) (e : Nat) (he : e ≤ 8) (rs : List Nat) (sq : Nat) (hsq : sq + e < 256) (q : Pos) :
    fenSetPieces.go K (flush e ++ rs) sq q = fenSetPieces.go K rs (sq + e) q := by
  unfold flush
  split
  · rw [natToDec_small e (by omega)]
    obtain ⟨h1, h2⟩ := isDigit_small e (by omega)
    simp only [List.cons_append, List.nil_append]
    rw [fenSetPieces.go]
    simp only [h1, if_true, h2]
    rw [Nat.mod_eq_of_lt hsq]
  · have : e = 0 := by omega
    subst this; simp

theorem go_slash (K : Keys) (rs : List Nat) (sq : Nat) (q : Pos) :
    fenSetPieces.go K (47 :: rs) sq q = fenSetPieces.go K rs ((sq + 256 - 16) % 256) q := by
  rw [fenSetPieces.go]
  have : isDigitRune 47 = false := by decide
  simp [this]

theorem go_piece (K : Keys) (pc ch : Nat) (hv : validPiece pc = true) (hch : pieceToChar pc = some ch)
    (sq : Nat) (hsq : sq < 64) (q : Pos) :
    ∃ q', setPiece K q pc sq = some q' ∧
      ∀ rs, fenSetPieces.go K (ch :: rs) sq q = fenSetPieces.go K rs (sq + 1) q' := by
  obtain ⟨ch', h1, _, _, h47, hd, hf⟩ := piece_char_facts pc (validPiece_lt_B hv) hv
  rw [hch] at h1; cases h1
  cases hq : setPiece K q pc sq with
  | none => exact absurd hq (setPiece_isSome K q pc sq hsq hv)
  | some q' =>
    refine ⟨q', rfl, fun rs => ?_⟩
    rw [fenSetPieces.go]
    simp only [hd, Bool.false_eq_true, if_false, h47, hf, hq]
    rw [if_neg (by omega), Nat.mod_eq_of_lt (by omega)]

end Clemens.P17
