import Clemens.Proofs.SeeSpecFin
/-
C18b — geometry seen from the target square: monotonicity of open lines in the occupancy, uniqueness of the line
through two squares, leapers never stand two or more steps away on a line, what changes when one square is vacated.
-/
namespace Clemens.P18
open Clemens

/-! ### open lines only grow when pieces leave -/

theorem reachAlong_mono (d : Dir) (occ occ' : BB) (t a : Nat)
    (hsub : ∀ u, u < 64 → occ'.getLsbD u = true → occ.getLsbD u = true)
    (h : Geo.reachAlong d occ t a = true) : Geo.reachAlong d occ' t a = true := by
  rw [reachAlong_iff] at *
  obtain ⟨j, hj, h1, h2⟩ := h
  refine ⟨j, hj, h1, fun i hi => ?_⟩
  obtain ⟨u, hu, ho⟩ := h2 i hi
  refine ⟨u, hu, ?_⟩
  cases hb : occ'.getLsbD u with
  | false => rfl
  | true => rw [hsub u (step_lt _ _ _ _ hu) hb] at ho; cases ho

theorem reach_mono (dirs : List Dir) (occ occ' : BB) (t a : Nat)
    (hsub : ∀ u, u < 64 → occ'.getLsbD u = true → occ.getLsbD u = true)
    (h : Geo.reach dirs occ t a = true) : Geo.reach dirs occ' t a = true := by
  unfold Geo.reach at *
  rw [List.any_eq_true] at *
  obtain ⟨d, hd, h⟩ := h
  exact ⟨d, hd, reachAlong_mono d occ occ' t a hsub h⟩

/-- the occupancy matters only on the squares strictly between -/
theorem reachAlong_congr (d : Dir) (occ occ' : BB) (t a : Nat)
    (hsame : ∀ i j u, i < j → Geo.step d (j + 1) t = some a → Geo.step d (i + 1) t = some u →
      occ'.getLsbD u = occ.getLsbD u) :
    Geo.reachAlong d occ t a = Geo.reachAlong d occ' t a := by
  apply Bool.eq_iff_iff.mpr
  rw [reachAlong_iff, reachAlong_iff]
  constructor
  · rintro ⟨j, hj, h1, h2⟩
    refine ⟨j, hj, h1, fun i hi => ?_⟩
    obtain ⟨u, hu, ho⟩ := h2 i hi
    exact ⟨u, hu, by rw [hsame i j u hi h1 hu]; exact ho⟩
  · rintro ⟨j, hj, h1, h2⟩
    refine ⟨j, hj, h1, fun i hi => ?_⟩
    obtain ⟨u, hu, ho⟩ := h2 i hi
    exact ⟨u, hu, by rw [← hsame i j u hi h1 hu]; exact ho⟩

/-! ### steps -/

theorem step_dir_eq (d d' : Dir) (i j t x : Nat)
    (h1 : Geo.step d (i + 1) t = some x) (h2 : Geo.step d' (j + 1) t = some x) : d = d' := by
  rw [step_eq_some] at h1 h2
  cases d <;> cases d' <;> simp only [Dir.df, Dir.dr, Geo.onB] at h1 h2 <;> first | rfl | (exfalso; omega)

theorem step_idx_eq (d : Dir) (i j t x : Nat)
    (h1 : Geo.step d (i + 1) t = some x) (h2 : Geo.step d (j + 1) t = some x) : i = j := by
  rw [step_eq_some] at h1 h2
  cases d <;> simp only [Dir.df, Dir.dr, Geo.onB] at h1 h2 <;> omega

theorem step_ne_self (d : Dir) (i t : Nat) : Geo.step d (i + 1) t ≠ some t := by
  intro h
  rw [step_eq_some] at h
  cases d <;> simp only [Dir.df, Dir.dr, Geo.onB] at h <;> omega

/-- `a + b` steps split -/
theorem step_split (d : Dir) (a b s t u : Nat)
    (h1 : Geo.step d (a + b) s = some t) (h2 : Geo.step d a s = some u) : Geo.step d b u = some t := by
  rw [step_eq_some] at *
  cases d <;> simp only [Dir.df, Dir.dr, Geo.onB] at * <;> omega

theorem step_idx_lt (d : Dir) (n t x : Nat) (ht : t < 64) (h : Geo.step d n t = some x) : n < 8 := by
  rw [step_eq_some] at h
  cases d <;> simp only [Dir.df, Dir.dr, Geo.onB] at h <;> omega

/-! ### leapers and pawns are not two or more steps away on a line; knights are on no line at all -/

theorem dir_mem_all (d : Dir) : d ∈ Dir.all := by cases d <;> simp [Dir.all]

theorem far_not_leaper (d : Dir) (t i k : Nat) (ht : t < 64) (h : Geo.step d (i + 2) t = some k) :
    Geo.kingStep t k = false ∧ Geo.knightStep t k = false ∧ Geo.pawnAttack 0 t k = false ∧
      Geo.pawnAttack 1 t k = false := by
  have hi : i < 7 := by have := step_idx_lt d _ t k ht h; omega
  have := far_not_leaper_all d (dir_mem_all d) t ht i hi
  rw [h] at this
  simpa [and_assoc] using this

theorem line_not_knight (d : Dir) (t i k : Nat) (ht : t < 64) (h : Geo.step d (i + 1) t = some k) :
    Geo.knightStep t k = false := by
  have hi : i < 8 := by have := step_idx_lt d _ t k ht h; omega
  have := line_not_knight_all d (dir_mem_all d) t ht i hi
  rw [h] at this
  simpa using this

theorem reachAlong_self (d : Dir) (occ : BB) (t : Nat) : Geo.reachAlong d occ t t = false := by
  cases h : Geo.reachAlong d occ t t with
  | false => rfl
  | true =>
    rw [reachAlong_iff] at h
    obtain ⟨j, _, h1, _⟩ := h
    exact absurd h1 (step_ne_self d j t)

theorem reach_self (dirs : List Dir) (occ : BB) (t : Nat) : Geo.reach dirs occ t t = false := by
  unfold Geo.reach
  rw [List.any_eq_false]
  intro d _
  rw [reachAlong_self]; simp

/-! ### vacating a square that is on no line from `t` changes nothing -/

theorem reachAlong_vacate_offline (d : Dir) (occ occ' : BB) (t a s : Nat)
    (hoff : ∀ d i, Geo.step d (i + 1) t ≠ some s)
    (hsame : ∀ u, u < 64 → u ≠ s → occ'.getLsbD u = occ.getLsbD u) :
    Geo.reachAlong d occ t a = Geo.reachAlong d occ' t a := by
  apply reachAlong_congr
  intro i j u _ _ hu
  apply hsame u (step_lt _ _ _ _ hu)
  intro e
  subst e
  exact hoff d i hu

theorem reach_vacate_offline (dirs : List Dir) (occ occ' : BB) (t a s : Nat)
    (hoff : ∀ d i, Geo.step d (i + 1) t ≠ some s)
    (hsame : ∀ u, u < 64 → u ≠ s → occ'.getLsbD u = occ.getLsbD u) :
    Geo.reach dirs occ t a = Geo.reach dirs occ' t a := by
  unfold Geo.reach
  apply any_congr'
  intro d _
  exact reachAlong_vacate_offline d occ occ' t a s hoff hsame

theorem knight_offline (t s : Nat) (ht : t < 64) (hk : Geo.knightStep t s = true) :
    ∀ d i, Geo.step d (i + 1) t ≠ some s := by
  intro d i h
  rw [line_not_knight d t i s ht h] at hk
  cases hk

/-! ### the king in front: a line that opens when the king (one step from `t`) leaves -/

/-- if the line `t → S` along `d` is open once `k` is vacated but not before, and `k` is a king's step from `t`,
then `k` is the first square of the line and the rest of the line, seen from `k`, is open (in the old occupancy) -/
theorem reachAlong_opened (d : Dir) (occ occ' : BB) (t k S : Nat) (ht : t < 64)
    (hking : Geo.kingStep t k = true)
    (hsame : ∀ u, u < 64 → u ≠ k → occ'.getLsbD u = occ.getLsbD u)
    (h' : Geo.reachAlong d occ' t S = true) (h : Geo.reachAlong d occ t S = false) :
    Geo.step d 1 t = some k ∧ Geo.reachAlong d occ k S = true ∧ ∃ n, Geo.step d (n + 2) t = some S := by
  rw [reachAlong_iff] at h'
  obtain ⟨j, hj, h1, h2⟩ := h'
  -- some intermediate square is occupied in `occ`
  have hex : ∃ i, i < j ∧ Geo.step d (i + 1) t = some k := by
    apply Classical.byContradiction
    intro hne
    have : Geo.reachAlong d occ t S = true := by
      rw [reachAlong_iff]
      refine ⟨j, hj, h1, fun i hi => ?_⟩
      obtain ⟨u, hu, ho⟩ := h2 i hi
      refine ⟨u, hu, ?_⟩
      have huk : u ≠ k := by
        intro e; subst e; exact hne ⟨i, hi, hu⟩
      rw [← hsame u (step_lt _ _ _ _ hu) huk]; exact ho
    rw [this] at h; cases h
  obtain ⟨i, hi, hik⟩ := hex
  have hi0 : i = 0 := by
    cases i with
    | zero => rfl
    | succ i' =>
      have := (far_not_leaper d t i' k ht hik).1
      rw [this] at hking; cases hking
  subst hi0
  refine ⟨hik, ?_, ⟨j - 1, by rw [show j - 1 + 2 = j + 1 by omega]; exact h1⟩⟩
  rw [reachAlong_iff]
  refine ⟨j - 1, by omega, ?_, fun i hi' => ?_⟩
  · have e : j + 1 = 1 + (j - 1 + 1) := by omega
    rw [e] at h1
    exact step_split d 1 _ t S k h1 hik
  · obtain ⟨u, hu, ho⟩ := h2 (i + 1) (by omega)
    refine ⟨u, ?_, ?_⟩
    · have e : i + 1 + 1 = 1 + (i + 1) := by omega
      rw [e] at hu
      exact step_split d 1 _ t u k hu hik
    · have huk : u ≠ k := by
        intro e; subst e
        have := step_idx_eq d (i + 1) 0 t u hu hik
        omega
      rw [← hsame u (step_lt _ _ _ _ hu) huk]; exact ho

/-- a square on the line `t → …` two or more steps away, strictly behind `k = t + d`: as seen from `k` -/
theorem step_from_first (d : Dir) (t k u i : Nat) (hk : Geo.step d 1 t = some k)
    (hu : Geo.step d (i + 1) k = some u) : Geo.step d (i + 2) t = some u := by
  rw [step_eq_some] at *
  cases d <;> simp only [Dir.df, Dir.dr, Geo.onB] at * <;> omega

end Clemens.P18
