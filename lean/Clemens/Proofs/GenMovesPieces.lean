import Clemens.Proofs.GenMovesBasic
import Clemens.Props.C12b
/-
C01a lemmas: `genHelper` (rook, bishop, queen, knight, king) against the specification's
`sliderMoves` / `leaperMoves`.
-/
namespace Clemens
namespace GM

/-- membership in the spec's ray -/
theorem mem_rayGo (P : Fide.Pos) (d : Dir) (s t : Nat) : ∀ (fuel k : Nat),
    t ∈ Fide.rayFrom.go P d s fuel k ↔
      ∃ j < fuel, Geo.step d (k + j) s = some t ∧ ∀ i < j, ∃ u, Geo.step d (k + i) s = some u ∧ P.at u = 0 := by
  intro fuel
  induction fuel with
  | zero => intro k; simp [Fide.rayFrom.go]
  | succ n ih =>
    intro k
    unfold Fide.rayFrom.go
    cases hk : Geo.step d k s with
    | none =>
      simp only [List.not_mem_nil, false_iff]
      rintro ⟨j, hj, h1, h2⟩
      cases j with
      | zero => rw [Nat.add_zero, hk] at h1; cases h1
      | succ j =>
        obtain ⟨u, hu, _⟩ := h2 0 (by omega)
        rw [Nat.add_zero, hk] at hu; cases hu
    | some v =>
      simp only []
      by_cases hv : P.at v = 0
      · simp only [hv, bne_self_eq_false, Bool.false_eq_true, if_false, List.mem_cons]
        rw [ih (k + 1)]
        constructor
        · rintro (rfl | ⟨j, hj, h1, h2⟩)
          · exact ⟨0, by omega, by rw [Nat.add_zero]; exact hk, by intro i hi; omega⟩
          · refine ⟨j + 1, by omega, by rw [← h1]; congr 1; omega, ?_⟩
            intro i hi
            cases i with
            | zero => exact ⟨v, by rw [Nat.add_zero]; exact hk, hv⟩
            | succ i =>
              obtain ⟨u, hu, hu0⟩ := h2 i (by omega)
              exact ⟨u, by rw [← hu]; congr 1; omega, hu0⟩
        · rintro ⟨j, hj, h1, h2⟩
          cases j with
          | zero => left; rw [Nat.add_zero, hk] at h1; injection h1 with h1; exact h1.symm
          | succ j =>
            right
            refine ⟨j, by omega, by rw [← h1]; congr 1; omega, ?_⟩
            intro i hi
            obtain ⟨u, hu, hu0⟩ := h2 (i + 1) (by omega)
            exact ⟨u, by rw [← hu]; congr 1; omega, hu0⟩
      · have hv' : (P.at v != 0) = true := by simpa using hv
        simp only [hv', if_true, List.mem_singleton]
        constructor
        · rintro rfl
          exact ⟨0, by omega, by rw [Nat.add_zero]; exact hk, by intro i hi; omega⟩
        · rintro ⟨j, hj, h1, h2⟩
          cases j with
          | zero => rw [Nat.add_zero, hk] at h1; injection h1 with h1; exact h1.symm
          | succ j =>
            obtain ⟨u, hu, hu0⟩ := h2 0 (by omega)
            rw [Nat.add_zero, hk] at hu; injection hu with hu
            subst hu; exact absurd hu0 hv

theorem reachAlong_iff (d : Dir) (occ : BB) (s t : Nat) :
    Geo.reachAlong d occ s t = true ↔
      ∃ j < 7, Geo.step d (1 + j) s = some t ∧ ∀ i < j, ∃ u, Geo.step d (1 + i) s = some u ∧ occ.getLsbD u = false := by
  unfold Geo.reachAlong
  simp only [List.any_eq_true, List.mem_range, Bool.and_eq_true, beq_iff_eq, List.all_eq_true, BB.has]
  constructor
  · rintro ⟨j, hj, h1, h2⟩
    refine ⟨j, hj, by rw [Nat.add_comm]; exact h1, ?_⟩
    intro i hi
    have := h2 i hi
    rw [Nat.add_comm]
    cases hu : Geo.step d (i + 1) s with
    | none => rw [hu] at this; cases this
    | some u => rw [hu] at this; exact ⟨u, rfl, by simpa using this⟩
  · rintro ⟨j, hj, h1, h2⟩
    refine ⟨j, hj, by rw [Nat.add_comm]; exact h1, ?_⟩
    intro i hi
    obtain ⟨u, hu, hu0⟩ := h2 i hi
    rw [Nat.add_comm] at hu
    rw [hu]; simp [hu0]

theorem mem_rayFrom (P : Fide.Pos) (occ : BB) (hocc : ∀ u, occ.getLsbD u = (P.at u != 0)) (d : Dir) (s t : Nat) :
    t ∈ Fide.rayFrom P d s ↔ Geo.reachAlong d occ s t = true := by
  unfold Fide.rayFrom
  rw [mem_rayGo, reachAlong_iff]
  simp only [hocc, bne_eq_false_iff_eq]

theorem reach_iff (dirs : List Dir) (occ : BB) (s t : Nat) :
    Geo.reach dirs occ s t = true ↔ ∃ d ∈ dirs, Geo.reachAlong d occ s t = true := by
  unfold Geo.reach
  simp only [List.any_eq_true]

/-! ### `genHelper` -/

theorem mem_genHelper (src dest : BB) (att : Nat → BB) (m : Move) :
    m ∈ genHelper src dest att ↔
      ∃ s t, src.getLsbD s = true ∧ (att s).getLsbD t = true ∧ dest.getLsbD t = true ∧ m = Move.mk s t 0 := by
  unfold genHelper
  simp only [List.mem_flatMap, List.mem_map, mem_squares_iff, BitVec.getLsbD_and, Bool.and_eq_true]
  constructor
  · rintro ⟨s, hs, t, ⟨h1, h2⟩, rfl⟩; exact ⟨s, t, hs, h1, h2, rfl⟩
  · rintro ⟨s, t, hs, h1, h2, rfl⟩; exact ⟨s, hs, t, ⟨h1, h2⟩, rfl⟩

theorem mem_genHelper_abs (src dest : BB) (att : Nat → BB) (mv : Fide.Move) :
    mv ∈ (genHelper src dest att).map absMove ↔
      ∃ s t, src.getLsbD s = true ∧ (att s).getLsbD t = true ∧ dest.getLsbD t = true ∧ mv = ⟨s, t, none⟩ := by
  simp only [List.mem_map, mem_genHelper]
  constructor
  · rintro ⟨m, ⟨s, t, hs, h1, h2, rfl⟩, rfl⟩
    exact ⟨s, t, hs, h1, h2, absMove_mk' s t 0 (getLsbD_lt hs) (getLsbD_lt h1) (Or.inl rfl)⟩
  · rintro ⟨s, t, hs, h1, h2, rfl⟩
    exact ⟨_, ⟨s, t, hs, h1, h2, rfl⟩, absMove_mk' s t 0 (getLsbD_lt hs) (getLsbD_lt h1) (Or.inl rfl)⟩

/-- the squares holding a piece of kind `k` of the side to move -/
def ownSquares (P : Fide.Pos) (k : Nat) : List Nat :=
  (List.range 64).filter fun s => Fide.isOwn P P.side s && Fide.kindOf (P.at s) == k

theorem mem_ownSquares (P : Fide.Pos) (k s : Nat) :
    s ∈ ownSquares P k ↔ s < 64 ∧ Fide.isOwn P P.side s = true ∧ Fide.kindOf (P.at s) = k := by
  unfold ownSquares
  simp only [List.mem_filter, List.mem_range, Bool.and_eq_true, beq_iff_eq]

/-! ### sliders -/

theorem mem_sliderMoves (P : Fide.Pos) (s : Nat) (dirs : List Dir) (mv : Fide.Move) :
    mv ∈ Fide.sliderMoves P s dirs ↔
      ∃ t, (∃ d ∈ dirs, t ∈ Fide.rayFrom P d s) ∧ Fide.isOwn P P.side t = false ∧ mv = ⟨s, t, none⟩ := by
  unfold Fide.sliderMoves
  simp only [List.mem_flatMap, List.mem_filterMap]
  constructor
  · rintro ⟨d, hd, t, ht, h⟩
    by_cases ho : Fide.isOwn P P.side t = true
    · simp [ho] at h
    · simp only [ho, Bool.false_eq_true, if_false, Option.some.injEq] at h
      exact ⟨t, ⟨d, hd, ht⟩, by simpa using ho, h.symm⟩
  · rintro ⟨t, ⟨d, hd, ht⟩, ho, rfl⟩
    exact ⟨d, hd, t, ht, by simp [ho]⟩

/-- generic slider statement: any attack function that is geometric reachability along `dirs` -/
theorem genHelper_slider (p : Pos) (hsh : wfShape p = true) (hside : p.side < 2) (k : Nat) (hk : k < 6)
    (dirs : List Dir) (att : Nat → BB)
    (hatt : ∀ s < 64, ∀ t < 64, (att s).getLsbD t = Geo.reach dirs p.all s t) (mv : Fide.Move) :
    mv ∈ (genHelper (p.pieces p.side k) (~~~p.byColor p.side) att).map absMove ↔
      mv ∈ (ownSquares (absPos p) k).flatMap fun s => Fide.sliderMoves (absPos p) s dirs := by
  rw [mem_genHelper_abs]
  simp only [List.mem_flatMap, mem_ownSquares, mem_sliderMoves]
  have hside' : (absPos p).side = p.side := rfl
  constructor
  · rintro ⟨s, t, hs, h1, h2, rfl⟩
    have hs64 := getLsbD_lt hs
    have ht64 := getLsbD_lt h1
    rw [pieces_iff p hsh _ _ hside hk, Bool.and_eq_true, beq_iff_eq] at hs
    rw [hatt s hs64 t ht64, reach_iff] at h1
    obtain ⟨d, hd, hr⟩ := h1
    rw [BitVec.getLsbD_not, byColor_iff p hsh _ hside] at h2
    simp only [ht64, decide_true, Bool.true_and, Bool.not_eq_true'] at h2
    refine ⟨s, ⟨hs64, by rw [hside']; exact hs.1, hs.2⟩, t, ⟨d, hd, ?_⟩, by rw [hside']; exact h2, rfl⟩
    exact (mem_rayFrom (absPos p) p.all (all_iff p hsh) d s t).2 hr
  · rintro ⟨s, ⟨hs64, ho, hkind⟩, t, ⟨d, hd, hr⟩, hnot, rfl⟩
    rw [hside'] at ho hnot
    have hr' := (mem_rayFrom (absPos p) p.all (all_iff p hsh) d s t).1 hr
    have ht64 : t < 64 := by
      rw [reachAlong_iff] at hr'
      obtain ⟨j, _, h1, _⟩ := hr'
      exact step_lt _ _ _ _ h1
    refine ⟨s, t, ?_, ?_, ?_, rfl⟩
    · rw [pieces_iff p hsh _ _ hside hk, ho, hkind]; simp
    · rw [hatt s hs64 t ht64, reach_iff]; exact ⟨d, hd, hr'⟩
    · rw [BitVec.getLsbD_not, byColor_iff p hsh _ hside, hnot]; simp [ht64]

/-! ### leapers -/

theorem mem_leaperMoves (P : Fide.Pos) (s : Nat) (offs : List (Int × Int)) (mv : Fide.Move) :
    mv ∈ Fide.leaperMoves P s offs ↔
      ∃ t, (offs.any fun o => Geo.offset o.1 o.2 s == some t) = true ∧ Fide.isOwn P P.side t = false ∧ mv = ⟨s, t, none⟩ := by
  unfold Fide.leaperMoves
  simp only [List.mem_filterMap, List.any_eq_true, beq_iff_eq]
  constructor
  · rintro ⟨o, ho, h⟩
    cases hoff : Geo.offset o.1 o.2 s with
    | none => rw [hoff] at h; cases h
    | some t =>
      rw [hoff] at h
      by_cases hown : Fide.isOwn P P.side t = true
      · simp [hown] at h
      · simp only [hown, Bool.false_eq_true, if_false, Option.some.injEq] at h
        exact ⟨t, ⟨o, ho, hoff⟩, by simpa using hown, h.symm⟩
  · rintro ⟨t, ⟨o, ho, hoff⟩, hown, rfl⟩
    exact ⟨o, ho, by rw [hoff]; simp [hown]⟩

theorem offset_lt (df dr : Int) (s t : Nat) (h : Geo.offset df dr s = some t) : t < 64 := by
  unfold Geo.offset at h
  simp only at h
  split at h
  · injection h with h; omega
  · cases h

/-- generic leaper statement: any attack table that is "one of the offsets" -/
theorem genHelper_leaper (p : Pos) (hsh : wfShape p = true) (hside : p.side < 2) (k : Nat) (hk : k < 6)
    (offs : List (Int × Int)) (att : Nat → BB)
    (hatt : ∀ s < 64, ∀ t < 64, (att s).getLsbD t = offs.any fun o => Geo.offset o.1 o.2 s == some t) (mv : Fide.Move) :
    mv ∈ (genHelper (p.pieces p.side k) (~~~p.byColor p.side) att).map absMove ↔
      mv ∈ (ownSquares (absPos p) k).flatMap fun s => Fide.leaperMoves (absPos p) s offs := by
  rw [mem_genHelper_abs]
  simp only [List.mem_flatMap, mem_ownSquares, mem_leaperMoves]
  have hside' : (absPos p).side = p.side := rfl
  constructor
  · rintro ⟨s, t, hs, h1, h2, rfl⟩
    have hs64 := getLsbD_lt hs
    have ht64 := getLsbD_lt h1
    rw [pieces_iff p hsh _ _ hside hk, Bool.and_eq_true, beq_iff_eq] at hs
    rw [hatt s hs64 t ht64] at h1
    rw [BitVec.getLsbD_not, byColor_iff p hsh _ hside] at h2
    simp only [ht64, decide_true, Bool.true_and, Bool.not_eq_true'] at h2
    exact ⟨s, ⟨hs64, by rw [hside']; exact hs.1, hs.2⟩, t, h1, by rw [hside']; exact h2, rfl⟩
  · rintro ⟨s, ⟨hs64, ho, hkind⟩, t, h1, hnot, rfl⟩
    rw [hside'] at ho hnot
    have ht64 : t < 64 := by
      simp only [List.any_eq_true, beq_iff_eq] at h1
      obtain ⟨o, _, h⟩ := h1
      exact offset_lt _ _ _ _ h
    refine ⟨s, t, ?_, ?_, ?_, rfl⟩
    · rw [pieces_iff p hsh _ _ hside hk, ho, hkind]; simp
    · rw [hatt s hs64 t ht64]; exact h1
    · rw [BitVec.getLsbD_not, byColor_iff p hsh _ hside, hnot]; simp [ht64]

end GM
end Clemens
