import Clemens.Proofs.GenMovesPieces
/-
C01a lemmas: the pawn generators (pushes, double pushes, captures, promotions, en passant)
against the specification's `pawnMoves`.
-/
namespace Clemens
namespace GM

theorem pawn_push_core (P : Fide.Pos) (occ : BB) (hocc : ∀ u, occ.getLsbD u = (P.at u != 0)) (s : Nat) (dr : Int)
    (home : Nat) (W : Nat → List Fide.Move)
    (hW : rankOf s = home → ∀ t2, Geo.offset 0 (2 * dr) s = some t2 → W t2 = [⟨s, t2, none⟩]) (mv : Fide.Move) :
    mv ∈ (match Geo.offset 0 dr s with
      | some t1 => if P.at t1 != 0 then [] else W t1 ++
          (if rankOf s = home then match Geo.offset 0 (2 * dr) s with
            | some t2 => if P.at t2 == 0 then [(⟨s, t2, none⟩ : Fide.Move)] else []
            | none => [] else [])
      | none => [])
    ↔ ∃ t, (match Geo.offset 0 dr s with
        | some t1 => !occ.has t1 && (t == t1 || (rankOf s == home &&
            (match Geo.offset 0 (2 * dr) s with | some t2 => t == t2 && !occ.has t2 | none => false)))
        | none => false) = true ∧ mv ∈ W t := by
  cases h1 : Geo.offset 0 dr s with
  | none => simp
  | some t1 =>
    simp only [BB.has, hocc]
    by_cases hv : P.at t1 = 0
    · simp only [hv, bne_self_eq_false, Bool.false_eq_true, if_false, Bool.not_false, Bool.true_and, List.mem_append]
      by_cases hr : rankOf s = home
      · cases h2 : Geo.offset 0 (2 * dr) s with
        | none => simp [hr]
        | some t2 =>
          have hw2 := hW hr t2 h2
          by_cases hv2 : P.at t2 = 0
          · simp only [hr, hv2, if_true, beq_self_eq_true, List.mem_singleton, bne_self_eq_false, Bool.not_false, Bool.and_true, Bool.true_and, Bool.or_eq_true, beq_iff_eq]
            constructor
            · rintro (h | h)
              · exact ⟨t1, Or.inl rfl, h⟩
              · exact ⟨t2, Or.inr rfl, by rw [hw2]; simpa using h⟩
            · rintro ⟨t, (rfl | rfl), h⟩
              · exact Or.inl h
              · right; rw [hw2] at h; simpa using h
          · have hv2' : (P.at t2 != 0) = true := by simpa using hv2
            simp [hr, hv2, hv2']
      · simp [hr]
    · have hv' : (P.at t1 != 0) = true := by simpa using hv
      simp [hv']

theorem pawn_cap_one (P : Fide.Pos) (s : Nat) (df dr : Int) (enemy : Nat) (W : Nat → List Fide.Move)
    (hep : ∀ e, P.ep = some e → P.at e = 0 ∧ Fide.isOwn P enemy e = false) (mv : Fide.Move) :
    mv ∈ (match Geo.offset df dr s with
      | some t => if Fide.isOwn P enemy t then W t else if P.ep == some t && P.at t == 0 then [(⟨s, t, none⟩ : Fide.Move)] else []
      | none => [])
    ↔ ∃ t, Geo.offset df dr s = some t ∧
        ((Fide.isOwn P enemy t = true ∧ mv ∈ W t) ∨ (P.ep = some t ∧ mv = ⟨s, t, none⟩)) := by
  cases h1 : Geo.offset df dr s with
  | none => simp
  | some t =>
    simp only [Option.some.injEq]
    by_cases ho : Fide.isOwn P enemy t = true
    · simp only [ho, if_true]
      constructor
      · intro h; exact ⟨t, rfl, Or.inl ⟨ho, h⟩⟩
      · rintro ⟨t', rfl, (h | h)⟩
        · exact h.2
        · have := (hep _ h.1).2; rw [ho] at this; cases this
    · simp only [ho, Bool.false_eq_true, if_false]
      by_cases he : P.ep = some t
      · have h0 := (hep t he).1
        simp only [he, h0, beq_self_eq_true, Bool.and_self, if_true, List.mem_singleton]
        constructor
        · intro h; exact ⟨t, rfl, Or.inr ⟨rfl, h⟩⟩
        · rintro ⟨t', rfl, (h | h)⟩
          · exact absurd h.1 ho
          · exact h.2
      · have : (P.ep == some t) = false := by simpa using he
        simp only [this, Bool.false_and, Bool.false_eq_true, if_false, List.not_mem_nil, false_iff]
        rintro ⟨t', rfl, (h | h)⟩
        · exact ho h.1
        · exact he h.1

theorem pawn_core (P : Fide.Pos) (occ : BB) (hocc : ∀ u, occ.getLsbD u = (P.at u != 0)) (s : Nat) (dr : Int)
    (home enemy : Nat) (W : Nat → List Fide.Move)
    (hW : rankOf s = home → ∀ t2, Geo.offset 0 (2 * dr) s = some t2 → W t2 = [⟨s, t2, none⟩])
    (hep : ∀ e, P.ep = some e → P.at e = 0 ∧ Fide.isOwn P enemy e = false) (mv : Fide.Move) :
    mv ∈ (match Geo.offset 0 dr s with
      | some t1 => if P.at t1 != 0 then [] else W t1 ++
          (if rankOf s = home then match Geo.offset 0 (2 * dr) s with
            | some t2 => if P.at t2 == 0 then [(⟨s, t2, none⟩ : Fide.Move)] else []
            | none => [] else [])
      | none => []) ++
      (([1, -1] : List Int).flatMap fun df => match Geo.offset df dr s with
        | some t => if Fide.isOwn P enemy t then W t else if P.ep == some t && P.at t == 0 then [(⟨s, t, none⟩ : Fide.Move)] else []
        | none => [])
    ↔ ∃ t, ((match Geo.offset 0 dr s with
        | some t1 => !occ.has t1 && (t == t1 || (rankOf s == home &&
            (match Geo.offset 0 (2 * dr) s with | some t2 => t == t2 && !occ.has t2 | none => false)))
        | none => false) = true ∧ mv ∈ W t) ∨
      ((Geo.offset 1 dr s == some t || Geo.offset (-1) dr s == some t) = true ∧ Fide.isOwn P enemy t = true ∧ mv ∈ W t) ∨
      ((Geo.offset 1 dr s == some t || Geo.offset (-1) dr s == some t) = true ∧ P.ep = some t ∧ mv = ⟨s, t, none⟩) := by
  rw [List.mem_append, exists_or, pawn_push_core P occ hocc s dr home W hW mv]
  apply or_congr Iff.rfl
  simp only [List.flatMap_cons, List.flatMap_nil, List.append_nil, List.mem_append,
    pawn_cap_one P s _ dr enemy W hep mv, Bool.or_eq_true, beq_iff_eq]
  constructor
  · rintro (⟨t, h1, (h | h)⟩ | ⟨t, h1, (h | h)⟩)
    · exact ⟨t, Or.inl ⟨Or.inl h1, h⟩⟩
    · exact ⟨t, Or.inr ⟨Or.inl h1, h⟩⟩
    · exact ⟨t, Or.inl ⟨Or.inr h1, h⟩⟩
    · exact ⟨t, Or.inr ⟨Or.inr h1, h⟩⟩
  · rintro ⟨t, (⟨(h1 | h1), h⟩ | ⟨(h1 | h1), h⟩)⟩
    · exact Or.inl ⟨t, h1, Or.inl h⟩
    · exact Or.inr ⟨t, h1, Or.inl h⟩
    · exact Or.inl ⟨t, h1, Or.inr h⟩
    · exact Or.inr ⟨t, h1, Or.inr h⟩

theorem offset_coords (df dr : Int) (s t : Nat) (h : Geo.offset df dr s = some t) :
    ((rankOf t : Nat) : Int) = (rankOf s : Nat) + dr ∧ ((fileOf t : Nat) : Int) = (fileOf s : Nat) + df ∧ t < 64 := by
  unfold Geo.offset at h
  simp only at h
  split at h
  · injection h with h
    unfold rankOf fileOf at *
    omega
  · cases h

/-- the specification's list for one pawn target: four promotions on the last rank, else the plain move -/
def Wp (c s t : Nat) : List Fide.Move :=
  if rankOf t = (if c = 0 then 7 else 0) then Fide.promoKinds.map fun k => ⟨s, t, some k⟩ else [⟨s, t, none⟩]

theorem pmwp_abs (c s t : Nat) (hc : c < 2) (hs : s < 64) (ht : t < 64) :
    (pawnMoveWithPromotion c s t).map absMove = Wp c s t := by
  have e0 := absMove_mk' s t 0 hs ht (Or.inl rfl)
  have e1 := absMove_promo' s t 1 hs ht (by omega) (by omega)
  have e2 := absMove_promo' s t 2 hs ht (by omega) (by omega)
  have e3 := absMove_promo' s t 3 hs ht (by omega) (by omega)
  have e4 := absMove_promo' s t 4 hs ht (by omega) (by omega)
  have hc' : c = 0 ∨ c = 1 := by omega
  unfold pawnMoveWithPromotion Wp
  rcases hc' with rfl | rfl
  · by_cases h : rankOf t = 7
    · simp [h, KNIGHT, BISHOP, ROOK, QUEEN, e1, e2, e3, e4, Fide.promoKinds]
    · simp [h, e0]
  · by_cases h : rankOf t = 0
    · simp [h, KNIGHT, BISHOP, ROOK, QUEEN, e1, e2, e3, e4, Fide.promoKinds]
    · simp [h, e0]

/-- what both the engine and the specification generate for the pawn on `s` -/
def PawnSpec (P : Fide.Pos) (occ : BB) (s : Nat) (mv : Fide.Move) : Prop :=
  ∃ t, (Geo.pawnPush P.side occ s t = true ∧ mv ∈ Wp P.side s t) ∨
    (Geo.pawnAttack P.side s t = true ∧ Fide.isOwn P (Fide.other P.side) t = true ∧ mv ∈ Wp P.side s t) ∨
    (Geo.pawnAttack P.side s t = true ∧ P.ep = some t ∧ mv = ⟨s, t, none⟩)

theorem pawnMoves_iff (P : Fide.Pos) (occ : BB) (hocc : ∀ u, occ.getLsbD u = (P.at u != 0)) (hside : P.side < 2)
    (hep : ∀ e, P.ep = some e → P.at e = 0) (s : Nat) (mv : Fide.Move) :
    mv ∈ Fide.pawnMoves P s ↔ PawnSpec P occ s mv := by
  have hep' : ∀ c e, P.ep = some e → P.at e = 0 ∧ Fide.isOwn P c e = false := by
    intro c e h
    have := hep e h
    exact ⟨this, by unfold Fide.isOwn; simp [this]⟩
  have hc' : P.side = 0 ∨ P.side = 1 := by omega
  unfold PawnSpec
  rcases hc' with h0 | h0
  · have hW : rankOf s = 1 → ∀ t2, Geo.offset 0 (2 * 1) s = some t2 → Wp 0 s t2 = [⟨s, t2, none⟩] := by
      intro hr t2 h2
      have := (offset_coords _ _ _ _ h2).1
      have h7 : rankOf t2 ≠ 7 := by omega
      simp [Wp, h7]
    have := pawn_core P occ hocc s 1 1 (Fide.other 0) (Wp 0 s) hW (hep' _) mv
    rw [h0]
    unfold Fide.pawnMoves Geo.pawnPush Geo.pawnAttack
    rw [h0]
    exact this
  · have hW : rankOf s = 6 → ∀ t2, Geo.offset 0 (2 * -1) s = some t2 → Wp 1 s t2 = [⟨s, t2, none⟩] := by
      intro hr t2 h2
      have := (offset_coords _ _ _ _ h2).1
      have h7 : rankOf t2 ≠ 0 := by omega
      simp [Wp, h7]
    have := pawn_core P occ hocc s (-1) 6 (Fide.other 1) (Wp 1 s) hW (hep' _) mv
    rw [h0]
    unfold Fide.pawnMoves Geo.pawnPush Geo.pawnAttack
    rw [h0]
    exact this

theorem mem_map_flatMap {α β γ : Type} (L : List α) (f : α → List β) (g : β → γ) (x : γ) :
    x ∈ (L.flatMap f).map g ↔ ∃ t ∈ L, x ∈ (f t).map g := by
  simp only [List.map_flatMap, List.mem_flatMap]

theorem absPos_ep (p : Pos) (t : Nat) (h64 : p.ep ≤ 64) :
    (absPos p).ep = some t ↔ (p.ep ≠ 64 ∧ t = p.ep ∧ p.ep < 64) := by
  unfold absPos
  simp only
  by_cases h : p.ep = 64
  · simp [h]
  · simp only [h, if_false, Option.some.injEq, ne_eq, not_false_eq_true, true_and]
    constructor
    · rintro rfl; exact ⟨rfl, by omega⟩
    · rintro ⟨rfl, _⟩; rfl

theorem pawnPush_lt (c : Nat) (occ : BB) (s t : Nat) (h : Geo.pawnPush c occ s t = true) : t < 64 := by
  unfold Geo.pawnPush at h
  simp only at h
  cases ho1 : Geo.offset 0 (if c = 0 then 1 else -1) s with
  | none => rw [ho1] at h; cases h
  | some t1 =>
    rw [ho1] at h
    simp only [Bool.and_eq_true, Bool.or_eq_true, beq_iff_eq] at h
    rcases h.2 with rfl | h2
    · exact offset_lt _ _ _ _ ho1
    · cases ho2 : Geo.offset 0 (2 * if c = 0 then 1 else -1) s with
      | none => rw [ho2] at h2; simp at h2
      | some t2 =>
        rw [ho2] at h2
        simp only [Bool.and_eq_true, beq_iff_eq] at h2
        rw [h2.2.1]; exact offset_lt _ _ _ _ ho2

/-- the engine's moves of the pawn on `s`, decoded -/
theorem pawnSeg_abs (p : Pos) (hsh : wfShape p = true) (hside : p.side < 2) (hep64 : p.ep ≤ 64) (s : Nat) (hs : s < 64)
    (mv : Fide.Move) :
    mv ∈ (((squares (pawnPushesBySquare p.side s p.all)).flatMap fun t => pawnMoveWithPromotion p.side s t) ++
        genPawnCaptures p s ++ genEnPassant p s).map absMove ↔ PawnSpec (absPos p) p.all s mv := by
  have hside' : (absPos p).side = p.side := rfl
  unfold PawnSpec genPawnCaptures genEnPassant
  rw [hside', List.map_append, List.map_append, List.mem_append, List.mem_append, mem_map_flatMap, mem_map_flatMap]
  constructor
  · rintro ((⟨t, ht, h⟩ | ⟨t, ht, h⟩) | h)
    · rw [mem_squares_iff] at ht
      have ht64 := getLsbD_lt ht
      rw [pmwp_abs _ _ _ hside hs ht64] at h
      rw [pawnPushes_exact _ _ _ _ hside hs ht64] at ht
      exact ⟨t, Or.inl ⟨ht, h⟩⟩
    · rw [mem_squares_iff, BitVec.getLsbD_and, Bool.and_eq_true] at ht
      have ht64 := getLsbD_lt ht.1
      rw [pmwp_abs _ _ _ hside hs ht64] at h
      rw [pawnAttacks_exact _ _ _ hside hs ht64, switchColor_eq _ hside,
        byColor_iff p hsh _ (by unfold Fide.other; omega)] at ht
      exact ⟨t, Or.inr (Or.inl ⟨ht.1, ht.2, h⟩)⟩
    · by_cases he : p.ep = 64
      · simp [he] at h
      · have he' : (p.ep != 64) = true := by simpa using he
        have he64 : p.ep < 64 := by omega
        rw [he', if_pos rfl, List.mem_map] at h
        obtain ⟨m, hm, rfl⟩ := h
        rw [List.mem_map] at hm
        obtain ⟨t, ht, rfl⟩ := hm
        rw [mem_squares_iff, BitVec.getLsbD_and, Bool.and_eq_true, getLsbD_bit _ _ he64, decide_eq_true_eq] at ht
        have ht64 := getLsbD_lt ht.1
        rw [pawnAttacks_exact _ _ _ hside hs ht64] at ht
        refine ⟨t, Or.inr (Or.inr ⟨ht.1, (absPos_ep p t hep64).2 ⟨he, ht.2, he64⟩, ?_⟩)⟩
        exact absMove_mk' s t 2 hs ht64 (Or.inr (Or.inl rfl))
  · rintro ⟨t, (⟨h1, h⟩ | ⟨h1, h2, h⟩ | ⟨h1, h2, rfl⟩)⟩
    · have ht64 : t < 64 := pawnPush_lt _ _ _ _ h1
      left; left
      refine ⟨t, ?_, ?_⟩
      · rw [mem_squares_iff, pawnPushes_exact _ _ _ _ hside hs ht64]; exact h1
      · rw [pmwp_abs _ _ _ hside hs ht64]; exact h
    · have ht64 : t < 64 := by
        unfold Geo.pawnAttack at h1
        simp only [Bool.or_eq_true, beq_iff_eq] at h1
        rcases h1 with h1 | h1 <;> exact offset_lt _ _ _ _ h1
      left; right
      refine ⟨t, ?_, ?_⟩
      · rw [mem_squares_iff, BitVec.getLsbD_and, pawnAttacks_exact _ _ _ hside hs ht64, switchColor_eq _ hside,
          byColor_iff p hsh _ (by unfold Fide.other; omega), h1, h2]; rfl
      · rw [pmwp_abs _ _ _ hside hs ht64]; exact h
    · obtain ⟨he, rfl, he64⟩ := (absPos_ep p t hep64).1 h2
      right
      have he' : (p.ep != 64) = true := by simpa using he
      rw [he', if_pos rfl, List.mem_map]
      refine ⟨Move.mk s p.ep 2, ?_, absMove_mk' s p.ep 2 hs he64 (Or.inr (Or.inl rfl))⟩
      rw [List.mem_map]
      refine ⟨p.ep, ?_, rfl⟩
      rw [mem_squares_iff, BitVec.getLsbD_and, pawnAttacks_exact _ _ _ hside hs he64, h1, getLsbD_bit _ _ he64]
      simp

/-- all pawns of the side to move -/
theorem genPawn_abs (p : Pos) (hsh : wfShape p = true) (hside : p.side < 2) (hep64 : p.ep ≤ 64)
    (hepEmpty : p.ep ≠ 64 → p.at p.ep = 0) (mv : Fide.Move) :
    mv ∈ ((squares (p.pieces p.side PAWN)).flatMap fun s =>
        ((squares (pawnPushesBySquare p.side s p.all)).flatMap fun t => pawnMoveWithPromotion p.side s t) ++
        genPawnCaptures p s ++ genEnPassant p s).map absMove ↔
      mv ∈ (ownSquares (absPos p) 0).flatMap fun s => Fide.pawnMoves (absPos p) s := by
  have hside' : (absPos p).side = p.side := rfl
  have hep : ∀ e, (absPos p).ep = some e → (absPos p).at e = 0 := by
    intro e he
    obtain ⟨h1, rfl, _⟩ := (absPos_ep p e hep64).1 he
    rw [absPos_at]; exact hepEmpty h1
  rw [mem_map_flatMap, List.mem_flatMap]
  constructor
  · rintro ⟨s, hs, h⟩
    rw [mem_squares_iff] at hs
    have hs64 := getLsbD_lt hs
    rw [pieces_iff p hsh _ _ hside (by decide), Bool.and_eq_true, beq_iff_eq] at hs
    refine ⟨s, (mem_ownSquares _ _ _).2 ⟨hs64, by rw [hside']; exact hs.1, hs.2⟩, ?_⟩
    rw [pawnMoves_iff (absPos p) p.all (all_iff p hsh) hside hep]
    exact (pawnSeg_abs p hsh hside hep64 s hs64 mv).1 h
  · rintro ⟨s, hs, h⟩
    obtain ⟨hs64, ho, hk⟩ := (mem_ownSquares _ _ _).1 hs
    rw [hside'] at ho
    refine ⟨s, ?_, ?_⟩
    · rw [mem_squares_iff, pieces_iff p hsh _ _ hside (by decide), ho, hk]; rfl
    · rw [pawnMoves_iff (absPos p) p.all (all_iff p hsh) hside hep] at h
      exact (pawnSeg_abs p hsh hside hep64 s hs64 mv).2 h

end GM
end Clemens
