import Clemens.Model.UciParse
/-
Lemmas about `parseGo` (C07).
-/
namespace Clemens

theorem goField_isSome_of_mem (kw : String) (sp : SearchParams) (v : Int) (h : kw ∈ intKeywords) :
    (goField kw sp v).isSome = true := by
  simp only [intKeywords, List.mem_cons, List.not_mem_nil, or_false] at h
  rcases h with h | h | h | h | h | h | h <;> subst h <;> simp [goField]

theorem goField_ne_none_of_find (t : Bytes) (kw : String) (sp : SearchParams) (v : Int)
    (h : intKeywords.find? (fun kw => tok kw = t) = some kw) : goField kw sp v ≠ none := by
  have := goField_isSome_of_mem kw sp v (List.mem_of_find?_eq_some h)
  intro h'; simp [h'] at this

theorem parseGoLoop_isSome (atoiF : Bytes → Int × Bool) (toks : List Bytes) (sp : SearchParams) (msgs : List GoMsg) :
    (parseGoLoop atoiF toks sp msgs).isSome = true := by
  fun_induction parseGoLoop atoiF toks sp msgs <;> try simp_all
  next h _ _ _ _ _ _ hn => exact absurd hn (goField_ne_none_of_find _ _ _ _ h)

end Clemens

namespace Clemens

/-! ### One-step lemmas for the loop of `parseGo` -/

theorem find_intKeyword : ∀ kw ∈ intKeywords, intKeywords.find? (fun k => tok k = tok kw) = some kw := by
  decide +kernel

theorem intKeyword_ne_searchmoves : ∀ kw ∈ intKeywords, tok kw ≠ tok "searchmoves" := by decide +kernel

theorem find_nodes : intKeywords.find? (fun k => tok k = tok "nodes") = none := by decide +kernel
theorem find_mate : intKeywords.find? (fun k => tok k = tok "mate") = none := by decide +kernel
theorem find_infinite : intKeywords.find? (fun k => tok k = tok "infinite") = none := by decide +kernel
theorem tok_facts :
    tok "nodes" ≠ tok "searchmoves" ∧ tok "mate" ≠ tok "searchmoves" ∧ tok "infinite" ≠ tok "searchmoves" ∧
    tok "mate" ≠ tok "nodes" ∧ tok "infinite" ≠ tok "nodes" ∧ tok "infinite" ≠ tok "mate" := by decide +kernel

/-- an integer keyword followed by a well-formed integer: the field is set and the loop continues -/
theorem parseGoLoop_int (atoiF : Bytes → Int × Bool) (kw : String) (hk : kw ∈ intKeywords) (v : Bytes) (i : Int)
    (hv : atoiF v = (i, true)) (rest : List Bytes) (sp sp' : SearchParams) (msgs : List GoMsg)
    (hf : goField kw sp i = some sp') :
    parseGoLoop atoiF (tok kw :: v :: rest) sp msgs = parseGoLoop atoiF rest sp' msgs := by
  rw [parseGoLoop]
  simp only [intKeyword_ne_searchmoves kw hk, if_false, find_intKeyword kw hk, hv, hf]
  simp

theorem parseGoLoop_nodes (atoiF : Bytes → Int × Bool) (v : Bytes) (hv : (atoiF v).2 = true) (rest : List Bytes)
    (sp : SearchParams) (msgs : List GoMsg) :
    parseGoLoop atoiF (tok "nodes" :: v :: rest) sp msgs =
      parseGoLoop atoiF rest sp (GoMsg.notImplemented "nodes" :: msgs) := by
  rw [parseGoLoop]
  simp [tok_facts.1, find_nodes, hv]

theorem parseGoLoop_mate (atoiF : Bytes → Int × Bool) (v : Bytes) (hv : (atoiF v).2 = true) (rest : List Bytes)
    (sp : SearchParams) (msgs : List GoMsg) :
    parseGoLoop atoiF (tok "mate" :: v :: rest) sp msgs =
      parseGoLoop atoiF rest sp (GoMsg.notImplemented "mate" :: msgs) := by
  rw [parseGoLoop]
  simp [tok_facts.2.1, tok_facts.2.2.2.1, find_mate, hv]

theorem parseGoLoop_infinite (atoiF : Bytes → Int × Bool) (rest : List Bytes) (sp : SearchParams) (msgs : List GoMsg) :
    parseGoLoop atoiF (tok "infinite" :: rest) sp msgs = parseGoLoop atoiF rest { sp with infinite := true } msgs := by
  rw [parseGoLoop]
  simp [tok_facts.2.2.1, tok_facts.2.2.2.2.1, tok_facts.2.2.2.2.2, find_infinite]

theorem removePrefixGarbage_eq_dropWhile (ts : List Bytes) :
    removePrefixGarbage ts = ts.dropWhile (fun t => !validFirstInputToken.contains t) := by
  induction ts with
  | nil => rfl
  | cons t ts ih =>
    rw [removePrefixGarbage, List.dropWhile_cons]
    rw [ih]
    cases h : validFirstInputToken.contains t <;> simp

end Clemens
