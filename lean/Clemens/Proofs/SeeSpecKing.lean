import Clemens.Proofs.SeeSpecSim
/-
C18b (c) — the king rule.  The model tests "no enemy attacker" before the king moves, the specification after it has
moved.  The only difference is an enemy slider behind the king on the line through the target; then that slider attacks
the king in the original position (`king_xray`).
-/
namespace Clemens.P18
open Clemens

/-- no removed piece stands behind the king `k = t + d` on the line from `t`: it could not have attacked `t` -/
theorem not_removed_behind (p : Pos) (t k u : Nat) (R : BB) (d : Dir) (i : Nat) (ht : t < 64)
    (hk1 : Geo.step d 1 t = some k) (hu : Geo.step d (i + 2) t = some u)
    (hocck : (occOf p R).getLsbD k = true)
    (hatt : attT (occOf p R) (p.at u) t u = true) : False := by
  obtain ⟨f1, f2, f3, f4⟩ := far_not_leaper d t i u ht hu
  unfold attT leapT xrT at hatt
  rw [f1, f2, f3, f4] at hatt
  simp only [Bool.false_and, Bool.or_false, Bool.false_or, Bool.or_eq_true, Bool.and_eq_true] at hatt
  have key : ∀ dirs, Geo.reach dirs (occOf p R) t u = true → False := by
    intro dirs hr
    unfold Geo.reach at hr
    rw [List.any_eq_true] at hr
    obtain ⟨d', _, hr⟩ := hr
    rw [reachAlong_iff] at hr
    obtain ⟨j, _, h1, h2⟩ := hr
    have hd : d' = d := step_dir_eq d' d j (i + 1) t u h1 hu
    subst hd
    have hj : j = i + 1 := step_idx_eq d' j (i + 1) t u h1 hu
    subst hj
    obtain ⟨v, hv, ho⟩ := h2 0 (by omega)
    rw [hk1] at hv
    injection hv with hv
    subst hv
    rw [hocck] at ho; cases ho
  rcases hatt with ⟨hr, _⟩ | ⟨hr, _⟩
  · exact key _ hr
  · exact key _ hr

/-- (c) if an attack on `t` exists once the king on `k` (a king's step from `t`) has left, but not before, then the
attacker is a slider that attacks the king's square `k` in the original position -/
theorem king_xray (p : Pos) (_hw : wfShape p = true) (t k S : Nat) (R : BB) (ht : t < 64) (hk : k < 64)
    (hking : Geo.kingStep t k = true)
    (hallk : p.all.getLsbD k = true) (hRk : R.getLsbD k = false)
    (hist : ∀ r, r < 64 → R.getLsbD r = true → attT (occOf p R) (p.at r) t r = true)
    (h1 : attT (occOf p R) (p.at S) t S = false)
    (h2 : attT (occOf p (R ||| bit k)) (p.at S) t S = true) :
    attT p.all (p.at S) k S = true := by
  have hocck : (occOf p R).getLsbD k = true := by rw [occOf_bit p R k hk, hallk, hRk]; rfl
  have hsame : ∀ u, u < 64 → u ≠ k → (occOf p (R ||| bit k)).getLsbD u = (occOf p R).getLsbD u := by
    intro u hu huk
    rw [occOf_or_bit p R k u hk hu]; simp [huk]
  -- one direction `d` opens
  have lift : ∀ dirs, Geo.reach dirs (occOf p (R ||| bit k)) t S = true → Geo.reach dirs (occOf p R) t S = false →
      Geo.reach dirs p.all k S = true := by
    intro dirs hr2 hr1
    unfold Geo.reach at hr1 hr2 ⊢
    rw [List.any_eq_true] at hr2 ⊢
    rw [List.any_eq_false] at hr1
    obtain ⟨d, hd, hr2⟩ := hr2
    have hr1 : Geo.reachAlong d (occOf p R) t S = false := by simpa using hr1 d hd
    obtain ⟨hk1, hopen, _⟩ := reachAlong_opened d (occOf p R) (occOf p (R ||| bit k)) t k S ht hking hsame hr2 hr1
    refine ⟨d, hd, ?_⟩
    rw [reachAlong_iff] at hopen ⊢
    obtain ⟨j, hj, hS, hmid⟩ := hopen
    refine ⟨j, hj, hS, fun i hi => ?_⟩
    obtain ⟨u, hu, ho⟩ := hmid i hi
    refine ⟨u, hu, ?_⟩
    have hu64 := step_lt _ _ _ _ hu
    rw [occOf_bit p R u hu64] at ho
    cases hall : p.all.getLsbD u with
    | false => rfl
    | true =>
      rw [hall] at ho
      have hRu : R.getLsbD u = true := by simpa using ho
      exact (not_removed_behind p t k u R d i ht hk1 (step_from_first d t k u i hk1 hu) hocck (hist u hu64 hRu)).elim
  unfold attT xrT at h1 h2
  simp only [Bool.or_eq_false_iff] at h1
  obtain ⟨hl, ⟨⟨hb1, hr1⟩, hp0⟩, hp1⟩ := h1
  rw [hl, hp0, hp1] at h2
  simp only [Bool.false_or, Bool.or_false] at h2
  unfold attT xrT
  rcases Bool.or_eq_true_iff.1 h2 with h | h
  · obtain ⟨hb2, hpc⟩ := Bool.and_eq_true_iff.1 h
    rw [hpc, Bool.and_true] at hb1
    rw [lift _ hb2 hb1, hpc]; simp
  · obtain ⟨hr2, hpc⟩ := Bool.and_eq_true_iff.1 h
    rw [hpc, Bool.and_true] at hr1
    rw [lift _ hr2 hr1, hpc]; simp

end Clemens.P18
