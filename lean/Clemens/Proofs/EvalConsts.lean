import Clemens.Proofs.EvalTune
/-
C15 (part 1): the bounds of the evaluation terms as COMPUTABLE FUNCTIONS of the generated tuning constants
(`Clemens/Gen/Consts.lean`, `Clemens/Gen/Pst.lean`), and — at the end of the file — the only numerical facts about the
current values of these constants that the C15 proofs use.  They are inequalities, re-evaluated by `decide` on every run
against the regenerated constants; every other C15 lemma (`EvalBounds.lean`, `EvalTotal.lean`, `Props/C15.lean`) is proved
symbolically in the constants and does not change when they are tuned.

No `… = <literal>` fact about a tuning constant is stated anywhere (the current value of `evalBound` is given in a comment).
-/
namespace Clemens

/-! ### the tuning constants -/

/-- isolated-pawn weight of phase `ph` (0 = middle game, 1 = endgame) -/
def isoW (ph : Nat) : Int := Gen.eval_isolanis.getD ph 0
def supScalar : Int := Gen.eval_supportedScalar.getD 0 0
def pasScalar : Int := Gen.eval_passedScalar.getD 0 0
/-- pair bonus: 0 rooks, 1 knights, 2 bishops -/
def pairW (i : Nat) : Int := Gen.eval_pairs.getD i 0
/-- game phase weight: 0 knight, 1 bishop, 2 rook, 3 queen -/
def gpv (i : Nat) : Int := Gen.eval_gamePhaseValues.getD i 0
def ka (n : Nat) : Int := Gen.eval_knightPawnAdjustment.getD n 0
def ra (n : Nat) : Int := Gen.eval_rookPawnAdjustment.getD n 0
def kav (t : Nat) : Int := Gen.eval_kingAttValue.getD t 0

/-! ### piece square tables: extrema of each table, computed from `Gen.pstData` -/

def pstHi (ph c t : Nat) : Int := maxOver (pst ph c t) 64
def pstLo (ph c t : Nat) : Int := minOver (pst ph c t) 64

/-- upper bound of a phase score (`mid`, `end_`) after the piece square tables and the isolated pawns: white's men on their best
squares (every white pawn isolated if that weight is positive), black's on their worst (every black pawn isolated if it is negative) -/
def midHi (ph : Nat) : Int :=
  sideHi (pstHi ph 0 0 + posPart (isoW ph)) (pstHi ph 0 1) (pstHi ph 0 2) (pstHi ph 0 3) (pstHi ph 0 4) (pstHi ph 0 5)
  + sideHi (-pstLo ph 1 0 + posPart (-isoW ph)) (-pstLo ph 1 1) (-pstLo ph 1 2) (-pstLo ph 1 3) (-pstLo ph 1 4)
      (-pstLo ph 1 5)

def midLo (ph : Nat) : Int :=
  -(sideHi (-pstLo ph 0 0 + posPart (-isoW ph)) (-pstLo ph 0 1) (-pstLo ph 0 2) (-pstLo ph 0 3) (-pstLo ph 0 4)
      (-pstLo ph 0 5)
    + sideHi (pstHi ph 1 0 + posPart (isoW ph)) (pstHi ph 1 1) (pstHi ph 1 2) (pstHi ph 1 3) (pstHi ph 1 4) (pstHi ph 1 5))

/-- `|mid|, |end_| ≤ midBound` -/
def midBound : Int := max (max (midHi 0) (-midLo 0)) (max (midHi 1) (-midLo 1))

/-! ### the terms of the base score -/

/-- `8·(1+2+…+6)`: crude maximum of the rank sum of `rankedPawnEval` (at most eight selected pawns on each of the six ranks) -/
def rankSumMax : Int := 168

def pawnBound : Int := absI supScalar * rankSumMax + absI pasScalar * rankSumMax

def pairsBound : Int := absI (pairW 0) + absI (pairW 1) + absI (pairW 2)

/-- the most / the least material one colour can have -/
def matHi : Int := sideHi (pieceValue 0) (pieceValue 1) (pieceValue 2) (pieceValue 3) (pieceValue 4) (pieceValue 5)
def matLo : Int := -sideHi (-pieceValue 0) (-pieceValue 1) (-pieceValue 2) (-pieceValue 3) (-pieceValue 4) (-pieceValue 5)
def matBound : Int := matHi - matLo

def kaHi : Int := maxOver ka 9
def kaLo : Int := minOver ka 9
def raHi : Int := maxOver ra 9
def raLo : Int := minOver ra 9
/-- pawn adjustment of the knights and rooks of one colour -/
def adjHi : Int := sideHi 0 kaHi 0 raHi 0 0
def adjLo : Int := -sideHi 0 (-kaLo) 0 (-raLo) 0 0
def adjBound : Int := adjHi - adjLo

/-- mobility and king attack value of one colour: at most 64 pawn pushes; a man attacks at most 64 squares, at most 8 of them
next to the enemy king -/
def mobHi : Int :=
  64 + sideHi (64 + posPart (kav 0) * 8) (64 + posPart (kav 1) * 8) (64 + posPart (kav 2) * 8) (64 + posPart (kav 3) * 8)
    (64 + posPart (kav 4) * 8) (64 + posPart (kav 5) * 8)
def mobLo : Int :=
  -sideHi (posPart (-kav 0) * 8) (posPart (-kav 1) * 8) (posPart (-kav 2) * 8) (posPart (-kav 3) * 8)
    (posPart (-kav 4) * 8) (posPart (-kav 5) * 8)

/-! ### the accumulated bounds of the base score, and the bound of the evaluation -/

def baseB1 : Int := pawnBound                      -- after `evalPawns`
def baseB2 : Int := baseB1 + pairsBound            -- after `evalPairs`
def baseB3 : Int := baseB2 + matBound              -- after `evalBaseMaterial`
def baseB4 : Int := baseB3 + adjBound              -- after `evalPawnAdjustment`
def baseBW : Int := baseB4 + max mobHi (-mobLo)    -- `base + mobW`
def baseBound : Int := baseB4 + (mobHi - mobLo)    -- after the mobility term

/-- the two draw scores are read off the running code; the proofs use that they are at most 1000 in absolute value (`contempt_small`) -/
def contemptMax : Int := 1000

/-- `|eval| ≤ evalBound` on legal material: tapered phase score plus base score -/
def evalBound : Int := max contemptMax (midBound + baseBound)

/-! ### the numerical facts (the only place where the current values matter) -/

/-- sign conditions of the tapering: the game phase weights are not negative and the divisor is positive
(so that `0 ≤ gamePhase ≤ maxGamePhase`) -/
theorem phase_facts : 0 ≤ gpv 0 ∧ 0 ≤ gpv 1 ∧ 0 ≤ gpv 2 ∧ 0 ≤ gpv 3 ∧ 0 < maxGamePhase := by decide

/-- the evaluation is strictly outside the mate range `INF - maxPlies` (and `INF - 100`, the literal of the statements) -/
theorem evalBound_lt_mate : evalBound < INF - maxPlies ∧ evalBound < INF - 100 := by decide +kernel

/-- … and inside `EvalRange = [-20000, 20000]` of C04c -/
theorem evalBound_le_20000 : evalBound ≤ 20000 := by decide +kernel

/-- no `int16` intermediate of the Go computation overflows: every accumulated bound fits -/
theorem evalBound_i16 :
    midBound ≤ 32767 ∧ midBound * maxGamePhase ≤ 32767 ∧ maxGamePhase ≤ 32767 ∧
    baseB1 ≤ 32767 ∧ baseB2 ≤ 32767 ∧ baseB3 ≤ 32767 ∧ baseB4 ≤ 32767 ∧ baseBW ≤ 32767 ∧ baseBound ≤ 32767 ∧
    mobHi ≤ 32767 ∧ -32768 ≤ mobLo ∧ midBound + baseBound ≤ 32767 := by decide +kernel

/- the current values (a comment, not an `example`: it would make the build fail whenever a constant is tuned).  Checked with
   `decide +kernel` on the constants of this snapshot:
     example : evalBound = 14881 ∧ midBound = 1145 ∧ baseBound = 13736 ∧ pawnBound = 1344 ∧ pairsBound = 54 ∧ matBound = 10450 ∧
         adjBound = 392 ∧ mobHi = 1496 ∧ mobLo = 0 := by decide +kernel -/

end Clemens
