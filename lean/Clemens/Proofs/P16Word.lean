import Clemens.Proofs.GenMovesShape
import Clemens.Proofs.MoveText
/-
P16 (C03b) lemmas: the *word form* of the generated moves — every word `GeneratePseudoLegalMoves` produces in a legal
position is `Move.mk s t k` with `k ∈ {0, 2, 3}` or `(Move.mk s t 1).withPromo pt` with `1 ≤ pt ≤ 4` (so the bits 14/15 are
zero unless the move is a promotion; `GenShape` does not say that), and the text round trip that follows.
-/
namespace Clemens.P16
open Clemens Clemens.GM

/-- canonical form of a generated move word -/
def WordForm (m : Move) : Prop :=
  (∃ s t k, s < 64 ∧ t < 64 ∧ (k = 0 ∨ k = 2 ∨ k = 3) ∧ m = Move.mk s t k) ∨
  (∃ s t pt, s < 64 ∧ t < 64 ∧ 1 ≤ pt ∧ pt ≤ 4 ∧ m = (Move.mk s t 1).withPromo pt)

theorem wf_helper (src dest : BB) (att : Nat → BB) (m : Move) (h : m ∈ genHelper src dest att) : WordForm m := by
  rw [mem_genHelper] at h
  obtain ⟨s, t, hs, h1, _, rfl⟩ := h
  exact Or.inl ⟨s, t, 0, getLsbD_lt hs, getLsbD_lt h1, Or.inl rfl, rfl⟩

theorem wf_pmwp (c s t : Nat) (hc : c < 2) (hs : s < 64) (ht : t < 64) (m : Move)
    (h : m ∈ pawnMoveWithPromotion c s t) : WordForm m := by
  rcases mem_pmwp c s t hc m h with ⟨_, rfl⟩ | ⟨_, pt, h1, h4, rfl⟩
  · exact Or.inl ⟨s, t, 0, hs, ht, Or.inl rfl, rfl⟩
  · exact Or.inr ⟨s, t, pt, hs, ht, h1, h4, rfl⟩

theorem castle_words :
    ((3 <<< 12) ||| 4 ||| (((4 + 2) % 256) <<< 6) : Nat) = Move.mk 4 6 3 ∧
    ((3 <<< 12) ||| 4 ||| (((4 + 254) % 256) <<< 6) : Nat) = Move.mk 4 2 3 ∧
    ((3 <<< 12) ||| 60 ||| (((60 + 2) % 256) <<< 6) : Nat) = Move.mk 60 62 3 ∧
    ((3 <<< 12) ||| 60 ||| (((60 + 254) % 256) <<< 6) : Nat) = Move.mk 60 58 3 := by decide

theorem wf_castle (p : Pos) (hw : WF p = true) (c : Nat) (hc : c ∈ [1, 2, 4, 8]) (m : Move)
    (h : m ∈ castleStep p c) : WordForm m := by
  unfold castleStep at h
  split at h
  · cases h
  · rename_i hcol
    have hcol : castlingColor c = p.side := by simpa using hcol
    split at h
    · cases h
    · rename_i hcc
      have hcc : canCastleNow p c = true := by simpa using hcc
      have hr := canCastle_right p c hcc
      have hk := king_home p hw c hc hcol hr
      simp only [hk, List.mem_singleton] at h
      obtain ⟨w1, w2, w3, w4⟩ := castle_words
      simp only [List.mem_cons, List.not_mem_nil, or_false] at hc
      rcases hc with rfl | rfl | rfl | rfl
      · have hs : p.side = 0 := by rw [← hcol]; rfl
        simp only [hs, if_true, castlingKingSide] at h
        subst h
        exact Or.inl ⟨4, 6, 3, by omega, by omega, Or.inr (Or.inr rfl), w1⟩
      · have hs : p.side = 0 := by rw [← hcol]; rfl
        simp only [hs, if_true, castlingKingSide] at h
        subst h
        exact Or.inl ⟨4, 2, 3, by omega, by omega, Or.inr (Or.inr rfl), w2⟩
      · have hs : p.side = 1 := by rw [← hcol]; rfl
        simp only [hs, castlingKingSide] at h
        subst h
        exact Or.inl ⟨60, 62, 3, by omega, by omega, Or.inr (Or.inr rfl), w3⟩
      · have hs : p.side = 1 := by rw [← hcol]; rfl
        simp only [hs, castlingKingSide] at h
        subst h
        exact Or.inl ⟨60, 58, 3, by omega, by omega, Or.inr (Or.inr rfl), w4⟩

/-- every generated word is in canonical form -/
theorem wordForm_of_gen (p : Pos) (hw : WF p = true) (m : Move) (h : m ∈ genMoves p) : WordForm m := by
  obtain ⟨_, hst, _⟩ := WF_parts p hw
  obtain ⟨hside, _, _⟩ := state_parts p hst
  unfold genMoves at h
  simp only [List.mem_append] at h
  rcases h with (((((h | h) | h) | h) | h) | h) | h
  · exact wf_helper _ _ _ m h
  · exact wf_helper _ _ _ m h
  · exact wf_helper _ _ _ m h
  · exact wf_helper _ _ _ m h
  · rw [List.mem_flatMap] at h
    obtain ⟨s, hs, h⟩ := h
    have hs64 := squares_lt _ _ hs
    rw [List.mem_append, List.mem_append] at h
    rcases h with (h | h) | h
    · rw [List.mem_flatMap] at h
      obtain ⟨t, ht, h⟩ := h
      exact wf_pmwp _ s t hside hs64 (squares_lt _ _ ht) m h
    · unfold genPawnCaptures at h
      rw [List.mem_flatMap] at h
      obtain ⟨t, ht, h⟩ := h
      exact wf_pmwp _ s t hside hs64 (squares_lt _ _ ht) m h
    · unfold genEnPassant at h
      split at h
      · rw [List.mem_map] at h
        obtain ⟨t, ht, rfl⟩ := h
        exact Or.inl ⟨s, t, 2, hs64, squares_lt _ _ ht, Or.inr (Or.inl rfl), rfl⟩
      · cases h
  · rw [genCastling_eq] at h
    simp only [List.mem_append] at h
    rcases h with ((h | h) | h) | h
    · exact wf_castle p hw 1 (by decide) m h
    · exact wf_castle p hw 2 (by decide) m h
    · exact wf_castle p hw 4 (by decide) m h
    · exact wf_castle p hw 8 (by decide) m h
  · exact wf_helper _ _ _ m h

theorem absDiff_two (s t : Nat) : absDiff s t = 2 ↔ (t = s + 2 ∨ s = t + 2) := by
  unfold absDiff; split <;> omega

/-- the text round trip for a word in canonical form with the shape of a generated word -/
theorem roundtrip_of_shape (p : Pos) (m : Move) (hf : WordForm m) (g : GenShape p m) :
    moveFromString p (moveToString m) = .ok m := by
  rcases hf with ⟨s, t, k, hs, ht, hk, rfl⟩ | ⟨s, t, pt, hs, ht, h1, h4, rfl⟩
  · obtain ⟨e1, e2, e3⟩ := mk_fields s hs t ht k (by omega)
    have gc := g.castle
    have ge := g.ep
    rw [e1, e2, e3] at gc ge
    rcases hk with rfl | rfl | rfl
    · have hnk : ¬(pieceType (p.at s) = KING ∧ absDiff s t = 2) := by
        rintro ⟨a, b⟩
        have := gc.2 ⟨a, (absDiff_two s t).1 b⟩
        omega
      by_cases hp : pieceType (p.at s) = PAWN
      · apply rt_pawn_normal p s t hs ht hp
        by_cases hfile : fileOf s = fileOf t
        · exact Or.inl hfile
        · right
          intro h0
          have := ge.2 ⟨hp, hfile, h0⟩
          omega
      · exact rt_normal p s t hs ht hnk hp
    · obtain ⟨a, b, c⟩ := ge.1 rfl
      exact rt_ep p s t hs ht a b c
    · obtain ⟨a, b⟩ := gc.1 rfl
      rw [← castle_word]
      exact rt_castling p s t hs ht a ((absDiff_two s t).2 b)
  · obtain ⟨e1, e2, e3, _⟩ := promo_fields s t pt hs ht h1 h4
    have ge := g.ep
    have gp := g.promo
    rw [e1, e2, e3] at ge gp
    have hp := (gp.1 rfl).1
    apply rt_promo p s t pt hs ht hp h1 h4
    by_cases hfile : fileOf s = fileOf t
    · exact Or.inl hfile
    · right
      intro h0
      have := ge.2 ⟨hp, hfile, h0⟩
      omega

end Clemens.P16
