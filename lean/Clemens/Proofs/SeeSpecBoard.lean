import Clemens.Proofs.SeeSpecBits
import Clemens.Proofs.MakeMoveMid
/-
C18b — the specification's board during the exchange: the original position minus the pieces that have captured
(`Board`), its occupancy, the specification's least attacker and its `attacked` test in the vocabulary of `attT`.
-/
namespace Clemens.P18
open Clemens

/-- the specification board `q` is the position `p` with the pieces on the squares of `R` removed and a piece on `t` -/
structure Board (p : Pos) (t : Nat) (R : BB) (q : Fide.Pos) : Prop where
  size : q.board.size = 64
  off : ∀ a, a < 64 → a ≠ t → q.at a = if R.getLsbD a = true then 0 else p.at a
  tgt_ne : q.at t ≠ 0
  tgt_code : q.at t ∈ pieceCodes

/-- the occupancy the exchange has reached: everything of `p` except `R` -/
def occOf (p : Pos) (R : BB) : BB := p.all &&& ~~~R

theorem occOf_bit (p : Pos) (R : BB) (a : Nat) (ha : a < 64) :
    (occOf p R).getLsbD a = (p.all.getLsbD a && !R.getLsbD a) := by
  unfold occOf
  rw [BitVec.getLsbD_and, BitVec.getLsbD_not]
  simp [ha]

theorem Board.occ {p : Pos} {t : Nat} {R : BB} {q : Fide.Pos} (hb : Board p t R q) (hw : wfShape p = true)
    (ht : t < 64) (hpt : p.at t ≠ 0) (hRt : R.getLsbD t = false) :
    ∀ u, u < 64 → (q.at u != 0) = (occOf p R).getLsbD u := by
  intro u hu
  rw [occOf_bit p R u hu, all_bit p hw u hu]
  by_cases hut : u = t
  · subst hut
    rw [hRt]
    have e1 : (q.at u != 0) = true := bne_iff_ne.2 hb.tgt_ne
    have e2 : (p.at u != 0) = true := bne_iff_ne.2 hpt
    rw [e1, e2]; rfl
  · rw [hb.off u hu hut]
    cases hR : R.getLsbD u <;> simp

theorem Board.code {p : Pos} {t : Nat} {R : BB} {q : Fide.Pos} (hb : Board p t R q) (hw : wfShape p = true)
    (a : Nat) (ha : a < 64) : q.at a ∈ pieceCodes := by
  by_cases hat : a = t
  · subst hat; exact hb.tgt_code
  · rw [hb.off a ha hat]
    split
    · decide
    · exact wfShape_code' p hw a ha

theorem capBoard_at (q : Fide.Pos) (s t a : Nat) (hsz : q.board.size = 64) (hs : s < 64) (ht : t < 64) :
    (capBoard q s t).at a = if a = t then q.at s else if a = s then 0 else q.at a := by
  unfold capBoard Fide.Pos.at
  simp only [getD_setSq, size_setSq, hsz, hs, ht, and_true]

theorem Board.cap {p : Pos} {t : Nat} {R : BB} {q : Fide.Pos} (hb : Board p t R q) (hw : wfShape p = true)
    (ht : t < 64) (s : Nat) (hs : s < 64) (hst : s ≠ t) (hRs : R.getLsbD s = false) (hps : p.at s ≠ 0) :
    Board p t (R ||| bit s) (capBoard q s t) := by
  have hqs : q.at s = p.at s := by rw [hb.off s hs hst, hRs]; simp
  refine ⟨?_, ?_, ?_, ?_⟩
  · unfold capBoard; simp [hb.size]
  · intro a ha hat
    rw [capBoard_at q s t a hb.size hs ht, if_neg hat, BitVec.getLsbD_or, getLsbD_bit s a hs]
    by_cases has : a = s
    · subst has; simp
    · rw [if_neg has, hb.off a ha hat]; simp [has]
  · rw [capBoard_at q s t t hb.size hs ht, if_pos rfl, hqs]; exact hps
  · rw [capBoard_at q s t t hb.size hs ht, if_pos rfl, hqs]; exact wfShape_code' p hw s hs

/-! ### the common selection function -/

/-- "`a` holds a piece of colour `c` and kind `k` that has not captured yet and attacks `t`" -/
def selF (p : Pos) (t : Nat) (R : BB) (c : Nat) (k a : Nat) : Bool :=
  attT (occOf p R) (p.at a) t a && !R.getLsbD a && (p.at a == newPiece c k)

theorem code_decode : ∀ pc ∈ pieceCodes, ∀ c < 2, ∀ k < 6,
    (pc != 0 && Fide.colorOf pc == c && Fide.kindOf pc == k) = (pc == newPiece c k) := by decide

theorem Board.spec_sel {p : Pos} {t : Nat} {R : BB} {q : Fide.Pos} (hb : Board p t R q) (hw : wfShape p = true)
    (ht : t < 64) (hpt : p.at t ≠ 0) (hRt : R.getLsbD t = false) (c : Nat) (hc : c < 2) :
    ∀ k, k < 6 → ∀ a, a < 64 →
      (Fide.isOwn q c a && Fide.pieceAttacks q a t && (Fide.kindOf (q.at a) == k)) = selF p t R c k a := by
  intro k hk a ha
  rw [pieceAttacks_attT q (occOf p R) (hb.occ hw ht hpt hRt) a t ha ht (hb.code hw a ha)]
  unfold selF
  by_cases hat : a = t
  · subst hat
    rw [attT_self _ _ _ ht, attT_self _ _ _ ht]; simp
  · rw [hb.off a ha hat]
    cases hR : R.getLsbD a with
    | true => simp [attT_zero]
    | false =>
      simp only [Bool.false_eq_true, if_false, Bool.not_false, Bool.and_true]
      unfold Fide.isOwn
      rw [hb.off a ha hat, hR]
      simp only [Bool.false_eq_true, if_false]
      rw [← code_decode (p.at a) (wfShape_code' p hw a ha) c hc k hk]
      cases attT (occOf p R) (p.at a) t a <;> simp

/-- the specification's least attacker on a `Board` -/
theorem Board.leastAttacker {p : Pos} {t : Nat} {R : BB} {q : Fide.Pos} (hb : Board p t R q) (hw : wfShape p = true)
    (ht : t < 64) (hpt : p.at t ≠ 0) (hRt : R.getLsbD t = false) (c : Nat) (hc : c < 2) :
    Fide.leastAttacker q c t = (pick (selF p t R c)).map (·.2) :=
  leastAttacker_pick q c t _ (hb.spec_sel hw ht hpt hRt c hc)

/-- the specification's `attacked` on a `Board` -/
theorem Board.attacked_iff {p : Pos} {t : Nat} {R : BB} {q : Fide.Pos} (hb : Board p t R q) (hw : wfShape p = true)
    (ht : t < 64) (hpt : p.at t ≠ 0) (hRt : R.getLsbD t = false) (c : Nat) :
    Fide.attacked q c t = true ↔
      ∃ a, a < 64 ∧ a ≠ t ∧ R.getLsbD a = false ∧ p.at a ≠ 0 ∧ Fide.colorOf (p.at a) = c ∧
        attT (occOf p R) (p.at a) t a = true := by
  unfold Fide.attacked Fide.attackers
  rw [isEmpty_filter_not, List.any_eq_true]
  constructor
  · rintro ⟨a, ha, h⟩
    have ha := List.mem_range.1 ha
    rw [Bool.and_eq_true, pieceAttacks_attT q (occOf p R) (hb.occ hw ht hpt hRt) a t ha ht (hb.code hw a ha)] at h
    obtain ⟨hown, hatt⟩ := h
    have hat : a ≠ t := by
      intro e; subst e; rw [attT_self _ _ _ ht] at hatt; cases hatt
    unfold Fide.isOwn at hown
    rw [hb.off a ha hat] at hown hatt
    cases hR : R.getLsbD a with
    | true => rw [hR] at hown; simp at hown
    | false =>
      rw [hR] at hown hatt
      simp only [Bool.false_eq_true, if_false, Bool.and_eq_true, bne_iff_ne, ne_eq, beq_iff_eq] at hown hatt
      exact ⟨a, ha, hat, hR, hown.1, hown.2, hatt⟩
  · rintro ⟨a, ha, hat, hR, h0, hc, hatt⟩
    refine ⟨a, List.mem_range.2 ha, ?_⟩
    rw [Bool.and_eq_true, pieceAttacks_attT q (occOf p R) (hb.occ hw ht hpt hRt) a t ha ht (hb.code hw a ha)]
    unfold Fide.isOwn
    rw [hb.off a ha hat, hR]
    simp only [Bool.false_eq_true, if_false, Bool.and_eq_true, bne_iff_ne, ne_eq, beq_iff_eq]
    exact ⟨⟨h0, hc⟩, hatt⟩

theorem leastAttacker_none_of_not_attacked (q : Fide.Pos) (c t : Nat) (h : Fide.attacked q c t = false) :
    Fide.leastAttacker q c t = none := by
  unfold Fide.attacked at h
  have he : Fide.attackers q c t = [] := by
    cases hl : Fide.attackers q c t with
    | nil => rfl
    | cons x l => rw [hl] at h; simp at h
  unfold Fide.leastAttacker
  simp only [he, List.find?_nil]
  rw [List.findSome?_eq_none_iff]
  intro _ _; rfl

end Clemens.P18
