import Clemens.Model.Pos
/-
Lemma library for C09: the Zobrist hash computed from scratch (`fullHash`) decomposed into its four
components, and how each component reacts to the primitive updates of the position.
-/
namespace Clemens.Hash

/-! ### xor-folds over lists -/

theorem foldl_xor_init {α : Type} (f : α → BB) (l : List α) (a : BB) :
    l.foldl (fun h s => h ^^^ f s) a = a ^^^ l.foldl (fun h s => h ^^^ f s) 0#64 := by
  induction l generalizing a with
  | nil => simp
  | cons x xs ih =>
    simp only [List.foldl_cons]
    rw [ih (a ^^^ f x), ih (0#64 ^^^ f x)]
    simp [BitVec.xor_assoc]

theorem foldl_xor_congr {α : Type} (f g : α → BB) (l : List α) (a : BB) (h : ∀ x ∈ l, f x = g x) :
    l.foldl (fun h s => h ^^^ f s) a = l.foldl (fun h s => h ^^^ g s) a := by
  induction l generalizing a with
  | nil => rfl
  | cons x xs ih =>
    simp only [List.foldl_cons]
    rw [h x (by simp), ih _ (fun y hy => h y (by simp [hy]))]

/-- changing the summand at exactly one (non-repeated) index changes the fold by `old ^^^ new` -/
theorem foldl_xor_update {α : Type} [DecidableEq α] (f g : α → BB) (l : List α) (s : α) (hnd : l.Nodup) (hs : s ∈ l)
    (h : ∀ x ∈ l, x ≠ s → f x = g x) :
    l.foldl (fun h s => h ^^^ g s) 0#64 = l.foldl (fun h s => h ^^^ f s) 0#64 ^^^ f s ^^^ g s := by
  induction l with
  | nil => simp at hs
  | cons x xs ih =>
    simp only [List.foldl_cons]
    rw [foldl_xor_init g xs, foldl_xor_init f xs]
    have hx : x ∉ xs := (List.nodup_cons.mp hnd).1
    have hxs : xs.Nodup := (List.nodup_cons.mp hnd).2
    by_cases hxs' : x = s
    · subst hxs'
      have : xs.foldl (fun h s => h ^^^ g s) 0#64 = xs.foldl (fun h s => h ^^^ f s) 0#64 := by
        apply foldl_xor_congr
        intro y hy
        exact (h y (by simp [hy]) (fun e => hx (e ▸ hy))).symm
      rw [this]
      simp only [BitVec.zero_xor]
      generalize xs.foldl (fun h s => h ^^^ f s) 0#64 = A
      generalize f x = B
      generalize g x = C
      have : B ^^^ A ^^^ B ^^^ C = (B ^^^ B) ^^^ (C ^^^ A) := by ac_rfl
      rw [this]; simp
    · have hs' : s ∈ xs := by
        rcases List.mem_cons.mp hs with e | e
        · exact absurd e.symm hxs'
        · exact e
      rw [ih hxs hs' (fun y hy hne => h y (by simp [hy]) hne), h x (by simp) hxs']
      simp only [BitVec.zero_xor]
      generalize xs.foldl (fun h s => h ^^^ f s) 0#64 = A
      generalize f s = B
      generalize g s = C
      generalize g x = D
      ac_rfl

/-! ### the four components of `fullHash` -/

/-- contribution of the content `pc` of square `s` (nothing for an empty square) -/
def pieceKey (K : Keys) (s pc : Nat) : BB :=
  if pc != 0 then K.piece s (pieceColor pc) (pieceType pc) else 0#64

def boardHash (K : Keys) (b : Vector Nat 64) : BB :=
  (List.range 64).foldl (fun h s => h ^^^ pieceKey K s (vget b s 0)) 0#64

def sideHash (K : Keys) (side : Nat) : BB := if side = 1 then K.side else 0#64

def castHash (K : Keys) (c : Nat) : BB :=
  (if c &&& 1 != 0 then K.castling 0 else 0#64) ^^^ (if c &&& 2 != 0 then K.castling 1 else 0#64) ^^^
  (if c &&& 4 != 0 then K.castling 2 else 0#64) ^^^ (if c &&& 8 != 0 then K.castling 3 else 0#64)

def epHash (K : Keys) (ep : Nat) : BB := if ep != 64 then K.ep (fileOf ep) else 0#64

theorem ite_xor_eq (c : Prop) [Decidable c] (h k : BB) : (if c then h ^^^ k else h) = h ^^^ (if c then k else 0#64) := by
  split <;> simp

theorem fullHash_eq (K : Keys) (p : Pos) :
    fullHash K p = boardHash K p.board ^^^ sideHash K p.side ^^^ castHash K p.castling ^^^ epHash K p.ep := by
  have hb : (List.range 64).foldl (fun h s =>
        let pc := p.at s
        if pc != 0 then h ^^^ K.piece s (pieceColor pc) (pieceType pc) else h) 0#64 = boardHash K p.board := by
    unfold boardHash
    congr 1
    funext h s
    simp only [pieceKey, Pos.at]
    split <;> simp_all
  have hite : ∀ (c : Prop) [Decidable c] (h k : BB), (if c then h ^^^ k else h) = h ^^^ (if c then k else 0#64) := by
    intro c _ h k; split <;> simp
  unfold fullHash
  simp only [hb]
  simp only [castlingRights, List.foldl_cons, List.foldl_nil, sideHash, castHash, epHash, hite]
  ac_rfl

/-! ### `vget` / `vset` -/

theorem vget_vset_self {α : Type} {n : Nat} (v : Vector α n) (i : Nat) (x d : α) (h : i < n) : vget (vset v i x) i d = x := by
  simp [vget, vset, h]

theorem vget_vset_ne {α : Type} {n : Nat} (v : Vector α n) (i j : Nat) (x d : α) (h : j ≠ i) : vget (vset v i x) j d = vget v j d := by
  simp [vget, vset, Ne.symm h]

/-- the board-update lemma: writing `x` into square `s` changes the placement hash by `key(old) ^^^ key(new)` -/
theorem boardHash_vset (K : Keys) (b : Vector Nat 64) (s x : Nat) (hs : s < 64) :
    boardHash K (vset b s x) = boardHash K b ^^^ pieceKey K s (vget b s 0) ^^^ pieceKey K s x := by
  have := foldl_xor_update (fun i => pieceKey K i (vget b i 0)) (fun i => pieceKey K i (vget (vset b s x) i 0))
    (List.range 64) s List.nodup_range (List.mem_range.mpr hs)
    (fun i _ hne => by simp only [vget_vset_ne _ _ _ _ _ hne])
  simp only [vget_vset_self _ _ _ _ hs] at this
  exact this

/-! ### primitive updates -/

theorem validPiece_ne_zero {pc : Nat} (h : validPiece pc = true) : pc ≠ 0 := by
  intro e; subst e; revert h; decide

theorem pieceKey_valid (K : Keys) (s pc : Nat) (h : validPiece pc = true) :
    pieceKey K s pc = K.piece s (pieceColor pc) (pieceType pc) := by
  simp [pieceKey, validPiece_ne_zero h]

@[simp] theorem pieceKey_zero (K : Keys) (s : Nat) : pieceKey K s 0 = 0#64 := by simp [pieceKey]

theorem xor_cancel_right (a b : BB) : a ^^^ b ^^^ b = a := by
  rw [BitVec.xor_assoc, BitVec.xor_self, BitVec.xor_zero]

theorem setPiece_hash_eq (K : Keys) (p q : Pos) (pc s : Nat) (h : setPiece K p pc s = some q) (he : p.at s = 0)
    (hok : p.hash = fullHash K p) : q.hash = fullHash K q := by
  unfold setPiece at h
  split at h
  · rename_i hc
    simp only [Bool.and_eq_true, decide_eq_true_eq] at hc
    obtain ⟨hs, hv⟩ := hc
    injection h with h
    subst h
    simp only [fullHash_eq] at hok ⊢
    simp only [Pos.at] at he
    rw [boardHash_vset K p.board s pc hs, he, pieceKey_zero, pieceKey_valid K s pc hv, hok]
    simp only [BitVec.xor_zero]
    ac_rfl
  · exact absurd h (by simp)

theorem deletePiece_hash_eq (K : Keys) (p q : Pos) (s pc : Nat) (h : deletePiece K p s = some (q, pc))
    (hok : p.hash = fullHash K p) : q.hash = fullHash K q := by
  unfold deletePiece at h
  simp only at h
  split at h
  · rename_i hc
    simp only [Bool.and_eq_true, decide_eq_true_eq] at hc
    obtain ⟨hs, hv⟩ := hc
    injection h with h
    injection h with h1 h2
    subst h1
    simp only [fullHash_eq] at hok ⊢
    rw [boardHash_vset K p.board s 0 hs, pieceKey_zero, hok]
    have : pieceKey K s (vget p.board s 0) = K.piece s (pieceColor (p.at s)) (pieceType (p.at s)) :=
      pieceKey_valid K s _ hv
    rw [this]
    simp only [BitVec.xor_zero]
    ac_rfl
  · exact absurd h (by simp)

theorem setPiece_some (K : Keys) (p q : Pos) (pc s : Nat) (h : setPiece K p pc s = some q) :
    s < 64 ∧ validPiece pc = true ∧ q.board = vset p.board s pc ∧ q.side = p.side ∧ q.castling = p.castling ∧ q.ep = p.ep := by
  unfold setPiece at h
  split at h
  · rename_i hc
    simp only [Bool.and_eq_true, decide_eq_true_eq] at hc
    injection h with h
    subst h
    exact ⟨hc.1, hc.2, rfl, rfl, rfl, rfl⟩
  · exact absurd h (by simp)

theorem deletePiece_some (K : Keys) (p q : Pos) (s pc : Nat) (h : deletePiece K p s = some (q, pc)) :
    s < 64 ∧ pc = p.at s ∧ validPiece pc = true ∧ q.board = vset p.board s 0 ∧ q.side = p.side ∧ q.castling = p.castling ∧ q.ep = p.ep := by
  unfold deletePiece at h
  simp only at h
  split at h
  · rename_i hc
    simp only [Bool.and_eq_true, decide_eq_true_eq] at hc
    injection h with h
    injection h with h1 h2
    subst h1 h2
    exact ⟨hc.1, rfl, hc.2, rfl, rfl, rfl, rfl⟩
  · exact absurd h (by simp)

theorem movePiece_some (K : Keys) (p q : Pos) (f t pc : Nat) (h : movePiece K p f t = some (q, pc)) :
    ∃ r, deletePiece K p f = some (r, pc) ∧ setPiece K r pc t = some q := by
  unfold movePiece at h
  simp only [Option.bind_eq_bind, Option.pure_def, Option.bind_eq_some_iff] at h
  obtain ⟨⟨r, pc'⟩, h1, q', h2, h3⟩ := h
  simp only [Option.some.injEq, Prod.mk.injEq] at h3
  obtain ⟨rfl, rfl⟩ := h3
  exact ⟨r, h1, h2⟩

/-- moving a piece keeps the hash right as soon as the destination is empty (or is the source itself) -/
theorem movePiece_hash_eq (K : Keys) (p q : Pos) (f t pc : Nat) (h : movePiece K p f t = some (q, pc))
    (he : p.at t = 0 ∨ t = f) (hok : p.hash = fullHash K p) : q.hash = fullHash K q := by
  obtain ⟨r, h1, h2⟩ := movePiece_some K p q f t pc h
  have hr := deletePiece_hash_eq K p r f pc h1 hok
  obtain ⟨hf, _, _, hb, _⟩ := deletePiece_some K p r f pc h1
  refine setPiece_hash_eq K r q pc t h2 ?_ hr
  simp only [Pos.at, hb]
  by_cases e : t = f
  · subst e; exact vget_vset_self _ _ _ _ hf
  · rw [vget_vset_ne _ _ _ _ _ e]
    rcases he with he | he
    · exact he
    · exact absurd he e

/-! ### castling rights -/

theorem castHash_remove (K : Keys) (c r idx : Nat) (hci : (r, idx) ∈ castlingRights) (hne : c &&& r ≠ 0) :
    castHash K (c &&& (15 - r)) = castHash K c ^^^ K.castling idx := by
  suffices h : castHash K c = castHash K (c &&& (15 - r)) ^^^ K.castling idx by rw [h, xor_cancel_right]
  simp only [castlingRights, List.mem_cons, Prod.mk.injEq, List.mem_nil_iff, or_false] at hci
  have e1 : ∀ a b : Nat, c &&& a &&& b = c &&& (a &&& b) := fun a b => Nat.and_assoc c a b
  rcases hci with ⟨rfl, rfl⟩ | ⟨rfl, rfl⟩ | ⟨rfl, rfl⟩ | ⟨rfl, rfl⟩ <;>
  · simp only [castHash, e1, bne_iff_ne, ne_eq]
    simp only [show (15 - 1 : Nat) = 14 from rfl, show (15 - 2 : Nat) = 13 from rfl, show (15 - 4 : Nat) = 11 from rfl, show (15 - 8 : Nat) = 7 from rfl,
      show (14 &&& 1 : Nat) = 0 from rfl, show (14 &&& 2 : Nat) = 2 from rfl, show (14 &&& 4 : Nat) = 4 from rfl, show (14 &&& 8 : Nat) = 8 from rfl,
      show (13 &&& 1 : Nat) = 1 from rfl, show (13 &&& 2 : Nat) = 0 from rfl, show (13 &&& 4 : Nat) = 4 from rfl, show (13 &&& 8 : Nat) = 8 from rfl,
      show (11 &&& 1 : Nat) = 1 from rfl, show (11 &&& 2 : Nat) = 2 from rfl, show (11 &&& 4 : Nat) = 0 from rfl, show (11 &&& 8 : Nat) = 8 from rfl,
      show (7 &&& 1 : Nat) = 1 from rfl, show (7 &&& 2 : Nat) = 2 from rfl, show (7 &&& 4 : Nat) = 4 from rfl, show (7 &&& 8 : Nat) = 0 from rfl,
      Nat.and_zero, not_true_eq_false, if_false, hne, not_false_eq_true, if_true]
    try simp only [BitVec.xor_zero, BitVec.zero_xor]
    try ac_rfl

theorem removeCastling_hash_eq (K : Keys) (p : Pos) (c idx : Nat) (hci : (c, idx) ∈ castlingRights)
    (hok : p.hash = fullHash K p) : (removeCastling K p c idx).hash = fullHash K (removeCastling K p c idx) := by
  unfold removeCastling
  split
  · exact hok
  · rename_i hne
    simp only [beq_iff_eq] at hne
    simp only [fullHash_eq] at hok ⊢
    rw [castHash_remove K p.castling c idx hci hne, hok]
    ac_rfl

theorem removeCastling_frame (K : Keys) (p : Pos) (c idx : Nat) :
    (removeCastling K p c idx).board = p.board ∧ (removeCastling K p c idx).side = p.side ∧ (removeCastling K p c idx).ep = p.ep := by
  unfold removeCastling
  split <;> exact ⟨rfl, rfl, rfl⟩

theorem touchSquare_hash_eq (K : Keys) (p : Pos) (s : Nat) (hok : p.hash = fullHash K p) :
    (touchSquare K p s).hash = fullHash K (touchSquare K p s) := by
  have m0 : ((1, 0) : Nat × Nat) ∈ castlingRights := by decide
  have m1 : ((2, 1) : Nat × Nat) ∈ castlingRights := by decide
  have m2 : ((4, 2) : Nat × Nat) ∈ castlingRights := by decide
  have m3 : ((8, 3) : Nat × Nat) ∈ castlingRights := by decide
  unfold touchSquare
  repeat' split
  all_goals first
    | exact hok
    | exact removeCastling_hash_eq K _ _ _ (by assumption) (removeCastling_hash_eq K _ _ _ (by assumption) hok)
    | exact removeCastling_hash_eq K _ _ _ (by assumption) hok

theorem touchSquare_frame (K : Keys) (p : Pos) (s : Nat) :
    (touchSquare K p s).board = p.board ∧ (touchSquare K p s).side = p.side ∧ (touchSquare K p s).ep = p.ep := by
  unfold touchSquare
  repeat' split
  all_goals simp only [removeCastling_frame, and_self]

end Clemens.Hash
