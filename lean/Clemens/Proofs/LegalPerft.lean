import Clemens.Proofs.LegalWF
/-
C01 lemmas for perft: the specification's own move lists (`Fide.pseudoMoves`, `Fide.legalMoves`) have no duplicates in a
well-formed position — rays, leapers, pawns, castling — and the node counts agree.
-/
namespace Clemens
namespace LG
open GM


/-! ### the specification's move list has no duplicates: rays -/

theorem step_inj (d : Dir) (k k' s t : Nat) (h : Geo.step d k s = some t) (h' : Geo.step d k' s = some t) : k = k' := by
  rw [step_eq_some] at h h'
  obtain ⟨b, e⟩ := h
  obtain ⟨b', e'⟩ := h'
  unfold Geo.onB at b b'
  cases d <;> simp only [Dir.df, Dir.dr] at b b' e e' <;> omega

theorem step_dir_inj (d d' : Dir) (k k' s t : Nat) (hk : 1 ≤ k) (hk' : 1 ≤ k') (h : Geo.step d k s = some t)
    (h' : Geo.step d' k' s = some t) : d = d' := by
  rw [step_eq_some] at h h'
  obtain ⟨b, e⟩ := h
  obtain ⟨b', e'⟩ := h'
  unfold Geo.onB at b b'
  cases d <;> cases d' <;> first | rfl | (exfalso; simp only [Dir.df, Dir.dr] at b b' e e'; omega)

theorem rayGo_nodup (P : Fide.Pos) (d : Dir) (s : Nat) : ∀ fuel k, (Fide.rayFrom.go P d s fuel k).Nodup := by
  intro fuel
  induction fuel with
  | zero => intro k; unfold Fide.rayFrom.go; exact List.nodup_nil
  | succ n ih =>
    intro k
    unfold Fide.rayFrom.go
    cases hs : Geo.step d k s with
    | none => exact List.nodup_nil
    | some t =>
      simp only
      split
      · exact List.pairwise_singleton _ _
      · rw [List.nodup_cons]
        refine ⟨?_, ih (k + 1)⟩
        intro hmem
        rw [mem_rayGo] at hmem
        obtain ⟨j, _, hj, _⟩ := hmem
        have := step_inj d _ _ s t hs hj
        omega

theorem ray_nodup (P : Fide.Pos) (d : Dir) (s : Nat) : (Fide.rayFrom P d s).Nodup := rayGo_nodup P d s 7 1

theorem ray_disjoint (P : Fide.Pos) (d d' : Dir) (s t : Nat) (h : t ∈ Fide.rayFrom P d s) (h' : t ∈ Fide.rayFrom P d' s) :
    d = d' := by
  unfold Fide.rayFrom at h h'
  rw [mem_rayGo] at h h'
  obtain ⟨j, _, hj, _⟩ := h
  obtain ⟨j', _, hj', _⟩ := h'
  exact step_dir_inj d d' _ _ s t (by omega) (by omega) hj hj'

theorem slider_nodup (P : Fide.Pos) (s : Nat) (dirs : List Dir) (hd : dirs.Nodup) : (Fide.sliderMoves P s dirs).Nodup := by
  unfold Fide.sliderMoves List.Nodup
  rw [List.pairwise_flatMap]
  constructor
  · intro d _
    apply List.Pairwise.filterMap _ _ (ray_nodup P d s)
    intro t t' hne b hb b' hb' e
    subst e
    split at hb
    · cases hb
    · split at hb'
      · cases hb'
      · injection hb with hb; injection hb' with hb'
        rw [← hb'] at hb
        injection hb with _ h2 _
        exact hne h2
  · refine List.Pairwise.imp ?_ hd
    intro d d' hne x hx y hy e
    subst e
    rw [List.mem_filterMap] at hx hy
    obtain ⟨t, ht, hx⟩ := hx
    obtain ⟨t', ht', hy⟩ := hy
    split at hx
    · cases hx
    · split at hy
      · cases hy
      · injection hx with hx; injection hy with hy
        rw [← hy] at hx
        injection hx with _ h2 _
        subst h2
        exact hne (ray_disjoint P d d' s t ht ht')

/-! ### leapers -/

theorem offset_inj (o o' : Int × Int) (s t : Nat) (h : Geo.offset o.1 o.2 s = some t) (h' : Geo.offset o'.1 o'.2 s = some t) :
    o = o' := by
  have c := offset_coords _ _ _ _ h
  have c' := offset_coords _ _ _ _ h'
  have h1 : o.1 = o'.1 := by omega
  have h2 : o.2 = o'.2 := by omega
  exact Prod.ext h1 h2

theorem leaper_nodup (P : Fide.Pos) (s : Nat) (offs : List (Int × Int)) (ho : offs.Nodup) : (Fide.leaperMoves P s offs).Nodup := by
  unfold Fide.leaperMoves
  apply List.Pairwise.filterMap _ _ ho
  intro o o' hne b hb b' hb' e
  subst e
  cases h1 : Geo.offset o.1 o.2 s with
  | none => rw [h1] at hb; cases hb
  | some t =>
    cases h2 : Geo.offset o'.1 o'.2 s with
    | none => rw [h2] at hb'; cases hb'
    | some t' =>
      rw [h1] at hb; rw [h2] at hb'
      simp only at hb hb'
      split at hb
      · cases hb
      · split at hb'
        · cases hb'
        · injection hb with hb; injection hb' with hb'
          rw [← hb'] at hb
          injection hb with _ h3 _
          subst h3
          exact hne (offset_inj o o' s t h1 h2)



/-! ### pawns -/

theorem pawn_push_nodup (P : Fide.Pos) (s : Nat) (dr : Int) (hdr : dr ≠ 0) (home : Nat) (W : Nat → List Fide.Move)
    (hWnd : ∀ t, (W t).Nodup) (hWt : ∀ t x, x ∈ W t → x.tgt = t) :
    (match Geo.offset 0 dr s with
      | some t1 => if P.at t1 != 0 then [] else W t1 ++
          (if rankOf s = home then match Geo.offset 0 (2 * dr) s with
            | some t2 => if P.at t2 == 0 then [(⟨s, t2, none⟩ : Fide.Move)] else []
            | none => [] else [])
      | none => []).Nodup ∧
    ∀ x, x ∈ (match Geo.offset 0 dr s with
      | some t1 => if P.at t1 != 0 then [] else W t1 ++
          (if rankOf s = home then match Geo.offset 0 (2 * dr) s with
            | some t2 => if P.at t2 == 0 then [(⟨s, t2, none⟩ : Fide.Move)] else []
            | none => [] else [])
      | none => []) → fileOf x.tgt = fileOf s := by
  cases h1 : Geo.offset 0 dr s with
  | none => exact ⟨List.nodup_nil, fun x hx => by cases hx⟩
  | some t1 =>
    have c1 := offset_coords _ _ _ _ h1
    simp only
    split
    · exact ⟨List.nodup_nil, fun x hx => by cases hx⟩
    · have hX : ∀ y, y ∈ (if rankOf s = home then match Geo.offset 0 (2 * dr) s with
            | some t2 => if P.at t2 == 0 then [(⟨s, t2, none⟩ : Fide.Move)] else []
            | none => [] else []) → ∃ t2, Geo.offset 0 (2 * dr) s = some t2 ∧ y = ⟨s, t2, none⟩ := by
        intro y hy
        split at hy
        · cases h2 : Geo.offset 0 (2 * dr) s with
          | none => rw [h2] at hy; cases hy
          | some t2 =>
            rw [h2] at hy
            simp only at hy
            split at hy
            · rw [List.mem_singleton] at hy; exact ⟨t2, rfl, hy⟩
            · cases hy
        · cases hy
      have hXnd : (if rankOf s = home then match Geo.offset 0 (2 * dr) s with
            | some t2 => if P.at t2 == 0 then [(⟨s, t2, none⟩ : Fide.Move)] else []
            | none => [] else []).Nodup := by
        split
        · split
          · split
            · exact List.pairwise_singleton _ _
            · exact List.nodup_nil
          · exact List.nodup_nil
        · exact List.nodup_nil
      constructor
      · apply nodup_append_of _ _ (hWnd t1) hXnd
        intro x hx hy
        obtain ⟨t2, h2, rfl⟩ := hX x hy
        have c2 := offset_coords _ _ _ _ h2
        have := hWt t1 _ hx
        simp only at this
        subst this
        omega
      · intro x hx
        rw [List.mem_append] at hx
        rcases hx with hx | hx
        · rw [hWt t1 x hx]; omega
        · obtain ⟨t2, h2, rfl⟩ := hX x hx
          have c2 := offset_coords _ _ _ _ h2
          simp only; omega

theorem pawn_cap_nodup (P : Fide.Pos) (s : Nat) (df dr : Int) (enemy : Nat) (W : Nat → List Fide.Move)
    (hWnd : ∀ t, (W t).Nodup) (hWt : ∀ t x, x ∈ W t → x.tgt = t) :
    (match Geo.offset df dr s with
      | some t => if Fide.isOwn P enemy t then W t else if P.ep == some t && P.at t == 0 then [(⟨s, t, none⟩ : Fide.Move)] else []
      | none => []).Nodup ∧
    ∀ x, x ∈ (match Geo.offset df dr s with
      | some t => if Fide.isOwn P enemy t then W t else if P.ep == some t && P.at t == 0 then [(⟨s, t, none⟩ : Fide.Move)] else []
      | none => []) → ((fileOf x.tgt : Nat) : Int) = (fileOf s : Nat) + df := by
  cases h1 : Geo.offset df dr s with
  | none => exact ⟨List.nodup_nil, fun x hx => by cases hx⟩
  | some t =>
    have c1 := offset_coords _ _ _ _ h1
    simp only
    split
    · exact ⟨hWnd t, fun x hx => by rw [hWt t x hx]; exact c1.2.1⟩
    · split
      · refine ⟨List.pairwise_singleton _ _, fun x hx => ?_⟩
        rw [List.mem_singleton] at hx; subst hx; exact c1.2.1
      · exact ⟨List.nodup_nil, fun x hx => by cases hx⟩

theorem pawn_nodup_core (P : Fide.Pos) (s : Nat) (dr : Int) (hdr : dr ≠ 0) (home enemy : Nat) (W : Nat → List Fide.Move)
    (hWnd : ∀ t, (W t).Nodup) (hWt : ∀ t x, x ∈ W t → x.tgt = t) :
    ((match Geo.offset 0 dr s with
      | some t1 => if P.at t1 != 0 then [] else W t1 ++
          (if rankOf s = home then match Geo.offset 0 (2 * dr) s with
            | some t2 => if P.at t2 == 0 then [(⟨s, t2, none⟩ : Fide.Move)] else []
            | none => [] else [])
      | none => []) ++
      (([1, -1] : List Int).flatMap fun df => match Geo.offset df dr s with
        | some t => if Fide.isOwn P enemy t then W t else if P.ep == some t && P.at t == 0 then [(⟨s, t, none⟩ : Fide.Move)] else []
        | none => [])).Nodup := by
  obtain ⟨p1, p2⟩ := pawn_push_nodup P s dr hdr home W hWnd hWt
  obtain ⟨a1, a2⟩ := pawn_cap_nodup P s 1 dr enemy W hWnd hWt
  obtain ⟨b1, b2⟩ := pawn_cap_nodup P s (-1) dr enemy W hWnd hWt
  simp only [List.flatMap_cons, List.flatMap_nil, List.append_nil]
  apply nodup_append_of _ _ p1
  · apply nodup_append_of _ _ a1 b1
    intro x hx hy
    have := a2 x hx; have := b2 x hy; omega
  · intro x hx hy
    have := p2 x hx
    rw [List.mem_append] at hy
    rcases hy with hy | hy
    · have := a2 x hy; omega
    · have := b2 x hy; omega

theorem withPromo_nodup (s : Nat) (last : Nat) (t : Nat) :
    (if rankOf t = last then Fide.promoKinds.map fun k => (⟨s, t, some k⟩ : Fide.Move) else [⟨s, t, none⟩]).Nodup ∧
    ∀ x, x ∈ (if rankOf t = last then Fide.promoKinds.map fun k => (⟨s, t, some k⟩ : Fide.Move) else [⟨s, t, none⟩]) →
      x.tgt = t ∧ x.src = s := by
  split
  · refine ⟨nodup_map_key _ _ (fun x : Fide.Move => x.promo.getD 0) (by decide) (fun k _ => rfl), fun x hx => ?_⟩
    rw [List.mem_map] at hx
    obtain ⟨k, _, rfl⟩ := hx
    exact ⟨rfl, rfl⟩
  · refine ⟨List.pairwise_singleton _ _, fun x hx => ?_⟩
    rw [List.mem_singleton] at hx; subst hx; exact ⟨rfl, rfl⟩

theorem pawnMoves_nodup (P : Fide.Pos) (s : Nat) : (Fide.pawnMoves P s).Nodup := by
  by_cases h0 : P.side = 0
  · have := pawn_nodup_core P s 1 (by decide) 1 (Fide.other 0)
      (fun t => if rankOf t = 7 then Fide.promoKinds.map fun k => (⟨s, t, some k⟩ : Fide.Move) else [⟨s, t, none⟩])
      (fun t => (withPromo_nodup s 7 t).1) (fun t x hx => ((withPromo_nodup s 7 t).2 x hx).1)
    unfold Fide.pawnMoves
    rw [h0]
    exact this
  · have := pawn_nodup_core P s (-1) (by decide) 6 (Fide.other P.side)
      (fun t => if rankOf t = 0 then Fide.promoKinds.map fun k => (⟨s, t, some k⟩ : Fide.Move) else [⟨s, t, none⟩])
      (fun t => (withPromo_nodup s 0 t).1) (fun t x hx => ((withPromo_nodup s 0 t).2 x hx).1)
    unfold Fide.pawnMoves
    simp only [h0, if_false]
    exact this



/-! ### the whole list -/

/-- the moves of the piece on `s` in the specification -/
def specFrom (P : Fide.Pos) (s : Nat) : List Fide.Move :=
  if !Fide.isOwn P P.side s then [] else
    let k := Fide.kindOf (P.at s)
    if k = 0 then Fide.pawnMoves P s
    else if k = 1 then Fide.leaperMoves P s Geo.knightOffsets
    else if k = 5 then Fide.leaperMoves P s Geo.kingOffsets
    else Fide.sliderMoves P s (Fide.dirsOfKind k)

theorem pseudoMoves_eq (P : Fide.Pos) : Fide.pseudoMoves P = (List.range 64).flatMap (specFrom P) ++ Fide.castlingMoves P := rfl

theorem dirsOfKind_nodup (k : Nat) : (Fide.dirsOfKind k).Nodup := by
  unfold Fide.dirsOfKind
  split
  · decide
  · split
    · decide
    · split
      · decide
      · exact List.nodup_nil

theorem specFrom_nodup (P : Fide.Pos) (s : Nat) : (specFrom P s).Nodup := by
  unfold specFrom
  split
  · exact List.nodup_nil
  · simp only
    split
    · exact pawnMoves_nodup P s
    · split
      · exact leaper_nodup P s _ (by decide)
      · split
        · exact leaper_nodup P s _ (by decide)
        · exact slider_nodup P s _ (dirsOfKind_nodup _)

theorem pawnMoves_src (p : Pos) (hw : WF p = true) (s : Nat) (x : Fide.Move) (h : x ∈ Fide.pawnMoves (absPos p) s) :
    x.src = s := by
  obtain ⟨hsh, hst, hch⟩ := WF_parts p hw
  obtain ⟨hside, _, hep64⟩ := state_parts p hst
  have hep : ∀ e, (absPos p).ep = some e → (absPos p).at e = 0 := by
    intro e he
    rw [absPos_ep p e hep64] at he
    rw [GM.absPos_at, he.2.1]
    exact ep_empty p hch he.1
  rw [pawnMoves_iff (absPos p) p.all (all_iff p hsh) hside hep s] at h
  obtain ⟨t, h⟩ := h
  rcases h with ⟨_, hW⟩ | ⟨_, _, hW⟩ | ⟨_, _, hW⟩
  · exact (mem_Wp _ _ _ _ hW).1
  · exact (mem_Wp _ _ _ _ hW).1
  · rw [hW]

theorem specFrom_src (p : Pos) (hw : WF p = true) (s : Nat) (x : Fide.Move) (h : x ∈ specFrom (absPos p) s) : x.src = s := by
  unfold specFrom at h
  split at h
  · cases h
  · simp only at h
    split at h
    · exact pawnMoves_src p hw s x h
    · split at h
      · rw [mem_leaperMoves] at h; obtain ⟨t, _, _, rfl⟩ := h; rfl
      · split at h
        · rw [mem_leaperMoves] at h; obtain ⟨t, _, _, rfl⟩ := h; rfl
        · rw [mem_sliderMoves] at h; obtain ⟨t, _, _, rfl⟩ := h; rfl

theorem pseudoMoves_nodup (p : Pos) (hw : WF p = true) : (Fide.pseudoMoves (absPos p)).Nodup := by
  rw [pseudoMoves_eq]
  apply nodup_append_of
  · exact nodup_flatMap_key _ _ Fide.Move.src List.nodup_range (fun s _ => specFrom_nodup _ s)
      (fun s _ x hx => specFrom_src p hw s x hx)
  · rw [← genCastling_exact p hw]; exact genCastling_nodup p hw
  · intro x h1 h2
    rw [← genCastling_exact p hw] at h2
    obtain ⟨c1, c2, c3, c4⟩ := castling_form p hw x h2
    rw [List.mem_flatMap] at h1
    obtain ⟨s, hs, hx⟩ := h1
    have hsrc := specFrom_src p hw s x hx
    subst hsrc
    unfold srcKind at c1
    unfold specFrom at hx
    split at hx
    · cases hx
    · simp only [c1] at hx
      rw [if_neg (by decide), if_neg (by decide), if_pos trivial, mem_leaperMoves] at hx
      obtain ⟨t, hstep, _, hxe⟩ := hx
      have ht : x.tgt = t := by rw [hxe]
      rw [ht] at c3 c4
      exact no_king_two _ c2 t c3 hstep c4

theorem legalMoves_nodup (p : Pos) (hw : WF p = true) : (Fide.legalMoves (absPos p)).Nodup :=
  List.Nodup.sublist List.filter_sublist (pseudoMoves_nodup p hw)

/-! ### perft -/

theorem perft_succ (K : Keys) (p : Pos) (hw : WF p = true) (hr : p.ply < 255 ∧ p.hmc < 255) (F : Fide.Pos → Nat)
    (G : Pos → Nat) (hFG : ∀ m q, (m, q) ∈ engineLegal K p → G q = F (absPos q)) :
    ((engineLegal K p).map fun mq => G mq.2).sum = ((Fide.legalMoves (absPos p)).map fun mv => F (Fide.apply (absPos p) mv)).sum := by
  have h1 : (engineLegal K p).map (fun mq => G mq.2) =
      ((engineLegal K p).map (fun mq => absMove mq.1)).map (fun mv => F (Fide.apply (absPos p) mv)) := by
    rw [List.map_map]
    apply List.map_congr_left
    rintro ⟨m, q⟩ hmq
    simp only [Function.comp]
    rw [hFG m q hmq]
    obtain ⟨hm, hq, _⟩ := (mem_engineLegal K p m q).1 hmq
    obtain ⟨q', hq', habs, _⟩ := succ_exists K p hw hr m hm
    rw [hq] at hq'
    injection hq' with hq'
    rw [hq', habs]
  rw [h1]
  apply List.Perm.sum_nat
  apply List.Perm.map
  rw [List.perm_ext_iff_of_nodup (engineLegal_nodup K p hw) (legalMoves_nodup p hw)]
  exact engineLegal_mem K p hw hr

theorem succ_counters (K : Keys) (p : Pos) (hw : WF p = true) (hr : p.ply < 255 ∧ p.hmc < 255) (m : Move) (q : Pos)
    (h : (m, q) ∈ engineLegal K p) : q.ply = p.ply + 1 ∧ q.hmc ≤ p.hmc + 1 := by
  obtain ⟨hm, hq, _⟩ := (mem_engineLegal K p m q).1 h
  obtain ⟨q', hq', habs, _, _, hply, _⟩ := succ_exists K p hw hr m hm
  rw [hq] at hq'
  injection hq' with hq'
  subst hq'
  refine ⟨hply, ?_⟩
  have hhmc := (congrArg Fide.Pos.hmc habs).trans (apply_hmc p m)
  have : q.hmc = (absPos q).hmc := rfl
  rw [this, hhmc]
  split <;> omega

theorem perft_eq (K : Keys) (d : Nat) : ∀ p : Pos, WF p = true → p.ply + d ≤ 255 ∧ p.hmc + d ≤ 255 →
    perft K p d = Fide.perft (absPos p) d := by
  induction d with
  | zero => intro p _ _; rfl
  | succ d ih =>
    intro p hw hr
    have hr' : p.ply < 255 ∧ p.hmc < 255 := by omega
    unfold perft Fide.perft
    apply perft_succ K p hw hr' (fun P => Fide.perft P d) (fun q => perft K q d)
    intro m q hmq
    obtain ⟨c1, c2⟩ := succ_counters K p hw hr' m q hmq
    obtain ⟨hm, hq, hl⟩ := (mem_engineLegal K p m q).1 hmq
    exact ih q (WF_succ K p hw hr' m hm q hq hl) (by omega)

end LG
end Clemens
