import Clemens.Model.TT
/-
Lemma library for C14 (transposition table).  Everything here is generic in the table `t`
(no assumption about how it was produced); `Clemens/Props/C14.lean` instantiates the
invariant `TT.Justified` with "the entry is one of the logged saves".

Only `0 < Gen.ttBucketSize` is used about the generated constants.
-/
namespace Clemens

theorem ttBucketSize_pos : 0 < Gen.ttBucketSize := by decide

/-! ### `packAgeNode` keeps the node type in bits 0-1 -/

theorem packAgeNode_and_three (old nt age : Nat) (h : nt < 4) : packAgeNode old nt age &&& 3 = nt := by
  unfold packAgeNode
  simp only []
  have e3 : ∀ x : Nat, x &&& 3 = x % 4 := fun x => Nat.and_two_pow_sub_one_eq_mod x 2
  have e4 : ∀ x y : Nat, (x ||| y) % 4 = (x % 4) ||| (y % 4) := fun x y => Nat.or_mod_two_pow (n := 2)
  have e5 : (old &&& 0xFC) % 4 = 0 := by
    have := Nat.and_mod_two_pow (a := old) (b := 0xFC) (n := 2)
    simpa using this
  have e6 : ((age <<< 2) % 256) % 4 = 0 := by
    rw [Nat.shiftLeft_eq]; omega
  have e7 : nt % 256 % 4 = nt := by omega
  rw [e3, e3, e4, e4, e5, e6, e7]
  simp
  omega

/-! ### buckets -/

/-- every bucket has exactly `ttBucketSize` slots -/
def TT.WF (t : TT) : Prop := ∀ k, (t.bucket k).length = Gen.ttBucketSize

theorem emptyBucket_length : emptyBucket.length = Gen.ttBucketSize := by
  simp [emptyBucket]

theorem mem_emptyBucket {e : TTEntry} (he : e ∈ emptyBucket) : e.hash = 0#64 := by
  simp [emptyBucket] at he
  rw [he.2]

theorem TT.bucket_empty (k : Nat) : (({} : TT)).bucket k = emptyBucket := by
  simp [TT.bucket]

theorem TT.WF_empty : ({} : TT).WF := by
  intro k; rw [TT.bucket_empty]; exact emptyBucket_length

/-- the slot chosen by `PotentiallySave` is inside the bucket -/
theorem ttSlot_lt (b : Bucket) (depth age : Nat) (hb : 0 < b.length) : ttSlot b depth age < b.length := by
  unfold ttSlot
  split
  · rename_i i hi
    exact (List.findIdx?_eq_some_iff_findIdx_eq.mp hi).1
  · omega

/-- the entry written by `ttSave` -/
def savedEntry (t : TT) (h : BB) (m : Move) (depth : Nat) (score : Int) (nt age : Nat) : TTEntry :=
  let b := t.bucket (ttKey h)
  { hash := h, move := m, depth := depth, score := score,
    ageNode := packAgeNode (b.getD (ttSlot b depth age) {}).ageNode nt age }

/-- the buckets after a save: the bucket of `h` gets one slot overwritten, all others are untouched -/
theorem ttSave_bucket (t : TT) (h : BB) (m : Move) (depth : Nat) (score : Int) (nt age : Nat) (k : Nat) :
    (ttSave t h m depth score nt age).bucket k =
      if ttKey h = k then
        (t.bucket (ttKey h)).set (ttSlot (t.bucket (ttKey h)) depth age) (savedEntry t h m depth score nt age)
      else t.bucket k := by
  simp only [ttSave, TT.bucket, Std.HashMap.getD_insert, savedEntry, beq_iff_eq]

theorem ttSave_WF {t : TT} (hw : t.WF) (h : BB) (m : Move) (depth : Nat) (score : Int) (nt age : Nat) :
    (ttSave t h m depth score nt age).WF := by
  intro k
  rw [ttSave_bucket]
  split
  · rw [List.length_set]; exact hw _
  · exact hw k

theorem savedEntry_hash (t : TT) (h m depth score nt age) : (savedEntry t h m depth score nt age).hash = h := rfl
theorem savedEntry_move (t : TT) (h m depth score nt age) : (savedEntry t h m depth score nt age).move = m := rfl
theorem savedEntry_depth (t : TT) (h m depth score nt age) : (savedEntry t h m depth score nt age).depth = depth := rfl
theorem savedEntry_score (t : TT) (h m depth score nt age) : (savedEntry t h m depth score nt age).score = score := rfl
theorem savedEntry_nodeType (t : TT) (h m depth score nt age) (hnt : nt < 4) :
    (savedEntry t h m depth score nt age).nodeType = nt := by
  simp only [savedEntry, TTEntry.nodeType]
  exact packAgeNode_and_three _ _ _ hnt

/-- after a save the written entry is in the bucket of its hash -/
theorem savedEntry_mem {t : TT} (hw : t.WF) (h : BB) (m : Move) (depth : Nat) (score : Int) (nt age : Nat) :
    savedEntry t h m depth score nt age ∈ (ttSave t h m depth score nt age).bucket (ttKey h) := by
  rw [ttSave_bucket, if_pos rfl]
  apply List.mem_set
  apply ttSlot_lt
  rw [hw]; exact ttBucketSize_pos

/-! ### the invariant: every non-empty entry is justified -/

/-- every non-empty entry `e` found in bucket `key` satisfies `Q key e` -/
def TT.Justified (Q : Nat → TTEntry → Prop) (t : TT) : Prop :=
  ∀ key e, e ∈ t.bucket key → e.hash ≠ 0#64 → Q key e

theorem TT.Justified_empty (Q : Nat → TTEntry → Prop) : ({} : TT).Justified Q := by
  intro key e he hne
  rw [TT.bucket_empty] at he
  exact absurd (mem_emptyBucket he) hne

theorem ttSave_Justified {Q : Nat → TTEntry → Prop} {t : TT} (hj : t.Justified Q)
    (h : BB) (m : Move) (depth : Nat) (score : Int) (nt age : Nat)
    (hq : Q (ttKey h) (savedEntry t h m depth score nt age)) :
    (ttSave t h m depth score nt age).Justified Q := by
  intro key e he hne
  rw [ttSave_bucket] at he
  split at he
  · rename_i hk
    rcases List.mem_or_eq_of_mem_set he with h1 | h1
    · exact hj key e (hk ▸ h1) hne
    · subst h1; exact hk ▸ hq
  · exact hj key e he hne

/-! ### `ttGet` -/

/-- what a probe can return: nothing (no entry carries the hash), or the data of the first entry of the
bucket of `h` carrying hash `h` -/
theorem ttGet_spec (t : TT) (h : BB) (alpha beta : Int) (depth ply : Nat) :
    (ttGet t h alpha beta depth ply = (0, false, 0) ∧ ∀ e ∈ t.bucket (ttKey h), e.hash ≠ h) ∨
    ∃ te ∈ t.bucket (ttKey h), te.hash = h ∧
      (t.bucket (ttKey h)).find? (fun e => e.hash == h) = some te ∧
      (ttGet t h alpha beta depth ply).2.2 = te.move ∧
      ((ttGet t h alpha beta depth ply).2.1 = true → depth ≤ te.depth ∧
        (-32767 + 100 ≤ te.score → te.score ≤ 32767 - 100 →
          (te.nodeType = 0 → (ttGet t h alpha beta depth ply).1 = te.score) ∧
          (te.nodeType = 1 → te.score ≤ alpha ∧ (ttGet t h alpha beta depth ply).1 = alpha) ∧
          (te.nodeType = 2 → beta ≤ te.score ∧ (ttGet t h alpha beta depth ply).1 = beta))) := by
  unfold ttGet
  cases hf : (t.bucket (ttKey h)).find? (fun e => e.hash == h) with
  | none =>
    left
    refine ⟨rfl, ?_⟩
    intro e he
    have := List.find?_eq_none.mp hf e he
    simpa using this
  | some te =>
    right
    have hm := List.mem_of_find?_eq_some hf
    have hh : te.hash = h := by simpa using List.find?_some hf
    refine ⟨te, hm, hh, rfl, ?_, ?_⟩
    · simp only []
      generalize (if te.score > ttGet.INF' - 100 then te.score - (ply : Int)
        else if te.score < -ttGet.INF' + 100 then te.score + (ply : Int) else te.score) = sc
      repeat' split
      all_goals rfl
    · simp only [ttGet.INF']
      split
      · simp
      · rename_i hd
        intro hu
        refine ⟨by omega, ?_⟩
        intro hlo hhi
        have e1 : ¬ (te.score > 32767 - 100) := by omega
        have e2 : ¬ (te.score < -32767 + 100) := by omega
        simp only [e1, e2, if_false] at hu ⊢
        refine ⟨?_, ?_, ?_⟩
        · intro h0
          simp [h0]
        · intro h1
          simp only [h1, if_true] at hu ⊢
          split at hu
          · rename_i hle; exact ⟨hle, by simp [hle]⟩
          · simp at hu
        · intro h2
          simp only [h2] at hu ⊢
          simp only [show ¬ ((2:Nat) = 1) by decide, if_false, if_true] at hu ⊢
          split at hu
          · rename_i hle; exact ⟨hle, by simp [hle]⟩
          · simp at hu

/-- in a bucket with no entry for `h`, overwriting a slot with an entry for `h` makes that entry the one found -/
theorem find?_set_unique (b : Bucket) (i : Nat) (e : TTEntry) (h : BB) (hi : i < b.length) (he : e.hash = h)
    (hnone : ∀ x ∈ b, x.hash ≠ h) : (b.set i e).find? (fun x => x.hash == h) = some e := by
  cases hf : (b.set i e).find? (fun x => x.hash == h) with
  | none =>
    have := List.find?_eq_none.mp hf e (List.mem_set hi e)
    simp [he] at this
  | some a =>
    have hm := List.mem_of_find?_eq_some hf
    have hh : a.hash = h := by simpa using List.find?_some hf
    rcases List.mem_or_eq_of_mem_set hm with h1 | h1
    · exact absurd hh (hnone a h1)
    · rw [h1]

end Clemens
