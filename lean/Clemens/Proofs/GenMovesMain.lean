import Clemens.Proofs.GenMovesCastling
/-
C01a lemmas: the specification's move list regrouped by piece kind, and the assembly of the
per-kind statements into "same set of UCI moves".
-/
namespace Clemens
namespace GM

theorem sliderMoves_nil (P : Fide.Pos) (s : Nat) : Fide.sliderMoves P s [] = [] := rfl

/-- the specification's move list, regrouped by piece kind in the order of the engine's generator -/
theorem mem_pseudoMoves (P : Fide.Pos) (mv : Fide.Move) :
    mv ∈ Fide.pseudoMoves P ↔
      ((((((mv ∈ (ownSquares P ROOK).flatMap (fun s => Fide.sliderMoves P s rookDirs) ∨
      mv ∈ (ownSquares P BISHOP).flatMap (fun s => Fide.sliderMoves P s bishopDirs)) ∨
      mv ∈ (ownSquares P QUEEN).flatMap (fun s => Fide.sliderMoves P s Dir.all)) ∨
      mv ∈ (ownSquares P KNIGHT).flatMap (fun s => Fide.leaperMoves P s Geo.knightOffsets)) ∨
      mv ∈ (ownSquares P PAWN).flatMap (fun s => Fide.pawnMoves P s)) ∨
      mv ∈ Fide.castlingMoves P) ∨
      mv ∈ (ownSquares P KING).flatMap (fun s => Fide.leaperMoves P s Geo.kingOffsets)) := by
  unfold Fide.pseudoMoves
  simp only [List.mem_append, List.mem_flatMap, mem_ownSquares, List.mem_range, ROOK, BISHOP, QUEEN, KNIGHT, PAWN, KING]
  constructor
  · rintro (⟨s, hs, h⟩ | h)
    · by_cases ho : Fide.isOwn P P.side s = true
      · simp only [ho, Bool.not_true, Bool.false_eq_true, if_false] at h
        by_cases h0 : Fide.kindOf (P.at s) = 0
        · rw [if_pos h0] at h
          exact Or.inl (Or.inl (Or.inr ⟨s, ⟨hs, ho, h0⟩, h⟩))
        · rw [if_neg h0] at h
          by_cases h1 : Fide.kindOf (P.at s) = 1
          · rw [if_pos h1] at h
            exact Or.inl (Or.inl (Or.inl (Or.inr ⟨s, ⟨hs, ho, h1⟩, h⟩)))
          · rw [if_neg h1] at h
            by_cases h5 : Fide.kindOf (P.at s) = 5
            · rw [if_pos h5] at h
              exact Or.inr ⟨s, ⟨hs, ho, h5⟩, h⟩
            · rw [if_neg h5] at h
              unfold Fide.dirsOfKind at h
              by_cases h2 : Fide.kindOf (P.at s) = 2
              · rw [if_pos h2] at h
                exact Or.inl (Or.inl (Or.inl (Or.inl (Or.inl (Or.inr ⟨s, ⟨hs, ho, h2⟩, h⟩)))))
              · rw [if_neg h2] at h
                by_cases h3 : Fide.kindOf (P.at s) = 3
                · rw [if_pos h3] at h
                  exact Or.inl (Or.inl (Or.inl (Or.inl (Or.inl (Or.inl ⟨s, ⟨hs, ho, h3⟩, h⟩)))))
                · rw [if_neg h3] at h
                  by_cases h4 : Fide.kindOf (P.at s) = 4
                  · rw [if_pos h4] at h
                    exact Or.inl (Or.inl (Or.inl (Or.inl (Or.inr ⟨s, ⟨hs, ho, h4⟩, h⟩))))
                  · rw [if_neg h4, sliderMoves_nil] at h
                    cases h
      · simp only [ho, Bool.not_false, if_true, List.not_mem_nil] at h
    · exact Or.inl (Or.inr h)
  · have key : ∀ s, s < 64 → Fide.isOwn P P.side s = true →
        mv ∈ (let k := Fide.kindOf (P.at s)
          if k = 0 then Fide.pawnMoves P s
          else if k = 1 then Fide.leaperMoves P s Geo.knightOffsets
          else if k = 5 then Fide.leaperMoves P s Geo.kingOffsets
          else Fide.sliderMoves P s (Fide.dirsOfKind k)) →
        (∃ a, a < 64 ∧ mv ∈ if (!Fide.isOwn P P.side a) = true then [] else
          let k := Fide.kindOf (P.at a)
          if k = 0 then Fide.pawnMoves P a
          else if k = 1 then Fide.leaperMoves P a Geo.knightOffsets
          else if k = 5 then Fide.leaperMoves P a Geo.kingOffsets
          else Fide.sliderMoves P a (Fide.dirsOfKind k)) ∨ mv ∈ Fide.castlingMoves P := by
      intro s hs ho h
      exact Or.inl ⟨s, hs, by simp only [ho, Bool.not_true, Bool.false_eq_true, if_false]; exact h⟩
    rintro ((((((⟨s, ⟨hs, ho, hk⟩, h⟩ | ⟨s, ⟨hs, ho, hk⟩, h⟩) | ⟨s, ⟨hs, ho, hk⟩, h⟩) | ⟨s, ⟨hs, ho, hk⟩, h⟩) |
      ⟨s, ⟨hs, ho, hk⟩, h⟩) | h) | ⟨s, ⟨hs, ho, hk⟩, h⟩)
    · exact key s hs ho (by simp only [hk]; exact h)
    · exact key s hs ho (by simp only [hk]; exact h)
    · exact key s hs ho (by simp only [hk]; exact h)
    · exact key s hs ho (by simp only [hk]; exact h)
    · exact key s hs ho (by simp only [hk]; exact h)
    · exact Or.inr h
    · exact key s hs ho (by simp only [hk]; exact h)

/-- membership part of `genMoves_exact` -/
theorem genMoves_mem (p : Pos) (hw : WF p = true) (hA : AttackedByExact p) (mv : Fide.Move) :
    mv ∈ (genMoves p).map absMove ↔ mv ∈ Fide.pseudoMoves (absPos p) := by
  obtain ⟨hsh, hst, hch⟩ := WF_parts p hw
  obtain ⟨hside, _, hep64⟩ := state_parts p hst
  have hR := genHelper_slider p hsh hside ROOK (by decide) rookDirs (fun s => rookAttacks s p.all)
    (fun s hs t ht => rookAttacks_exact s t hs ht p.all) mv
  have hB := genHelper_slider p hsh hside BISHOP (by decide) bishopDirs (fun s => bishopAttacks s p.all)
    (fun s hs t ht => bishopAttacks_exact s t hs ht p.all) mv
  have hQ := genHelper_slider p hsh hside QUEEN (by decide) Dir.all (fun s => queenAttacks s p.all)
    (fun s hs t ht => queenAttacks_exact s t hs ht p.all) mv
  have hN := genHelper_leaper p hsh hside KNIGHT (by decide) Geo.knightOffsets knightAttacks
    (fun s hs t ht => knightAttacks_exact s t hs ht) mv
  have hK := genHelper_leaper p hsh hside KING (by decide) Geo.kingOffsets kingAttacks
    (fun s hs t ht => kingAttacks_exact s t hs ht) mv
  have hP := genPawn_abs p hsh hside hep64 (ep_empty p hch) mv
  rw [mem_pseudoMoves]
  unfold genMoves
  simp only [List.map_append, List.mem_append]
  rw [hR, hB, hQ, hN, hK, hP, genCastling_abs p hw hA]
  exact Iff.rfl

end GM
end Clemens
