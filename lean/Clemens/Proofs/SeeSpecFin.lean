import Clemens.Proofs.Attackers
/-
C18b — finite geometric facts (kernel evaluation): leapers and pawns are not two or more steps away on a line,
knights are on no line at all, nothing attacks its own square.
-/
namespace Clemens.P18
open Clemens

theorem far_not_leaper_all : ∀ d ∈ Dir.all, ∀ t < 64, ∀ i < 7,
    (Geo.step d (i + 2) t).all (fun k => !Geo.kingStep t k && !Geo.knightStep t k && !Geo.pawnAttack 0 t k &&
        !Geo.pawnAttack 1 t k) = true := by decide +kernel

theorem line_not_knight_all : ∀ d ∈ Dir.all, ∀ t < 64, ∀ i < 8,
    (Geo.step d (i + 1) t).all (fun k => !Geo.knightStep t k) = true := by decide +kernel

theorem self_not_all : ∀ t < 64, Geo.kingStep t t = false ∧ Geo.knightStep t t = false ∧
    Geo.pawnAttack 0 t t = false ∧ Geo.pawnAttack 1 t t = false := by decide +kernel

end Clemens.P18
