import Clemens.Proofs.TieTac
/-
Regression examples for `tie_tac` (Clemens/Proofs/TieTac.lean): one example per kind of value-preserving rewrite the tactic is meant
to absorb, and a few wrong "rewrites" that it must reject.
-/
namespace Clemens.TieTacTests
set_option maxHeartbeats 1000000

/-! ### covered rewrites -/

-- commuted / re-associated `&`, `|`, `^`
example (a b c : BitVec 64) : (a &&& b) &&& c = c &&& (b &&& a) := by tie_tac
example (a b c : BitVec 64) : (a ||| b) ||| c = b ||| (c ||| a) := by tie_tac
example (a b c : BitVec 64) : a ^^^ b ^^^ c = c ^^^ (b ^^^ a) := by tie_tac
-- distribution, absorption, De Morgan, `&^`
example (a b c : BitVec 64) : (a &&& ~~~b) ||| c = (c ||| ~~~b) &&& (a ||| c) := by tie_tac
example (a b c : BitVec 64) : a &&& ~~~b &&& ~~~c = a &&& ~~~(c ||| b) := by tie_tac
example (a b : BitVec 64) : ~~~(a ^^^ b) = (a &&& b) ||| (~~~a &&& ~~~b) := by tie_tac
example (a : BitVec 64) : a ^^^ 0xffffffffffffffff#64 = ~~~a := by tie_tac
-- composed constant shifts, shifts distributed over `|`
example (b : BitVec 64) : (b <<< 8) <<< 8 = b <<< 16 := by tie_tac
example (b : BitVec 64) : (b >>> 4) >>> 4 = b >>> 8 := by tie_tac
example (a b : BitVec 64) : (a ||| b) <<< 16 = (a <<< 8 <<< 8) ||| (b <<< 16) := by tie_tac
-- masks before / after shifts
example (b : BitVec 64) : (b <<< 1) &&& 0xfefefefefefefefe#64 = (b &&& 0x7f7f7f7f7f7f7f7f#64) <<< 1 := by tie_tac
example (b : BitVec 64) : ((b <<< 1) &&& 0xfefefefefefefefe#64) <<< 1 = (b <<< 2) &&& 0xfdfdfdfdfdfdfdfc#64 := by tie_tac
example (m : BitVec 32) : (m >>> 6) &&& 63#32 = (m &&& 0xFC0#32) >>> 6 := by tie_tac
example (x : BitVec 8) : (x >>> 2) <<< 2 = x &&& 0xFC#8 := by tie_tac
-- `% 2^k`, `/ 2^k`, `* 2^k`
example (x : BitVec 8) : x % 4#8 = x &&& 3#8 := by tie_tac
example (x : BitVec 8) : x / 4#8 = x >>> 2 := by tie_tac
example (x : BitVec 8) : x * 8#8 = x <<< 3 := by tie_tac
example (x : BitVec 16) : (x % 256#16) / 16#16 = (x >>> 4) &&& 15#16 := by tie_tac
example (m : BitVec 32) : BitVec.setWidth 8 ((m / 64#32) % 64#32) = BitVec.setWidth 8 ((m >>> 6) &&& 63#32) := by tie_tac
-- the colour case split (`c = 0 ∨ c = 1`), a switch written as nested ifs, an intermediate variable
example (c : Nat) (hc : c < 2) (a b : BitVec 64) :
    (if (BitVec.ofNat 8 c == 0#8) then a <<< 8 else if (BitVec.ofNat 8 c == 1#8) then b >>> 8 else 0#64)
      = (if c = 0 then (a <<< 4) <<< 4 else let t := b >>> 4; t >>> 4) := by tie_tac
-- a colour that stays a `BitVec` variable: `if`-splitting
example (c : BitVec 8) (a b : BitVec 64) :
    (if (c == 1#8) then a &&& b else a ||| b) = (if (c == 1#8) then b &&& a else b ||| a) := by tie_tac
-- `toNat` goals: through `omega` (sums) or `Nat.testBit` extensionality (bit operations)
example (m : BitVec 32) : (BitVec.setWidth 8 ((m >>> 14) % 4#32) + 1#8).toNat = ((m.toNat >>> 14) &&& 3) + 1 := by tie_tac
example (m : BitVec 32) : (BitVec.setWidth 8 ((m &&& 0xFC0#32) >>> 6)).toNat = (m.toNat >>> 6) &&& 63 := by tie_tac
example (m : BitVec 32) : (BitVec.setWidth 16 (m / 65536#32)).toNat = (m.toNat >>> 16) &&& 0xFFFF := by tie_tac
-- bounded `Nat` arguments: exhaustive evaluation
example (s : Nat) (hs : s < 256) : ((BitVec.ofNat 8 s) / 8#8).toNat = s / 8 := by tie_tac
example (r f : Nat) (hr : r < 8) (hf : f < 8) : ((BitVec.ofNat 8 r) * 8#8 ||| BitVec.ofNat 8 f).toNat = r * 8 + f := by tie_tac
-- signed comparisons against literals
example (v : BitVec 16) :
    (if BitVec.slt 32667#16 v then true else if BitVec.slt v (BitVec.ofInt 16 (-32667)) then true else false)
      = (decide (v.toInt < -32667) || decide (v.toInt > 32667)) := by tie_tac

/-! ### wrong rewrites are rejected -/

example : True := by
  fail_if_success (have : ∀ b : BitVec 8, (b <<< 2) <<< 2 = b <<< 3 := by tie_tac)
  trivial
example : True := by
  fail_if_success (have : ∀ b : BitVec 8, (b <<< 1) &&& 0xfe#8 = (b &&& 0x7e#8) <<< 1 := by tie_tac)
  trivial
example : True := by
  fail_if_success (have : ∀ x : BitVec 8, x % 4#8 = x &&& 7#8 := by tie_tac)
  trivial
example : True := by
  fail_if_success (have : ∀ x : BitVec 8, x / 4#8 = x >>> 3 := by tie_tac)
  trivial
example : True := by
  fail_if_success (have : ∀ a b c : BitVec 8, (a &&& b) ||| c = a &&& (b ||| c) := by tie_tac)
  trivial
example : True := by
  fail_if_success (have : ∀ m : BitVec 32, (BitVec.setWidth 8 ((m >>> 5) &&& 63#32)).toNat = (m.toNat >>> 6) &&& 63 := by tie_tac)
  trivial

end Clemens.TieTacTests
