import Clemens.Proofs.FenRound1
/-
Lemmas for C11 (FEN round trip), part 2: the placement field.  Printing one rank and parsing it back, then the
eight ranks with their separators.
-/
namespace Clemens.P17
open Clemens

theorem rank_go (K : Keys) (p : Pos) (rank : Nat) (hr : rank < 8)
    (hv : ∀ f, f < 8 → p.at (rank * 8 + f) = 0 ∨ validPiece (p.at (rank * 8 + f)) = true) :
    ∀ fuel file empties acc, file ≤ 8 → empties ≤ file → 9 ≤ fuel + file →
      ∃ t, fenRank.go p rank fuel file empties acc = some (acc ++ t) ∧ (∀ b ∈ t, b < 128 ∧ b ≠ 32) ∧
        ∀ q, boardAgrees q → (∀ s, rank * 8 + file - empties ≤ s → s < rank * 8 + 8 → q.at s = 0) →
          ∃ q', (∀ rest, fenSetPieces.go K (t ++ rest) (rank * 8 + file - empties) q
                  = fenSetPieces.go K rest (rank * 8 + 8) q') ∧ boardAgrees q' ∧
            (∀ s, q'.at s = if rank * 8 + file ≤ s ∧ s < rank * 8 + 8 then p.at s else q.at s) := by
  intro fuel
  induction fuel with
  | zero => intro file empties acc h1 h2 h3; omega
  | succ n ih =>
    intro file empties acc h1 h2 h3
    rw [fenRank.go]
    by_cases hf : file ≥ 8
    · have hf8 : file = 8 := by omega
      subst hf8
      rw [if_pos hf, flush_acc]
      refine ⟨flush empties, rfl, flush_ascii empties h2, ?_⟩
      intro q ha hz
      refine ⟨q, fun rest => ?_, ha, ?_⟩
      · rw [go_flush K empties h2 rest _ (by omega)]
        congr 1; omega
      · intro s
        rw [if_neg (by omega)]
    · rw [if_neg hf]
      have hf' : file < 8 := by omega
      simp only
      by_cases hpc : p.at (rank * 8 + file) = 0
      · rw [if_pos hpc]
        obtain ⟨t, ht, hasc, hpar⟩ := ih (file + 1) (empties + 1) acc (by omega) (by omega) (by omega)
        refine ⟨t, ht, hasc, ?_⟩
        intro q ha hz
        have e : rank * 8 + (file + 1) - (empties + 1) = rank * 8 + file - empties := by omega
        obtain ⟨q', hq1, hq2, hq3⟩ := hpar q ha (by rw [e]; exact hz)
        rw [e] at hq1
        refine ⟨q', hq1, hq2, ?_⟩
        intro s
        rw [hq3 s]
        by_cases hs : s = rank * 8 + file
        · subst hs
          rw [if_neg (by omega), if_pos (by omega), hpc]
          exact hz _ (by omega) (by omega)
        · by_cases hs2 : rank * 8 + (file + 1) ≤ s ∧ s < rank * 8 + 8
          · rw [if_pos hs2, if_pos (by omega)]
          · rw [if_neg hs2, if_neg (by omega)]
      · rw [if_neg hpc]
        have hval : validPiece (p.at (rank * 8 + file)) = true := by
          rcases hv file hf' with h | h
          · exact absurd h hpc
          · exact h
        obtain ⟨ch, hch, hch1, hch2, _, _, _⟩ := piece_char_facts _ (validPiece_lt_B hval) hval
        rw [hch]
        simp only
        rw [flush_acc]
        obtain ⟨t, ht, hasc, hpar⟩ := ih (file + 1) 0 ((acc ++ flush empties) ++ [ch]) (by omega) (by omega) (by omega)
        refine ⟨flush empties ++ ch :: t, ?_, ?_, ?_⟩
        · rw [ht]; simp
        · intro b hb
          simp only [List.mem_append, List.mem_cons] at hb
          rcases hb with hb | rfl | hb
          · exact flush_ascii empties (by omega) b hb
          · exact ⟨hch1, hch2⟩
          · exact hasc b hb
        · intro q ha hz
          have e1 : rank * 8 + file - empties + empties = rank * 8 + file := by omega
          obtain ⟨q1, hq1, hstep⟩ := go_piece K _ ch hval hch (rank * 8 + file) (by omega) q
          have hzq : q.at (rank * 8 + file) = 0 := hz _ (by omega) (by omega)
          have ha1 := setPiece_agrees_core K q q1 _ _ hq1 hzq ha
          obtain ⟨_, _, hat1⟩ := setPiece_at K q q1 _ _ hq1
          have e2 : rank * 8 + (file + 1) - 0 = rank * 8 + file + 1 := by omega
          obtain ⟨q', hq'1, hq'2, hq'3⟩ := hpar q1 ha1 (by
            intro s hs1 hs2
            rw [hat1 s, if_neg (by omega)]
            exact hz s (by omega) hs2)
          rw [e2] at hq'1
          refine ⟨q', fun rest => ?_, hq'2, ?_⟩
          · rw [List.append_assoc, go_flush K empties (by omega) _ _ (by omega), e1, List.cons_append, hstep, hq'1]
          intro s
          rw [hq'3 s, hat1 s]
          by_cases hs : s = rank * 8 + file
          · subst hs
            rw [if_neg (by omega), if_pos rfl, if_pos (by omega)]
          · rw [if_neg hs]
            by_cases hs2 : rank * 8 + (file + 1) ≤ s ∧ s < rank * 8 + 8
            · rw [if_pos hs2, if_pos (by omega)]
            · rw [if_neg hs2, if_neg (by omega)]

/-- what parsing the text `t` of rank `r` does -/
def RankParse (K : Keys) (p : Pos) (r : Nat) (t : Bytes) : Prop :=
  ∀ q, boardAgrees q → (∀ s, r * 8 ≤ s → s < r * 8 + 8 → q.at s = 0) →
    ∃ q', (∀ rest, fenSetPieces.go K (t ++ rest) (r * 8) q = fenSetPieces.go K rest (r * 8 + 8) q') ∧ boardAgrees q' ∧
      (∀ s, q'.at s = if r * 8 ≤ s ∧ s < r * 8 + 8 then p.at s else q.at s)

def BoardOK (p : Pos) : Prop := ∀ s, s < 64 → p.at s = 0 ∨ validPiece (p.at s) = true

theorem fenRank_parse (K : Keys) (p : Pos) (hv : BoardOK p) (r : Nat) (hr : r < 8) :
    ∃ t, fenRank p r = some t ∧ (∀ b ∈ t, b < 128 ∧ b ≠ 32) ∧ RankParse K p r t := by
  obtain ⟨t, h1, h2, h3⟩ := rank_go K p r hr (fun f hf => hv _ (by omega)) 9 0 0 [] (by omega) (by omega) (by omega)
  refine ⟨t, by simpa [fenRank] using h1, h2, ?_⟩
  intro q ha hz
  exact h3 q ha (by simpa using hz)

/-- ranks `r` and above are filled in as in `p`, the rest of the board is empty -/
def PInv (p q : Pos) (r : Nat) : Prop :=
  boardAgrees q ∧ ∀ s, q.at s = if r * 8 ≤ s ∧ s < 64 then p.at s else 0

theorem rank_step (K : Keys) (p : Pos) (r : Nat) (hr : r < 8) (t : Bytes) (ht : RankParse K p r t)
    (q : Pos) (hq : PInv p q (r + 1)) :
    ∃ q', (∀ rest, fenSetPieces.go K (t ++ rest) (r * 8) q = fenSetPieces.go K rest (r * 8 + 8) q') ∧ PInv p q' r := by
  obtain ⟨q', h1, h2, h3⟩ := ht q hq.1 (by
    intro s hs1 hs2
    rw [hq.2 s, if_neg (by omega)])
  refine ⟨q', h1, h2, ?_⟩
  intro s
  rw [h3 s, hq.2 s]
  by_cases hs : r * 8 ≤ s ∧ s < r * 8 + 8
  · rw [if_pos hs, if_pos (by omega)]
  · rw [if_neg hs]
    by_cases hs2 : (r + 1) * 8 ≤ s ∧ s < 64
    · rw [if_pos hs2, if_pos (by omega)]
    · rw [if_neg hs2, if_neg (by omega)]

def ranksDown : Nat → List Nat
  | 0 => []
  | n + 1 => n :: ranksDown n

def joinRanks : List Bytes → Bytes
  | [] => []
  | [t] => t
  | t :: t' :: ts => t ++ 47 :: joinRanks (t' :: ts)

theorem joinRanks_eq (l : List Bytes) : (l.intersperse [47]).flatten = joinRanks l := by
  induction l with
  | nil => rfl
  | cons t ts ih =>
    cases ts with
    | nil => simp [joinRanks]
    | cons t' ts => 
      rw [List.intersperse_cons_cons, joinRanks, List.flatten_cons, List.flatten_cons, ih]
      simp

theorem ranks_parse (K : Keys) (p : Pos) (hv : BoardOK p) :
    ∀ n, n < 8 → ∀ q, PInv p q (n + 1) →
      ∃ ranks, (ranksDown (n + 1)).mapM (fenRank p) = some ranks ∧ ranks ≠ [] ∧
        (∀ b ∈ joinRanks ranks, b < 128 ∧ b ≠ 32) ∧
        ∃ q', fenSetPieces.go K (joinRanks ranks) (n * 8) q = .ok q' ∧ PInv p q' 0 := by
  intro n
  induction n with
  | zero =>
    intro _ q hq
    obtain ⟨t, h1, h2, h3⟩ := fenRank_parse K p hv 0 (by omega)
    refine ⟨[t], by simp [ranksDown, h1], by simp, by simpa [joinRanks] using h2, ?_⟩
    obtain ⟨q', e1, e2⟩ := rank_step K p 0 (by omega) t h3 q hq
    refine ⟨q', ?_, e2⟩
    have e1 := e1 []
    rw [List.append_nil] at e1
    rw [joinRanks, e1, fenSetPieces.go]
  | succ n ih =>
    intro hn q hq
    obtain ⟨t, h1, h2, h3⟩ := fenRank_parse K p hv (n + 1) hn
    obtain ⟨q1, e1, hq1⟩ := rank_step K p (n + 1) hn t h3 q hq
    obtain ⟨ranks', m1, m2, m3, q', m4, m5⟩ := ih (by omega) q1 hq1
    obtain ⟨t', ts, rfl⟩ := List.exists_cons_of_ne_nil m2
    refine ⟨t :: t' :: ts, ?_, by simp, ?_, ?_⟩
    · rw [ranksDown, List.mapM_cons, h1, m1]; rfl
    · intro b hb
      rw [joinRanks] at hb
      simp only [List.mem_append, List.mem_cons] at hb
      rcases hb with hb | rfl | hb
      · exact h2 b hb
      · omega
      · exact m3 b hb
    · refine ⟨q', ?_, m5⟩
      rw [joinRanks, e1, go_slash]
      have : ((n + 1) * 8 + 8 + 256 - 16) % 256 = n * 8 := by omega
      rw [this, m4]

theorem empty_at (s : Nat) : Pos.empty.at s = 0 := by
  simp only [Pos.at, Pos.empty, vget]
  by_cases h : s < 64
  · simp [h]
  · simp [h]

theorem empty_pieces (c t : Nat) : Pos.empty.pieces c t = 0#64 := by
  simp only [Pos.pieces, Pos.empty, vget]
  by_cases h : c * 6 + t < 12
  · simp [h]
  · simp [h]

theorem empty_agrees : boardAgrees Pos.empty := by
  intro s hs
  refine ⟨Or.inl (empty_at s), ?_⟩
  intro c t hc ht
  rw [empty_pieces, empty_at]
  simp only [BitVec.getLsbD_zero, Bool.false_eq_true, false_iff]
  exact fun h => newPiece_ne_zero c t h.symm

theorem PInv_empty (p : Pos) : PInv p Pos.empty 8 := by
  refine ⟨empty_agrees, ?_⟩
  intro s
  rw [empty_at, if_neg (by omega)]

/-- the fields `fenSetPieces` does not touch -/
theorem go_frame (K : Keys) (rs : List Nat) : ∀ sq p q, fenSetPieces.go K rs sq p = .ok q →
    q.all = p.all ∧ q.white = p.white ∧ q.black = p.black ∧ q.side = p.side ∧ q.castling = p.castling ∧
    q.ep = p.ep ∧ q.hmc = p.hmc ∧ q.ply = p.ply := by
  induction rs with
  | nil => intro sq p q h; rw [fenSetPieces.go] at h; cases h; simp
  | cons r rs ih =>
    intro sq p q h
    rw [fenSetPieces.go] at h
    split at h
    · exact ih _ _ _ h
    · split at h
      · exact ih _ _ _ h
      · split at h
        · cases h
        · split at h
          · cases h
          · split at h
            · cases h
            · rename_i p1 hp1
              have := ih _ _ _ h
              unfold setPiece at hp1
              split at hp1
              · cases hp1; exact this
              · cases hp1

/-- the placement field of `ToFen` parses back to the board of `p` -/
theorem placement_parse (K : Keys) (p : Pos) (hv : BoardOK p) :
    ∃ ranks, [7, 6, 5, 4, 3, 2, 1, 0].mapM (fenRank p) = some ranks ∧
      (∀ b ∈ (ranks.intersperse [47]).flatten, b < 128 ∧ b ≠ 32) ∧
      ∃ q, fenSetPieces K (ranks.intersperse [47]).flatten Pos.empty = .ok q ∧ boardAgrees q ∧
        (∀ s, s < 64 → q.at s = p.at s) ∧
        q.all = 0#64 ∧ q.white = 0#64 ∧ q.black = 0#64 ∧ q.side = 0 ∧ q.castling = 0 ∧
        q.ep = 0 ∧ q.hmc = 0 ∧ q.ply = 0 := by
  obtain ⟨ranks, h1, _, h3, q, h4, h5⟩ := ranks_parse K p hv 7 (by omega) Pos.empty (PInv_empty p)
  refine ⟨ranks, h1, ?_, q, ?_, h5.1, ?_, ?_⟩
  · rw [joinRanks_eq]; exact h3
  · rw [joinRanks_eq, fenSetPieces, runes_ascii _ (fun b hb => (h3 b hb).1)]
    exact h4
  · intro s hs
    rw [h5.2 s, if_pos (by omega)]
  · exact go_frame K _ _ _ _ h4
end Clemens.P17
