import Clemens.Proofs.SeeSpecFuel
import Clemens.Proofs.LegalSucc
/-
C18b — the state `see` starts from satisfies the invariant; the bridge between the two attacker sequences under the
two consequences of legality (`KingSafe`, `FirstKingOK`) and the piece-count bound.
-/
namespace Clemens.P18
open Clemens

theorem valid_decode : ∀ pc < 16, validPiece pc = true → pc = newPiece (pieceColor pc) (pieceType pc) := by decide

/-- what legality of the first capture says when the capturer is a king: nothing attacks the target afterwards
(model: not even before the king has moved) -/
def FirstKingOK (p : Pos) (m : Move) : Prop :=
  pieceType (p.at m.src) = 5 →
    (∀ a, a < 64 → (squareAttackedBy p m.tgt).getLsbD a = true → (p.byColor (switchColor p.side)).getLsbD a = false) ∧
    Fide.attacked (capBoard (absPos p) m.src m.tgt) (Fide.other p.side) m.tgt = false

theorem occOf_zero (p : Pos) (a : Nat) (ha : a < 64) : (occOf p 0#64).getLsbD a = p.all.getLsbD a := by
  rw [occOf_bit p _ a ha]; simp

theorem board_zero (p : Pos) (hw : wfShape p = true) (t : Nat) (ht : t < 64) (hpt : p.at t ≠ 0) :
    Board p t 0#64 (absPos p) := by
  refine ⟨Vector.size_toArray _, ?_, ?_, ?_⟩
  · intro a _ _; rw [absPos_at_A]; simp
  · rw [absPos_at_A]; exact hpt
  · rw [absPos_at_A]; exact wfShape_code' p hw t ht

theorem zero_or_bit (s a : Nat) : (0#64 ||| bit s).getLsbD a = (bit s).getLsbD a := by
  rw [BitVec.getLsbD_or]; simp

/-- facts about a generated capture -/
structure CapFacts (p : Pos) (m : Move) : Prop where
  shape : wfShape p = true
  side_lt : p.side < 2
  src_lt : m.src < 64
  tgt_lt : m.tgt < 64
  ne : m.src ≠ m.tgt
  src_piece : p.at m.src = newPiece p.side (pieceType (p.at m.src))
  type_lt : pieceType (p.at m.src) < 6
  tgt_ne : p.at m.tgt ≠ 0
  attacks : (squareAttackedBy p m.tgt).getLsbD m.src = true

theorem capFacts (p : Pos) (hw : WF p = true) (m : Move) (hcap : p.at m.tgt ≠ 0) (hgen : m ∈ genMoves p) :
    CapFacts p m := by
  obtain ⟨hsh, hst, _⟩ := GM.WF_parts p hw
  have g := genMoves_shape p hw m hgen
  have f := LG.pseudoFacts_of_gen p hw m hgen
  have hv := g.own.2.1
  have hdec := valid_decode _ (validPiece_lt hv) hv
  rw [g.own.2.2] at hdec
  refine ⟨hsh, (GM.state_parts p hst).1, g.src_lt, g.tgt_lt, g.ne, hdec, (valid_facts hv).2.2.2, hcap, ?_⟩
  rw [squareAttackedBy_exact' p hsh m.tgt m.src g.tgt_lt g.src_lt]
  exact f.attacks hcap

/-- the initial state satisfies the loop invariant -/
theorem pre_init (p : Pos) (m : Move) (cf : CapFacts p m) :
    Pre p m.tgt m.src (seeInit p m) 0#64 m.src := by
  have hw := cf.shape
  refine ⟨cf.src_lt, rfl, by simp, by simp, ?_, ?_, ?_, cf.attacks, cf.side_lt, cf.type_lt, cf.src_piece, ?_, ?_⟩
  · intro a ha
    show p.all.getLsbD a = _
    rw [occOf_zero p a ha]
  · intro a ha
    show (squareAttackedBy p m.tgt).getLsbD a = _
    rw [squareAttackedBy_eq_attBB, attBB_bit p hw m.tgt a p.all cf.tgt_lt ha,
      attT_congr (occOf p 0#64) p.all (p.at a) m.tgt a (fun u hu => (occOf_zero p u hu).symm)]
    simp
  · intro a ha
    show (bit m.src ||| bit m.src).getLsbD a = _
    rw [BitVec.getLsbD_or, getLsbD_bit m.src a cf.src_lt]; simp
  · intro r _ hr; simp at hr
  · rw [zero_or_bit, getLsbD_bit m.src m.src cf.src_lt]; simp

theorem board_init (p : Pos) (m : Move) (cf : CapFacts p m) :
    Board p m.tgt (0#64 ||| bit m.src) (capBoard (absPos p) m.src m.tgt) := by
  apply (board_zero p cf.shape m.tgt cf.tgt_lt cf.tgt_ne).cap cf.shape cf.tgt_lt m.src cf.src_lt cf.ne (by simp)
  rw [cf.src_piece]; exact newPiece_ne_zero _ _

theorem cnt_init (p : Pos) (m : Move) (cf : CapFacts p m) (hcount : popcount p.all ≤ 32) :
    cnt p m.tgt (0#64 ||| bit m.src) ≤ 30 := by
  have hw := cf.shape
  have hA : popcount p.all = (List.range 64).countP fun a => p.all.getLsbD a := by
    unfold popcount squares; rw [List.countP_eq_length_filter]
  have hsrc : (occOf p 0#64).getLsbD m.src = true := by
    rw [occOf_zero p _ cf.src_lt, all_bit p hw _ cf.src_lt, cf.src_piece]; simpa using newPiece_ne_zero _ _
  have h1 := cnt_lt p m.tgt 0#64 m.src cf.src_lt cf.ne hsrc
  have h2 : cnt p m.tgt 0#64 < (List.range 64).countP fun a => p.all.getLsbD a := by
    unfold cnt
    apply countP_lt _ _ _ _ m.tgt (List.mem_range.2 cf.tgt_lt)
    · rw [all_bit p hw _ cf.tgt_lt]; simpa using cf.tgt_ne
    · simp
    · intro x hx h
      rw [List.mem_range] at hx
      rw [Bool.and_eq_true, occOf_zero p x hx] at h
      exact h.2
  omega

/-- (b)–(d): the attacker values of the model are the specification's -/
theorem attackerValues_eq_specSeq (p : Pos) (m : Move) (cf : CapFacts p m)
    (hks : KingSafe p m.src m.tgt) (hfk : FirstKingOK p m) (hcount : popcount p.all ≤ 32) :
    attackerValues p m.tgt (seeMaxXray p) 30 (seeInit p m) =
      specSeq pieceValue 40 (capBoard (absPos p) m.src m.tgt) m.tgt (Fide.other p.side) := by
  have hw := cf.shape
  by_cases hk : pieceType (p.at m.src) = 5
  · obtain ⟨h1, h2⟩ := hfk hk
    have hkp : KPre p m.tgt (seeInit p m) (capBoard (absPos p) m.src m.tgt) m.src :=
      ⟨cf.src_lt, rfl, cf.side_lt, hk, by rw [← hk]; exact cf.src_piece, h1, h2⟩
    rw [hkp.values hw 30]
    exact (hkp.spec_stop pieceValue 30).trans (hkp.spec_stop pieceValue 40).symm
  · have hsim := sim p hw m.tgt m.src cf.tgt_lt cf.tgt_ne hks 30 (seeInit p m) 0#64 m.src _
      (pre_init p m cf) hk (board_init p m cf)
    rw [hsim]
    show specSeq pieceValue 30 _ _ (Fide.other p.side) = _
    have hRt : (0#64 ||| bit m.src).getLsbD m.tgt = false := by
      rw [zero_or_bit, getLsbD_bit m.src m.tgt cf.src_lt]; simp [Ne.symm cf.ne]
    exact (specSeq_fuel pieceValue p hw m.tgt cf.tgt_lt cf.tgt_ne 30 10 _ _ (Fide.other p.side)
      (board_init p m cf) hRt (other_lt _) (cnt_init p m cf hcount)).symm

end Clemens.P18
