import Clemens.Model.Order
/-
Lemma library for C19 (move ordering only reorders).
-/
namespace Clemens
namespace OrderLemmas

/-! ### bit facts about `Move` words -/

theorem setScore_low (m : Move) (s : Nat) : (m.setScore s) % 65536 = m % 65536 := by
  unfold Move.setScore
  have h : (65536 : Nat) = 2 ^ 16 := by decide
  rw [h, Nat.or_mod_two_pow, Nat.shiftLeft_eq]
  simp

theorem score_setScore (m : Move) (hm : m < 65536) (s : Nat) : (m.setScore s).score = s % 65536 := by
  unfold Move.setScore Move.score
  have h1 : m >>> 16 = 0 := by
    rw [Nat.shiftRight_eq_div_pow]; exact Nat.div_eq_of_lt (by simpa using hm)
  rw [Nat.shiftRight_or_distrib, h1, Nat.shiftLeft_shiftRight, Nat.zero_or]
  have h : (0xFFFF : Nat) = 2 ^ 16 - 1 := by decide
  rw [h, Nat.and_two_pow_sub_one_eq_mod]
  omega

theorem mk_lt (s t k : Nat) (hs : s < 64) (ht : t < 64) (hk : k < 4) : Move.mk s t k < 16384 := by
  unfold Move.mk
  have h : (16384 : Nat) = 2 ^ 14 := by decide
  rw [h]
  apply Nat.or_lt_two_pow
  · apply Nat.or_lt_two_pow
    · omega
    · rw [Nat.shiftLeft_eq]; omega
  · rw [Nat.shiftLeft_eq]; omega

theorem withPromo_lt (s t pt : Nat) (hs : s < 64) (ht : t < 64) (hp : 1 ≤ pt ∧ pt ≤ 4) :
    (Move.mk s t 1).withPromo pt < 65536 := by
  unfold Move.withPromo
  have hm := mk_lt s t 1 hs ht (by omega)
  have h : (65536 : Nat) = 2 ^ 16 := by decide
  rw [h]
  apply Nat.or_lt_two_pow
  · exact Nat.lt_trans hm (by decide)
  · rw [Nat.shiftLeft_eq]
    have : (pt + 4294967295) % 4294967296 = pt - 1 := by omega
    rw [this]
    have h14 : (2 : Nat) ^ 14 = 16384 := by decide
    have h16 : (2 : Nat) ^ 16 = 65536 := by decide
    rw [h14, h16]
    omega

/-! ### `bestIndex` -/

theorem go_range (i : Nat) (rest : List Move) (idx score : Nat) :
    bestIndex.go i rest idx score = idx ∨
      (i ≤ bestIndex.go i rest idx score ∧ bestIndex.go i rest idx score < i + rest.length) := by
  induction rest generalizing i idx score with
  | nil => left; rfl
  | cons m ms ih =>
    unfold bestIndex.go
    split
    · rcases ih (i + 1) i m.score with h | h
      · right; rw [h]; simp
      · right; simp only [List.length_cons]; omega
    · rcases ih (i + 1) idx score with h | h
      · left; exact h
      · right; simp only [List.length_cons]; omega

/-- the scan returns an index whose score dominates the running best and everything scanned -/
theorem go_spec (l : List Move) (i : Nat) (rest : List Move) (idx score : Nat)
    (hrest : rest = l.drop i) (hscore : score = (l.getD idx 0).score) :
    score ≤ (l.getD (bestIndex.go i rest idx score) 0).score ∧
      ∀ j, i ≤ j → j < l.length → (l.getD j 0).score ≤ (l.getD (bestIndex.go i rest idx score) 0).score := by
  induction rest generalizing i idx score with
  | nil =>
    unfold bestIndex.go
    refine ⟨by omega, ?_⟩
    intro j hij hj
    have : l.length ≤ i := by
      have := congrArg List.length hrest
      simp at this; omega
    omega
  | cons m ms ih =>
    have hi : i < l.length := by
      have := congrArg List.length hrest
      simp at this; omega
    have hd : l.drop i = l[i] :: l.drop (i + 1) := List.drop_eq_getElem_cons hi
    rw [hd] at hrest
    injection hrest with hm hms
    have hmi : m = l.getD i 0 := by simp [hm, List.getD_eq_getElem?_getD, hi]
    unfold bestIndex.go
    split
    · rename_i hgt
      obtain ⟨h1, h2⟩ := ih (i + 1) i m.score hms (by rw [hmi])
      refine ⟨by omega, ?_⟩
      intro j hij hj
      by_cases hji : j = i
      · subst hji; rw [← hmi]; exact h1
      · exact h2 j (by omega) hj
    · rename_i hgt
      obtain ⟨h1, h2⟩ := ih (i + 1) idx score hms hscore
      refine ⟨h1, ?_⟩
      intro j hij hj
      by_cases hji : j = i
      · subst hji; rw [← hmi]; omega
      · exact h2 j (by omega) hj

theorem bestIndex_range (l : List Move) (i : Nat) :
    bestIndex l i = i ∨ (i + 1 ≤ bestIndex l i ∧ bestIndex l i < l.length) := by
  unfold bestIndex
  rcases go_range (i + 1) (l.drop (i + 1)) i ((l.getD i 0).score) with h | h
  · left; exact h
  · right
    refine ⟨h.1, ?_⟩
    have := h.2
    simp only [List.length_drop] at this
    omega

theorem bestIndex_ge (l : List Move) (i : Nat) : i ≤ bestIndex l i := by
  rcases bestIndex_range l i with h | h <;> omega

theorem bestIndex_lt (l : List Move) (i : Nat) (h : i < l.length) : bestIndex l i < l.length := by
  rcases bestIndex_range l i with h | h <;> omega

theorem bestIndex_max (l : List Move) (i j : Nat) (hi : i ≤ j) (hj : j < l.length) :
    (l.getD j 0).score ≤ (l.getD (bestIndex l i) 0).score := by
  have := go_spec l (i + 1) (l.drop (i + 1)) i ((l.getD i 0).score) rfl rfl
  unfold bestIndex
  by_cases hji : j = i
  · subst hji; exact this.1
  · exact this.2 j (by omega) hj

/-! ### `sortIndex` -/

/-- swapping two positions of a list is a permutation -/
theorem swap_perm (l : List Move) (i j : Nat) (hi : i < l.length) (hj : j < l.length) :
    ((l.set i (l.getD j 0)).set j (l.getD i 0)).Perm l := by
  have hgi : l.getD i 0 = l[i] := by simp [List.getD_eq_getElem?_getD, hi]
  have hgj : l.getD j 0 = l[j] := by simp [List.getD_eq_getElem?_getD, hj]
  rw [hgi, hgj]
  rw [List.perm_iff_count]
  intro b
  have hj' : j < (l.set i l[j]).length := by simpa using hj
  rw [List.count_set hj', List.count_set hi]
  have hji : (l.set i l[j])[j] = l[j] := by
    rw [List.getElem_set]; split
    · rename_i h; subst h; rfl
    · rfl
  rw [hji]
  have hc : (l[i] == b) = true → 0 < l.count b := by
    intro h
    have : l[i] = b := by simpa using h
    rw [List.count_pos_iff]; rw [← this]; exact List.getElem_mem hi
  by_cases h1 : (l[i] == b) = true <;> by_cases h2 : (l[j] == b) = true <;> simp [h1, h2] <;>
    (try have := hc h1) <;> omega

theorem sortIndex_eq_of_ge (l : List Move) (i : Nat) (h : l.length ≤ i) : sortIndex l i = l := by
  unfold sortIndex
  have := bestIndex_ge l i
  simp only
  rw [List.set_eq_of_length_le (by simpa using Nat.le_trans h this), List.set_eq_of_length_le h]

theorem sortIndex_length (l : List Move) (i : Nat) : (sortIndex l i).length = l.length := by
  unfold sortIndex; simp

theorem sortIndex_perm (l : List Move) (i : Nat) : (sortIndex l i).Perm l := by
  by_cases h : i < l.length
  · unfold sortIndex
    exact swap_perm l i (bestIndex l i) h (bestIndex_lt l i h)
  · rw [sortIndex_eq_of_ge l i (by omega)]

theorem sortIndex_take (l : List Move) (i : Nat) : (sortIndex l i).take i = l.take i := by
  unfold sortIndex
  simp only
  rw [List.take_set_of_le (bestIndex_ge l i), List.take_set_of_le (Nat.le_refl i)]

/-- after `SortIndex(i)` position `i` holds the element `bestIndex` pointed at -/
theorem sortIndex_getD (l : List Move) (i : Nat) (h : i < l.length) :
    (sortIndex l i).getD i 0 = l.getD (bestIndex l i) 0 := by
  unfold sortIndex
  simp only
  have hb := bestIndex_lt l i h
  rw [List.getD_eq_getElem?_getD, List.getElem?_set]
  split
  · rename_i heq
    simp only [List.length_set, hb, if_true, Option.getD_some]
    rw [heq]
  · rw [List.getElem?_set]
    simp [h]

theorem sortIndex_drop_perm (l : List Move) (i : Nat) : ((sortIndex l i).drop i).Perm (l.drop i) := by
  have h : ((sortIndex l i).take i ++ (sortIndex l i).drop i).Perm (l.take i ++ l.drop i) := by
    rw [List.take_append_drop, List.take_append_drop]; exact sortIndex_perm l i
  rw [sortIndex_take] at h
  exact (List.perm_append_left_iff _).1 h

/-! ### `visitOrder` -/

theorem mem_drop_getD (l : List Move) (i : Nat) (b : Move) (h : b ∈ l.drop i) :
    ∃ j, i ≤ j ∧ j < l.length ∧ b = l.getD j 0 := by
  obtain ⟨k, hk, rfl⟩ := List.getElem_of_mem h
  simp only [List.length_drop] at hk
  refine ⟨i + k, by omega, by omega, ?_⟩
  rw [List.getElem_drop]
  simp [List.getD_eq_getElem?_getD, show i + k < l.length by omega]

theorem visit_go_spec (fuel i : Nat) (l acc : List Move) (hf : l.length ≤ i + fuel) :
    ∃ r, visitOrder.go fuel i l acc = acc.reverse ++ r ∧ r.Perm (l.drop i) ∧
      r.Pairwise (fun a b => b.score ≤ a.score) := by
  induction fuel generalizing i l acc with
  | zero =>
    refine ⟨[], by simp [visitOrder.go], ?_, List.Pairwise.nil⟩
    rw [List.drop_of_length_le (by omega)]
  | succ fuel ih =>
    unfold visitOrder.go
    split
    · rename_i hge
      refine ⟨[], by simp, ?_, List.Pairwise.nil⟩
      rw [List.drop_of_length_le (by omega)]
    · rename_i hlt
      have hi : i < l.length := by omega
      have hlen := sortIndex_length l i
      obtain ⟨r, hr, hperm, hsort⟩ :=
        ih (i + 1) (sortIndex l i) ((sortIndex l i).getD i 0 :: acc) (by omega)
      have hi' : i < (sortIndex l i).length := by omega
      have hdrop : (sortIndex l i).drop i = (sortIndex l i).getD i 0 :: (sortIndex l i).drop (i + 1) := by
        rw [List.drop_eq_getElem_cons hi']
        simp [List.getD_eq_getElem?_getD, hi']
      refine ⟨(sortIndex l i).getD i 0 :: r, ?_, ?_, ?_⟩
      · simp only
        rw [hr]; simp
      · have h1 : ((sortIndex l i).getD i 0 :: r).Perm ((sortIndex l i).drop i) := by
          rw [hdrop]; exact List.Perm.cons _ hperm
        exact h1.trans (sortIndex_drop_perm l i)
      · rw [List.pairwise_cons]
        refine ⟨?_, hsort⟩
        intro b hb
        have hb1 : b ∈ (sortIndex l i).drop (i + 1) := hperm.mem_iff.1 hb
        have hb2 : b ∈ (sortIndex l i).drop i := by rw [hdrop]; exact List.mem_cons_of_mem _ hb1
        have hb3 : b ∈ l.drop i := (sortIndex_drop_perm l i).mem_iff.1 hb2
        obtain ⟨j, hij, hj, rfl⟩ := mem_drop_getD l i b hb3
        rw [sortIndex_getD l i hi]
        exact bestIndex_max l i j hij hj

theorem visitOrder_spec (l : List Move) :
    (visitOrder l).Perm l ∧ (visitOrder l).Pairwise (fun a b => b.score ≤ a.score) := by
  obtain ⟨r, hr, hperm, hsort⟩ := visit_go_spec l.length 0 l [] (by omega)
  unfold visitOrder
  rw [hr]
  simpa using ⟨hperm, hsort⟩

/-! ### `scoreMoves` -/

theorem mapM_low (f : Move → Option Move) (hf : ∀ m m', f m = some m' → m' % 65536 = m % 65536)
    (l l' : List Move) (hs : l.mapM f = some l') : l'.map (· % 65536) = l.map (· % 65536) := by
  induction l generalizing l' with
  | nil =>
    simp at hs
    subst hs; rfl
  | cons m ms ih =>
    rw [List.mapM_cons] at hs
    cases hsc : f m with
    | none => simp [hsc] at hs
    | some m' =>
      cases hrest : ms.mapM f with
      | none => simp [hsc, hrest] at hs
      | some r =>
        simp [hsc, hrest] at hs
        subst hs
        simp only [List.map_cons]
        rw [ih r hrest, hf m m' hsc]

theorem scoreMoves_low (p : Pos) (h : Heur) (pv tt : Move) (ply : Nat) (l l' : List Move)
    (hs : scoreMoves p h pv tt ply l = some l') : l'.map (· % 65536) = l.map (· % 65536) := by
  unfold scoreMoves at hs
  refine mapM_low _ ?_ l l' hs
  intro m m' hm
  cases hsc : scoreOf p h pv tt ply m with
  | none => simp [hsc] at hm
  | some s =>
    simp [hsc] at hm
    subst hm
    exact setScore_low m s

end OrderLemmas
end Clemens
