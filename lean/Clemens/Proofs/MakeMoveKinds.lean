import Clemens.Proofs.MakeMoveMid
/-
C02 — the kind-specific stage of `MakeMove` (normal / promotion / en passant / castling) against the
board that `Fide.apply` builds.  One theorem per kind; the hypotheses are the fields of `MoveShape`
(Clemens/Props/C02.lean) that the kind needs.
-/
namespace Clemens

theorem absPos_board (p : Pos) : (absPos p).board = p.board.toArray := rfl
theorem absPos_side (p : Pos) : (absPos p).side = p.side := rfl

/-- the board of `Fide.apply`, with its three decisions (what is placed, en passant?, castling?) as parameters -/
def specBoard (p : Pos) (m : Move) (placed : Nat) (ep castle : Bool) : Array Nat :=
  let b0 := Fide.setSq (Fide.setSq p.board.toArray m.src 0) m.tgt placed
  let b1 := if ep = true then Fide.setSq b0 (if p.side = 0 then m.tgt - 8 else m.tgt + 8) 0 else b0
  if castle = true then
    (if m.tgt = m.src + 2 then Fide.setSq (Fide.setSq b1 (m.src + 3) 0) (m.src + 1) (Fide.mkPiece p.side 3)
     else Fide.setSq (Fide.setSq b1 (m.src - 4) 0) (m.src - 1) (Fide.mkPiece p.side 3))
  else b1

theorem apply_board {p : Pos} {m : Move} (hown : validPiece (p.at m.src) = true) :
    (Fide.apply (absPos p) (absMove m)).board =
      specBoard p m (if m.kind = 1 then Fide.mkPiece p.side m.promo else p.at m.src)
        (decide (pieceType (p.at m.src) = PAWN) && fileOf m.src != fileOf m.tgt && p.at m.tgt == 0)
        (decide (pieceType (p.at m.src) = KING) && (decide (m.tgt = m.src + 2) || decide (m.src = m.tgt + 2))) := by
  have hkind := (valid_facts hown).2.1
  simp only [Fide.apply, absPos_at, absMove, hkind, absPos_board, absPos_side, specBoard]
  by_cases h : m.kind = 1
  · simp only [h, if_true]; rfl
  · simp only [h, if_false]; rfl

theorem specBoard_size (p : Pos) (m : Move) (placed : Nat) (ep castle : Bool) :
    (specBoard p m placed ep castle).size = 64 := by
  unfold specBoard
  cases ep <;> cases castle <;> simp <;> split <;> simp

/-! ### normal moves -/

theorem refines_normal {K : Keys} {p : Pos} {m : Move} (hst : wfState p = true)
    (hs : m.src < 64) (ht : m.tgt < 64) (hne : m.src ≠ m.tgt)
    (hown : validPiece (p.at m.src) = true)
    (htgt : p.at m.tgt = 0 ∨ validPiece (p.at m.tgt) = true)
    (hfwd : pieceType (p.at m.src) = PAWN → if p.side = 0 then m.src < m.tgt else m.tgt < m.src)
    (hr : p.ply < 255 ∧ p.hmc < 255)
    (hk : m.kind = 0)
    (hnc : ¬(pieceType (p.at m.src) = KING ∧ (m.tgt = m.src + 2 ∨ m.src = m.tgt + 2)))
    (hnep : ¬(pieceType (p.at m.src) = PAWN ∧ fileOf m.src ≠ fileOf m.tgt ∧ p.at m.tgt = 0)) :
    ∃ q, makeMove K p m = some q ∧ absPos q = Fide.apply (absPos p) (absMove m) := by
  have hB := apply_board (p := p) (m := m) hown
  have h1 : (decide (pieceType (p.at m.src) = PAWN) && fileOf m.src != fileOf m.tgt && p.at m.tgt == 0) = false := by
    simpa using hnep
  have h2 : (decide (pieceType (p.at m.src) = KING) && (decide (m.tgt = m.src + 2) || decide (m.src = m.tgt + 2))) = false := by
    simpa using hnc
  rw [h1, h2] at hB
  refine refines_of_kind hst hs ht hne hown htgt hfwd hr (mid K p m) ?_ ?_ ?_ ?_
  · simp [stKind, hk]
  · simp
  · rw [hB]; exact specBoard_size ..
  · intro j hj
    rw [hB, mid_at K p m ht]
    simp only [specBoard, getD_setSq, size_setSq, getD_board, Vector.size_toArray, hs, ht, and_true,
      Bool.false_eq_true, if_false, hk]
    simp

theorem wfState_side {p : Pos} (hst : wfState p = true) : p.side < 2 := by
  unfold wfState at hst
  simp only [Bool.and_eq_true, decide_eq_true_eq] at hst
  exact hst.1.1.1.1.1

/-! ### promotions -/

theorem stKind_promo {K : Keys} {q : Pos} {m : Move} (hk : m.kind = 1) (ht : m.tgt < 64)
    (hv : validPiece (q.at m.tgt) = true) (hv2 : validPiece (newPiece q.side m.promo) = true) :
    stKind K q m = some (setP K (delP K q m.tgt) (newPiece q.side m.promo) m.tgt) := by
  unfold stKind
  simp only [hk]
  rw [if_pos trivial, deletePiece_eq ht hv]
  simp only [Option.bind_eq_bind, Option.bind_some, delP_side]
  exact setPiece_eq ht hv2

theorem refines_promotion {K : Keys} {p : Pos} {m : Move} (hst : wfState p = true)
    (hs : m.src < 64) (ht : m.tgt < 64) (hne : m.src ≠ m.tgt)
    (hown : validPiece (p.at m.src) = true)
    (htgt : p.at m.tgt = 0 ∨ validPiece (p.at m.tgt) = true)
    (hfwd : pieceType (p.at m.src) = PAWN → if p.side = 0 then m.src < m.tgt else m.tgt < m.src)
    (hr : p.ply < 255 ∧ p.hmc < 255)
    (hk : m.kind = 1)
    (hpawn : pieceType (p.at m.src) = PAWN)
    (hnep : ¬(pieceType (p.at m.src) = PAWN ∧ fileOf m.src ≠ fileOf m.tgt ∧ p.at m.tgt = 0))
    (hpr : 1 ≤ m.promo ∧ m.promo ≤ 4) :
    ∃ q, makeMove K p m = some q ∧ absPos q = Fide.apply (absPos p) (absMove m) := by
  have hside := wfState_side hst
  have hB := apply_board (p := p) (m := m) hown
  have h1 : (decide (pieceType (p.at m.src) = PAWN) && fileOf m.src != fileOf m.tgt && p.at m.tgt == 0) = false := by
    simpa using hnep
  have h2 : (decide (pieceType (p.at m.src) = KING) && (decide (m.tgt = m.src + 2) || decide (m.src = m.tgt + 2))) = false := by
    simp [hpawn, PAWN, KING]
  rw [h1, h2, if_pos hk] at hB
  have hat : (mid K p m).at m.tgt = p.at m.src := by rw [mid_at K p m ht]; simp
  refine refines_of_kind hst hs ht hne hown htgt hfwd hr _
    (stKind_promo hk ht (by rw [hat]; exact hown) (by rw [mid_side]; exact valid_newPiece hside hpr.2)) ?_ ?_ ?_
  · simp
  · rw [hB]; exact specBoard_size ..
  · intro j hj
    rw [hB, setP_at, delP_at, mid_at K p m ht, mid_side, newPiece_eq_mkPiece]
    simp only [specBoard, getD_setSq, size_setSq, getD_board, Vector.size_toArray, hs, ht, and_true,
      Bool.false_eq_true, if_false]
    by_cases h : j = m.tgt <;> simp [h]

/-! ### en passant -/

theorem stKind_ep {K : Keys} {q : Pos} {m : Move} (hk : m.kind = 2) (v : Nat)
    (hv : (if q.side = 0 then (m.tgt + 248) % 256 else if q.side = 1 then (m.tgt + 8) % 256 else 0) = v)
    (hv64 : v < 64) (hval : validPiece (q.at v) = true) :
    stKind K q m = some (delP K q v) := by
  unfold stKind
  simp only [hk, hv]
  rw [if_neg (by decide), if_pos trivial, deletePiece_eq hv64 hval]
  rfl

theorem refines_enpassant {K : Keys} {p : Pos} {m : Move} (hst : wfState p = true)
    (hs : m.src < 64) (ht : m.tgt < 64) (hne : m.src ≠ m.tgt)
    (hown : validPiece (p.at m.src) = true)
    (hfwd : pieceType (p.at m.src) = PAWN → if p.side = 0 then m.src < m.tgt else m.tgt < m.src)
    (hr : p.ply < 255 ∧ p.hmc < 255)
    (hk : m.kind = 2)
    (hpawn : pieceType (p.at m.src) = PAWN) (hfile : fileOf m.src ≠ fileOf m.tgt) (hempty : p.at m.tgt = 0)
    (hvic : 8 ≤ m.tgt ∧ m.tgt < 56 ∧
      p.at (if p.side = 0 then m.tgt - 8 else m.tgt + 8) = newPiece (switchColor p.side) PAWN) :
    ∃ q, makeMove K p m = some q ∧ absPos q = Fide.apply (absPos p) (absMove m) := by
  have hside := wfState_side hst
  have hB := apply_board (p := p) (m := m) hown
  have h1 : (decide (pieceType (p.at m.src) = PAWN) && fileOf m.src != fileOf m.tgt && p.at m.tgt == 0) = true := by
    simp [hpawn, hfile, hempty]
  have h2 : (decide (pieceType (p.at m.src) = KING) && (decide (m.tgt = m.src + 2) || decide (m.src = m.tgt + 2))) = false := by
    simp [hpawn, PAWN, KING]
  rw [h1, h2, if_neg (by omega)] at hB
  obtain ⟨h8, h56, hvp⟩ := hvic
  generalize hv : (if p.side = 0 then m.tgt - 8 else m.tgt + 8) = v at hvp
  have hv64 : v < 64 := by rw [← hv]; split <;> omega
  have hvt : v ≠ m.tgt := by rw [← hv]; split <;> omega
  have hvs : v ≠ m.src := by
    intro e
    apply hfile
    rw [← e, ← hv]; unfold fileOf; split <;> omega
  have hatv : (mid K p m).at v = p.at v := by rw [mid_at K p m ht]; simp [hvt, hvs]
  have hsw : switchColor p.side < 2 := by unfold switchColor; split <;> omega
  have hmv : (if (mid K p m).side = 0 then (m.tgt + 248) % 256
      else if (mid K p m).side = 1 then (m.tgt + 8) % 256 else 0) = v := by
    rw [mid_side, ← hv]
    by_cases h0 : p.side = 0
    · simp only [h0, if_true]; omega
    · have h1 : p.side = 1 := by omega
      simp only [h1, if_true]; simp; omega
  refine refines_of_kind hst hs ht hne hown (Or.inl hempty) hfwd hr _
    (stKind_ep hk v hmv hv64 (by rw [hatv, hvp]; exact valid_newPiece hsw (by decide))) ?_ ?_ ?_
  · simp
  · rw [hB]; exact specBoard_size ..
  · intro j hj
    rw [hB, delP_at, mid_at K p m ht]
    simp only [specBoard, getD_setSq, size_setSq, getD_board, Vector.size_toArray, hs, ht, and_true,
      Bool.false_eq_true, if_false, if_true, hv, hv64]

/-! ### castling -/

theorem movePiece_eq {K : Keys} {p : Pos} {f t : Nat} (hf : f < 64) (ht : t < 64)
    (hv : validPiece (p.at f) = true) :
    movePiece K p f t = some (setP K (delP K p f) (p.at f) t, p.at f) := by
  unfold movePiece
  rw [deletePiece_eq hf hv]
  simp only [Option.bind_eq_bind, Option.bind_some]
  rw [setPiece_eq ht hv]
  rfl

theorem stKind_castle {K : Keys} {q : Pos} {m : Move} (hk : m.kind = 3) (rf rt : Nat)
    (hsel : (m.tgt = 2 ∧ rf = 0 ∧ rt = 3) ∨ (m.tgt = 6 ∧ rf = 7 ∧ rt = 5) ∨
      (m.tgt = 58 ∧ rf = 56 ∧ rt = 59) ∨ (m.tgt = 62 ∧ rf = 63 ∧ rt = 61))
    (hval : validPiece (q.at rf) = true) :
    stKind K q m = some (setP K (delP K q rf) (q.at rf) rt) := by
  unfold stKind
  rcases hsel with ⟨h, rfl, rfl⟩ | ⟨h, rfl, rfl⟩ | ⟨h, rfl, rfl⟩ | ⟨h, rfl, rfl⟩
  all_goals
    simp only [hk, h]
    rw [if_pos trivial]
    simp only [Nat.reduceEqDiff, if_false, if_true]
    rw [movePiece_eq (by decide) (by decide) hval]
    rfl

set_option linter.unusedSimpArgs false in
theorem refines_castling {K : Keys} {p : Pos} {m : Move} (hst : wfState p = true)
    (hs : m.src < 64) (ht : m.tgt < 64) (hne : m.src ≠ m.tgt)
    (hown : validPiece (p.at m.src) = true)
    (htgt : p.at m.tgt = 0 ∨ validPiece (p.at m.tgt) = true)
    (hr : p.ply < 255 ∧ p.hmc < 255)
    (hk : m.kind = 3)
    (hking : pieceType (p.at m.src) = KING) (hdir : m.tgt = m.src + 2 ∨ m.src = m.tgt + 2)
    (hsrc : m.src = 4 ∨ m.src = 60)
    (hrk : m.tgt = m.src + 2 → p.at (m.src + 3) = newPiece p.side ROOK)
    (hrq : m.src = m.tgt + 2 → p.at (m.src - 4) = newPiece p.side ROOK) :
    ∃ q, makeMove K p m = some q ∧ absPos q = Fide.apply (absPos p) (absMove m) := by
  have hside := wfState_side hst
  have hB := apply_board (p := p) (m := m) hown
  have hfwd : pieceType (p.at m.src) = PAWN → if p.side = 0 then m.src < m.tgt else m.tgt < m.src := by
    intro h; rw [hking] at h; cases h
  have h1 : (decide (pieceType (p.at m.src) = PAWN) && fileOf m.src != fileOf m.tgt && p.at m.tgt == 0) = false := by
    simp [hking, PAWN, KING]
  have h2 : (decide (pieceType (p.at m.src) = KING) && (decide (m.tgt = m.src + 2) || decide (m.src = m.tgt + 2))) = true := by
    simpa [hking] using hdir
  rw [h1, h2, if_neg (by omega)] at hB
  have hrook : validPiece (newPiece p.side ROOK) = true := valid_newPiece hside (by decide)
  have hmk : newPiece p.side ROOK = Fide.mkPiece p.side 3 := newPiece_eq_mkPiece _ _
  -- the four castling moves
  have cases4 : (m.src = 4 ∧ m.tgt = 6) ∨ (m.src = 4 ∧ m.tgt = 2) ∨ (m.src = 60 ∧ m.tgt = 62) ∨
      (m.src = 60 ∧ m.tgt = 58) := by omega
  rcases cases4 with ⟨e1, e2⟩ | ⟨e1, e2⟩ | ⟨e1, e2⟩ | ⟨e1, e2⟩
  · have hR : p.at 7 = newPiece p.side ROOK := by have := hrk (by omega); rwa [e1] at this
    have hat : (mid K p m).at 7 = p.at 7 := by rw [mid_at K p m ht, e1, e2]; simp
    refine refines_of_kind hst hs ht hne hown htgt hfwd hr _
      (stKind_castle hk 7 5 (by omega) (by rw [hat, hR]; exact hrook)) ?_ ?_ ?_
    · simp
    · rw [hB]; exact specBoard_size ..
    · intro j hj
      rw [hB, setP_at, delP_at, hat, hR, hmk, mid_at K p m ht]
      simp only [specBoard, e1, e2, Bool.false_eq_true, if_false, if_true, Nat.reduceAdd, Nat.reduceSub,
        Nat.reduceEqDiff, getD_setSq, size_setSq, getD_board, Vector.size_toArray]
      simp
  · have hR : p.at 0 = newPiece p.side ROOK := by have := hrq (by omega); rwa [e1] at this
    have hat : (mid K p m).at 0 = p.at 0 := by rw [mid_at K p m ht, e1, e2]; simp
    refine refines_of_kind hst hs ht hne hown htgt hfwd hr _
      (stKind_castle hk 0 3 (by omega) (by rw [hat, hR]; exact hrook)) ?_ ?_ ?_
    · simp
    · rw [hB]; exact specBoard_size ..
    · intro j hj
      rw [hB, setP_at, delP_at, hat, hR, hmk, mid_at K p m ht]
      simp only [specBoard, e1, e2, Bool.false_eq_true, if_false, if_true, Nat.reduceAdd, Nat.reduceSub,
        Nat.reduceEqDiff, getD_setSq, size_setSq, getD_board, Vector.size_toArray]
      simp
  · have hR : p.at 63 = newPiece p.side ROOK := by have := hrk (by omega); rwa [e1] at this
    have hat : (mid K p m).at 63 = p.at 63 := by rw [mid_at K p m ht, e1, e2]; simp
    refine refines_of_kind hst hs ht hne hown htgt hfwd hr _
      (stKind_castle hk 63 61 (by omega) (by rw [hat, hR]; exact hrook)) ?_ ?_ ?_
    · simp
    · rw [hB]; exact specBoard_size ..
    · intro j hj
      rw [hB, setP_at, delP_at, hat, hR, hmk, mid_at K p m ht]
      simp only [specBoard, e1, e2, Bool.false_eq_true, if_false, if_true, Nat.reduceAdd, Nat.reduceSub,
        Nat.reduceEqDiff, getD_setSq, size_setSq, getD_board, Vector.size_toArray]
      simp
  · have hR : p.at 56 = newPiece p.side ROOK := by have := hrq (by omega); rwa [e1] at this
    have hat : (mid K p m).at 56 = p.at 56 := by rw [mid_at K p m ht, e1, e2]; simp
    refine refines_of_kind hst hs ht hne hown htgt hfwd hr _
      (stKind_castle hk 56 59 (by omega) (by rw [hat, hR]; exact hrook)) ?_ ?_ ?_
    · simp
    · rw [hB]; exact specBoard_size ..
    · intro j hj
      rw [hB, setP_at, delP_at, hat, hR, hmk, mid_at K p m ht]
      simp only [specBoard, e1, e2, Bool.false_eq_true, if_false, if_true, Nat.reduceAdd, Nat.reduceSub,
        Nat.reduceEqDiff, getD_setSq, size_setSq, getD_board, Vector.size_toArray]
      simp

end Clemens
