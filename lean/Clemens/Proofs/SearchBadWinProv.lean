import Clemens.Proofs.SearchBadWinQ
/-
Lemma library for C04c (task P04h), part 3: the provenance of in-window values.

A value `negamax` returns STRICTLY inside its window `(alpha, beta)` (window in `InWin`, table sane) is never read from the
transposition table and never produced by one of the pruning rules: those only act in non-PV nodes, whose window `(a, a+1)` has
no interior.  In a PV node such a value is the (negated) in-window value of a child that was searched with the window
`(-beta, -alpha)`, or a leaf value: an evaluation returned by `quiescence`, the contempt value, the mate value `-INF + ply`.
`Prov ply v` records this: `v` is in `EvalRange`, or `v = ±(-INF + j)` for the ply `j ≥ ply` of a checkmated node, with the sign
given by the parity of `j - ply`.  At the root (`ply = 0`): `v = -32767 + j` with `j` even, or `v = 32767 - j` with `j` odd.
In particular the root never returns the even negative number `-32718` inside its window (`not_prov_bad`).
-/
namespace Clemens
namespace BadWin
open SearchLemmas P19

/-- where a value strictly inside the window of a node at ply `ply` can come from -/
def Prov (ply : Nat) (v : Int) : Prop :=
  EvalRange v ∨ ∃ j : Nat, ply ≤ j ∧ j ≤ 32767 ∧
    (((j - ply) % 2 = 0 ∧ v = -32767 + (j : Int)) ∨ ((j - ply) % 2 = 1 ∧ v = 32767 - (j : Int)))

theorem prov_neg {ply : Nat} {sc : Int} (h : Prov (ply + 1) sc) : Prov ply (-sc) := by
  rcases h with h | ⟨j, h1, h2, h3⟩
  · left; unfold EvalRange at *; omega
  · right
    refine ⟨j, by omega, h2, ?_⟩
    rcases h3 with ⟨h3, h4⟩ | ⟨h3, h4⟩
    · right; omega
    · left; omega

theorem prov_mate (ply : Nat) (h : ply ≤ 32767) : Prov ply (w16 (-INF + ply)) := by
  right
  refine ⟨ply, Nat.le_refl _, h, Or.inl ⟨by omega, ?_⟩⟩
  unfold w16; rw [INF_eq]; omega

/-- "mated in 49 plies" is not a value the root can return inside its window -/
theorem not_prov_bad : ¬ Prov 0 (-32718) := by
  intro h
  rcases h with h | ⟨j, _, h2, h3⟩
  · unfold EvalRange at h; omega
  · omega

theorem nonpv_eq' {a b : Int} (hw : InWin a b) (h : w16 (b - a) = 1) : b = a + 1 := by
  unfold InWin at hw
  unfold w16 at h
  rw [INF_eq] at hw
  omega

/-! ### the move loop -/

/-- loop invariant: as long as alpha has not been raised above the entry value `a0`, nothing is known but `bestScore ≤ alpha`;
once it has, `bestScore = alpha` is an in-window value with a provenance -/
structure LP (a0 beta : Int) (ply : Nat) (st : LoopSt) : Prop where
  win : InWin st.alpha beta
  best : st.bestScore ≤ st.alpha
  prov : a0 < st.alpha → st.bestScore = st.alpha ∧ Prov ply st.alpha

theorem posti_nmLoop_prov (K : Keys) (C : Pos → Prop)
    (hmove : ∀ p m q, C p → GenMv p m → makeMove K p m = some q → isLegal q = true → C q)
    (recur : NegaFn) (p : Pos) (hp : C p) (a0 beta : Int) (depth ply : Nat) (prev : Move) (fp : Bool)
    (hrec : ∀ q a b d cn pm, C q → InWin a b →
      PostI TTInv (fun r : NodeRes => InRange r.1 ∧ (a < r.1 ∧ r.1 < b → Prov (ply + 1) r.1)) (recur q a b d (ply + 1) cn pm))
    (l : List Move) (hl : ∀ m ∈ l, GenMv p m) (st : LoopSt) (hst : LP a0 beta ply st) :
    PostI TTInv (fun st' : LoopSt => a0 < st'.bestScore ∧ st'.bestScore < beta → Prov ply st'.bestScore)
      (nmLoop K recur p beta depth ply prev fp l st) := by
  induction l generalizing st with
  | nil =>
    unfold nmLoop
    refine posti_pure ?_
    intro h
    have h1 := hst.best
    obtain ⟨e, pr⟩ := hst.prov (by omega)
    rw [e]; exact pr
  | cons m rest ih =>
    replace ih := ih (fun m' hm' => hl m' (List.mem_cons_of_mem _ hm'))
    have hgm : GenMv p m := hl m List.mem_cons_self
    unfold nmLoop
    split
    · exact posti_panic
    · rename_i q hq
      split
      · exact ih st hst
      · rename_i hleg
        have hleg : isLegal q = true := by simpa using hleg
        have hcq : C q := hmove p m q hp hgm hq hleg
        extract_lets st1 alpha hk jp
        have hst1 : LP a0 beta ply st1 := ⟨hst.win, hst.best, hst.prov⟩
        have hwin := hst.win
        have hrw := inwin_range hwin
        split
        · exact ih st1 hst1
        · have hjp : ∀ x : Int × Option (List Move), (st.alpha < x.1 ∧ x.1 < beta → Prov ply x.1) →
              PostI TTInv (fun st' : LoopSt => a0 < st'.bestScore ∧ st'.bestScore < beta → Prov ply st'.bestScore) (jp x) := by
            intro x hx
            obtain ⟨score, childPv⟩ := x
            unfold jp
            dsimp -zeta only
            extract_lets st2 jp2 st3
            have hx' : st.alpha < score ∧ score < beta → Prov ply score := hx
            have hbest := hst.best
            have h2b : st2.bestScore = if score > st.bestScore then score else st.bestScore := by
              by_cases hbs : score > st1.bestScore
              · have e2 : st2 = { st1 with bestMove := m, bestScore := score } := if_pos hbs
                rw [e2]; exact (if_pos hbs).symm
              · have e2 : st2 = st1 := if_neg hbs
                rw [e2]; exact (if_neg hbs).symm
            have h2a : st2.alpha = st.alpha := by
              by_cases hbs : score > st1.bestScore
              · have e2 : st2 = { st1 with bestMove := m, bestScore := score } := if_pos hbs
                rw [e2]
              · have e2 : st2 = st1 := if_neg hbs
                rw [e2]
            split
            · rename_i hge
              have hcut : ¬ st2.bestScore < beta := by
                rw [h2b]
                split <;> omega
              split
              · exact posti_seq (posti_modify_tt ttinv_stable _ (fun _ => rfl)) (fun _ => posti_pure (fun h => absurd h.2 hcut))
              · exact posti_pure (fun h => absurd h.2 hcut)
            · rename_i hnb
              apply ih st3
              by_cases ha : score > alpha
              · have e3 : st3 = { st2 with nodeType := 0, alpha := score, pvl := some (st2.bestMove :: childPv.getD []) } :=
                  if_pos ha
                have ha' : score > st.alpha := ha
                rw [e3]
                refine ⟨inwin_raise hwin ha hnb, ?_, ?_⟩
                · show st2.bestScore ≤ score
                  rw [h2b]
                  split <;> omega
                · intro _
                  refine ⟨?_, hx' ⟨ha', by omega⟩⟩
                  show st2.bestScore = score
                  rw [h2b, if_pos (by omega)]
              · have e3 : st3 = st2 := if_neg ha
                have ha' : ¬ score > st.alpha := ha
                rw [e3]
                refine ⟨by rw [h2a]; exact hwin, ?_, ?_⟩
                · rw [h2a, h2b]
                  split <;> omega
                · rw [h2a, h2b]
                  intro h
                  obtain ⟨e, pr⟩ := hst.prov h
                  rw [if_neg (by omega)]
                  exact ⟨e, pr⟩
          clear_value jp
          have hfull : ∀ x : NodeRes,
              InRange x.1 ∧ (w16 (-beta) < x.1 ∧ x.1 < w16 (-alpha) → Prov (ply + 1) x.1) →
              PostI TTInv (fun st' : LoopSt => a0 < st'.bestScore ∧ st'.bestScore < beta → Prov ply st'.bestScore)
                (jp (w16 (-x.1), x.2)) := by
            intro x hx
            obtain ⟨sc, cpv⟩ := x
            obtain ⟨hr, hint⟩ := hx
            have hr' : InRange sc := hr
            have e1 : w16 (-sc) = -sc := w16_neg_eq hr'
            have e2 : w16 (-beta) = -beta := w16_neg_eq hrw.2
            have e3 : w16 (-alpha) = -st.alpha := w16_neg_eq hrw.1
            rw [e2, e3] at hint
            apply hjp
            intro h
            show Prov ply (w16 (-sc))
            have h' : st.alpha < w16 (-sc) ∧ w16 (-sc) < beta := h
            rw [e1] at h' ⊢
            exact prov_neg (hint ⟨by omega, by omega⟩)
          split
          · exact posti_bind_of (hrec q _ _ _ _ _ hcq (inwin_full hwin)) hfull
          · refine posti_bind_of (hrec q _ _ _ _ _ hcq (inwin_zw hwin)) ?_
            intro x hx0
            obtain ⟨sc0, cpv0⟩ := x
            dsimp only
            split
            · exact posti_bind_of (hrec q _ _ _ _ _ hcq (inwin_full hwin)) hfull
            · rename_i hna
              apply hjp
              intro h
              exact absurd h.1 hna

/-! ### negamax -/

/-- `TTSane` as an instance of the abstract table invariant of the range proof -/
theorem ttinv_tblInv (K : Keys) (C : Pos → Prop) : TblInv K C TTInv where
  stable := ttinv_stable
  sane := fun _ h => h
  save := fun _ _ _ s _ _ _ _ _ hs hsc => ttSave_sane s.tt _ _ _ _ _ _ hs hsc

/-- every value of `negamax` is in range and the table stays sane (`posta_negamax_gen` for `TTSane`) -/
theorem posti_negamax_rng (K : Keys) (C : Pos → Prop)
    (hmove : ∀ p m q, C p → GenMv p m → makeMove K p m = some q → isLegal q = true → C q)
    (hnull : ∀ p, C p → isInCheck p p.side = false → C (makeNull K p).1)
    (heval : ∀ p v, C p → evalRaw p = some v → EvalRange v)
    (fuel : Nat) (p : Pos) (hp : C p) (alpha beta : Int) (depth ply : Nat) (cn : Bool) (prev : Move)
    (hw : InWin alpha beta) (hply : ply + fuel ≤ 32767) :
    PostI TTInv (fun r : NodeRes => InRange r.1) (negamax K fuel p alpha beta depth ply cn prev) :=
  (posta_negamax_gen K C TTInv hmove hnull (fun p v hp hv => evalrange_mate (heval p v hp hv)) (ttinv_tblInv K C)
    fuel p hp alpha beta depth ply cn prev hw hply).toPostI

theorem posti_negamax_prov_gen (K : Keys) (C : Pos → Prop)
    (hmove : ∀ p m q, C p → GenMv p m → makeMove K p m = some q → isLegal q = true → C q)
    (hnull : ∀ p, C p → isInCheck p p.side = false → C (makeNull K p).1)
    (heval : ∀ p v, C p → evalRaw p = some v → EvalRange v)
    (fuel : Nat) (p : Pos) (hp : C p) (alpha beta : Int) (depth ply : Nat) (cn : Bool) (prev : Move)
    (hw : InWin alpha beta) (hply : ply + fuel ≤ 32767) :
    PostI TTInv (fun r : NodeRes => alpha < r.1 ∧ r.1 < beta → Prov ply r.1)
      (negamax K fuel p alpha beta depth ply cn prev) := by
  induction fuel generalizing p alpha beta depth ply cn prev with
  | zero => unfold negamax; exact posti_panic
  | succ fuel ih =>
    by_cases hnpv : beta = alpha + 1
    · -- a zero window has no interior
      exact posti_mono (posti_negamax_rng K C hmove hnull heval (fuel + 1) p hp alpha beta depth ply cn prev hw hply)
        (fun r _ h => by omega)
    · have hpvT : (w16 (beta - alpha) != 1) = true := by
        rw [bne_iff_ne]
        exact fun h => hnpv (nonpv_eq' hw h)
      have hab := inwin_range hw
      unfold negamax
      refine posti_seq (posti_poll ttinv_stable) ?_
      intro _
      extract_lets isRoot mateValue pvNode inCheck depth' R body
      have hpv : pvNode = true := hpvT
      have hbody : PostI TTInv (fun r : NodeRes => alpha < r.1 ∧ r.1 < beta → Prov ply r.1) body := by
        unfold body
        refine posti_seq (posti_true posti_get) ?_
        intro s
        extract_lets pvMove
        split
        rename_i ttScore use ttMove httg
        split
        · rename_i hc
          exfalso
          simp [hpv] at hc
        · extract_lets jp3 jp2 jp1
          have h3 : ∀ fp, PostI TTInv (fun r : NodeRes => alpha < r.1 ∧ r.1 < beta → Prov ply r.1) (jp3 fp) := by
            intro fp
            unfold jp3
            refine posti_seq (posti_true posti_get) ?_
            intro s2
            refine posti_bind_of (posti_ofOption _) ?_
            intro scored hsc
            have hlg := genMv_visit_moves p _ _ _ ply scored hsc
            have hstR : StR beta { alpha := alpha, bestScore := -INF } := ⟨hw, inrange_minf⟩
            have hst0 : LP alpha beta ply { alpha := alpha, bestScore := -INF } :=
              ⟨hw, hw.1, fun h => absurd h (Int.lt_irrefl _)⟩
            refine posti_bind_of (posti_and
              (posta_nmLoop_rng ttinv_stable K C hmove _ p hp beta depth' ply prev fp
                (fun q a b d cn pm hq h => posta_negamax_gen K C TTInv hmove hnull
                  (fun p v hp hv => evalrange_mate (heval p v hp hv)) (ttinv_tblInv K C) fuel q hq a b d (ply + 1) cn pm h (by omega))
                _ hlg _ hstR).toPostI
              (posti_nmLoop_prov K C hmove _ p hp alpha beta depth' ply prev fp
                (fun q a b d cn pm hq h => posti_and
                  (posti_negamax_rng K C hmove hnull heval fuel q hq a b d (ply + 1) cn pm h (by omega))
                  (ih q hq a b d (ply + 1) cn pm h (by omega)))
                _ hlg _ hst0)) ?_
            intro st hst
            obtain ⟨hbest, hq⟩ := hst
            split
            · refine posti_pure ?_
              intro _
              show Prov ply (if inCheck = true then mateValue else contempt p)
              split
              · exact prov_mate ply (by omega)
              · exact Or.inl (evalrange_contempt p)
            · refine posti_seq (posti_poll ttinv_stable) (fun _ => ?_)
              refine posti_seq (posti_modify _ ?_) (fun _ => posti_pure hq)
              intro s3 hs3
              exact ttSave_sane _ _ _ _ _ _ _ hs3 hbest
          have h2 : PostI TTInv (fun r : NodeRes => alpha < r.1 ∧ r.1 < beta → Prov ply r.1) (jp2 false) := by
            unfold jp2
            split
            · rename_i hc; cases hc
            · split
              · rename_i hc
                simp [hpv] at hc
              · exact h3 false
          have h1 : PostI TTInv (fun r : NodeRes => alpha < r.1 ∧ r.1 < beta → Prov ply r.1) (jp1 none) := by
            unfold jp1
            split
            · rename_i hc; cases hc
            · split
              · rename_i hc
                simp [hpv] at hc
              · exact h2
          split
          · rename_i hc
            simp [hpv] at hc
          · exact h1
      split
      · refine posti_bind_of (posti_and_post
          (posta_quiescence_qb ttinv_stable K C hmove (fun p v hp hv => evalrange_mate (heval p v hp hv)) 128 p hp alpha beta ply
            hab.1 hab.2).toPostI
          (post_quiescence_int K C hmove heval 128 p hp alpha beta ply hab.1 hab.2)) ?_
        intro v hv
        exact posti_pure (fun h => Or.inl (hv.2 h))
      · refine posti_seq (posti_modify_tt ttinv_stable _ (fun _ => rfl)) (fun _ => posti_seq (posti_true posti_get) (fun s => ?_))
        split
        · exact posti_pure (fun _ => Or.inl (evalrange_contempt p))
        · refine posti_seq (posti_modify_tt ttinv_stable _ (fun _ => rfl)) (fun _ => ?_)
          exact posti_popPath ttinv_stable body hbody

/-- the root search: a score strictly inside an `InWin` window, from a sane table, has a provenance at ply 0 -/
theorem searchRoot_prov_gen (K : Keys) (C : Pos → Prop)
    (hmove : ∀ p m q, C p → GenMv p m → makeMove K p m = some q → isLegal q = true → C q)
    (hnull : ∀ p, C p → isInCheck p p.side = false → C (makeNull K p).1)
    (heval : ∀ p v, C p → evalRaw p = some v → EvalRange v)
    (root : Pos) (hroot : C root) (d : Nat) (a b : Int) (hw : InWin a b) (s s' : SState) (hs : TTSane s.tt)
    (v : Int) (pvl : Option (List Move)) (h : searchRoot K root d a b s = (.ok (v, pvl), s')) (h1 : a < v) (h2 : v < b) :
    Prov 0 v := by
  unfold searchRoot at h
  rw [bind_ok (SM.modify _) _ s { s with killers := {} } () rfl] at h
  exact (posti_negamax_prov_gen K C hmove hnull heval 300 root hroot a b d 0 true 0 hw (by decide)
    { s with killers := {} } (v, pvl) s' hs h).2 ⟨h1, h2⟩

/-! ### the statements for a class closed under ALL move words (as used by C04c) -/

theorem posti_negamax_prov (K : Keys) (C : Pos → Prop)
    (hmove : ∀ p m q, C p → makeMove K p m = some q → isLegal q = true → C q)
    (hnull : ∀ p, C p → isInCheck p p.side = false → C (makeNull K p).1)
    (heval : ∀ p v, C p → evalRaw p = some v → EvalRange v)
    (fuel : Nat) (p : Pos) (hp : C p) (alpha beta : Int) (depth ply : Nat) (cn : Bool) (prev : Move)
    (hw : InWin alpha beta) (hply : ply + fuel ≤ 32767) :
    PostI TTInv (fun r : NodeRes => alpha < r.1 ∧ r.1 < beta → Prov ply r.1)
      (negamax K fuel p alpha beta depth ply cn prev) :=
  posti_negamax_prov_gen K C (fun p m q hp _ => hmove p m q hp) hnull heval fuel p hp alpha beta depth ply cn prev hw hply

theorem searchRoot_prov (K : Keys) (C : Pos → Prop)
    (hmove : ∀ p m q, C p → makeMove K p m = some q → isLegal q = true → C q)
    (hnull : ∀ p, C p → isInCheck p p.side = false → C (makeNull K p).1)
    (heval : ∀ p v, C p → evalRaw p = some v → EvalRange v)
    (root : Pos) (hroot : C root) (d : Nat) (a b : Int) (hw : InWin a b) (s s' : SState) (hs : TTSane s.tt)
    (v : Int) (pvl : Option (List Move)) (h : searchRoot K root d a b s = (.ok (v, pvl), s')) (h1 : a < v) (h2 : v < b) :
    Prov 0 v :=
  searchRoot_prov_gen K C (fun p m q hp _ => hmove p m q hp) hnull heval root hroot d a b hw s s' hs v pvl h h1 h2

end BadWin
end Clemens
