import Clemens.Proofs.EvalBits
/-
Lemma library for C15 (part 1), constant-independent part: everything here is proved for ARBITRARY weights.

 * `absLe`, `posPart`, `absI` and products of a symbolic weight with a bounded quantity;
 * `maxOver` / `minOver`: the largest / smallest value of a table, computed from the table (no literal);
 * `legalSideRaw` (the material constraints of one colour) and `sideHi`: the exact maximum of a linear form
   `w0·nP + w1·nN + w2·nB + w3·nR + w4·nQ + w5·nK` over legal material, as a function of the weights:
   the initial men beyond the pawns, the king, and the eight "pawn slots" all given to the most valuable kind;
 * the truncated division by a symbolic positive divisor.
-/
namespace Clemens

/-! ### absolute bounds, positive part -/

def absLe (x M : Int) : Prop := -M ≤ x ∧ x ≤ M

/-- `max x 0` -/
def posPart (x : Int) : Int := max x 0
/-- `|x|` -/
def absI (x : Int) : Int := max x (-x)

theorem posPart_nonneg (x : Int) : 0 ≤ posPart x := by unfold posPart; omega
theorem le_posPart (x : Int) : x ≤ posPart x := by unfold posPart; omega
theorem absI_nonneg (x : Int) : 0 ≤ absI x := by unfold absI; omega

theorem mul_bounds (a x lo hi : Int) (hlo : lo ≤ a) (hhi : a ≤ hi) (hx : 0 ≤ x) :
    lo * x ≤ a * x ∧ a * x ≤ hi * x :=
  ⟨Int.mul_le_mul_of_nonneg_right hlo hx, Int.mul_le_mul_of_nonneg_right hhi hx⟩

/-- a weight of unknown sign times a quantity in `[0, Y]` -/
theorem mul_le_posPart (k y Y : Int) (hy0 : 0 ≤ y) (hy : y ≤ Y) : k * y ≤ posPart k * Y := by
  by_cases hk : 0 ≤ k
  · have : posPart k = k := by unfold posPart; omega
    rw [this]; exact Int.mul_le_mul_of_nonneg_left hy hk
  · have h0 : posPart k = 0 := by unfold posPart; omega
    have h1 : k * y ≤ 0 * y := Int.mul_le_mul_of_nonneg_right (by omega) hy0
    rw [h0]; omega

theorem neg_posPart_le_mul (k y Y : Int) (hy0 : 0 ≤ y) (hy : y ≤ Y) : -(posPart (-k) * Y) ≤ k * y := by
  have h := mul_le_posPart (-k) y Y hy0 hy
  rw [Int.neg_mul] at h
  omega

theorem posPart_mul_nonneg (k y : Int) (hy : 0 ≤ y) : 0 ≤ posPart k * y :=
  Int.mul_nonneg (posPart_nonneg k) hy

theorem absLe_mul_of_nonneg (s x X : Int) (hs : 0 ≤ s) (hx : absLe x X) : absLe (s * x) (s * X) := by
  unfold absLe at *
  have h1 := Int.mul_le_mul_of_nonneg_left hx.2 hs
  have h2 := Int.mul_le_mul_of_nonneg_left hx.1 hs
  rw [Int.mul_neg] at h2
  exact ⟨h2, h1⟩

/-- a scalar of unknown sign times a quantity bounded in absolute value -/
theorem absLe_mul_left (s x X : Int) (hx : absLe x X) : absLe (s * x) (absI s * X) := by
  by_cases hs : 0 ≤ s
  · have : absI s = s := by unfold absI; omega
    rw [this]; exact absLe_mul_of_nonneg s x X hs hx
  · have h0 : absI s = -s := by unfold absI; omega
    have hx' : absLe (-x) X := by unfold absLe at *; omega
    have := absLe_mul_of_nonneg (-s) (-x) X (by omega) hx'
    rw [Int.neg_mul_neg] at this
    rw [h0]; exact this

/-- a quantity bounded in absolute value times a factor in `[0, G]` -/
theorem absLe_mul_right (m g M G : Int) (hm : absLe m M) (hg0 : 0 ≤ g) (hg : g ≤ G) : absLe (m * g) (M * G) := by
  unfold absLe at *
  have hM : 0 ≤ M := by omega
  have h1 := Int.mul_le_mul_of_nonneg_right hm.2 hg0
  have h2 := Int.mul_le_mul_of_nonneg_right hm.1 hg0
  have h3 := Int.mul_le_mul_of_nonneg_left hg hM
  rw [Int.neg_mul] at h2
  omega

/-! ### extrema of a table -/

/-- `max (f 0, …, f (n-1))` (and `f 0` for `n = 0`) -/
def maxOver (f : Nat → Int) : Nat → Int
  | 0 => f 0
  | n+1 => max (maxOver f n) (f n)

def minOver (f : Nat → Int) : Nat → Int
  | 0 => f 0
  | n+1 => min (minOver f n) (f n)

theorem le_maxOver (f : Nat → Int) (n s : Nat) (h : s < n) : f s ≤ maxOver f n := by
  induction n with
  | zero => omega
  | succ n ih =>
    unfold maxOver
    by_cases hs : s = n
    · subst hs; omega
    · have := ih (by omega); omega

theorem minOver_le (f : Nat → Int) (n s : Nat) (h : s < n) : minOver f n ≤ f s := by
  induction n with
  | zero => omega
  | succ n ih =>
    unfold minOver
    by_cases hs : s = n
    · subst hs; omega
    · have := ih (by omega); omega

/-! ### legal material of one colour, and the maximum of a linear form over it -/

/-- raw form of `LegalSide` of `Props/C15` on the six popcounts of one colour -/
def legalSideRaw (nP nN nB nR nQ nK : Nat) : Prop :=
  nK = 1 ∧ nP ≤ 8 ∧ nP + nN + nB + nR + nQ + nK ≤ 16 ∧
  nP + (nN - 2) + (nB - 2) + (nR - 2) + (nQ - 1) ≤ 8

/-- the material constraints of colour `c` in raw form -/
def legalRawOf (p : Pos) (c : Nat) : Prop :=
  legalSideRaw (popcount (p.pieces c 0)) (popcount (p.pieces c 1)) (popcount (p.pieces c 2))
    (popcount (p.pieces c 3)) (popcount (p.pieces c 4)) (popcount (p.pieces c 5))

/-- the largest of five weights, at least 0 -/
def max5 (a b c d e : Int) : Int := max (max (max (max (max a b) c) d) e) 0

/-- the maximum of `w0·nP + w1·nN + w2·nB + w3·nR + w4·nQ + w5·nK` over the legal material of one colour: two knights, two
bishops, two rooks and a queen count if their weight is positive, the king always, and each of the eight pawns is kept or
promoted to whatever weighs most (or is gone, if nothing has positive weight) -/
def sideHi (w0 w1 w2 w3 w4 w5 : Int) : Int :=
  2 * posPart w1 + 2 * posPart w2 + 2 * posPart w3 + posPart w4 + w5 + 8 * max5 w0 w1 w2 w3 w4

theorem side_step (w W : Int) (n b : Nat) (hW : 0 ≤ W) (hw : w ≤ W) :
    w * (n : Int) ≤ (b : Int) * posPart w + W * ((n - b : Nat) : Int) := by
  have hk0 : (0 : Int) ≤ ((n - b : Nat) : Int) := by omega
  have hk : (n : Int) ≤ (b : Int) + ((n - b : Nat) : Int) := by omega
  generalize ((n - b : Nat) : Int) = k at hk0 hk
  have hn : (0 : Int) ≤ (n : Int) := by omega
  have hb : (0 : Int) ≤ (b : Int) := by omega
  generalize (n : Int) = n' at hk hn
  generalize (b : Int) = b' at hk hb
  have hp := posPart_nonneg w
  have hpw := le_posPart w
  have h1 : w * n' ≤ posPart w * n' := Int.mul_le_mul_of_nonneg_right hpw hn
  have h2 : posPart w * n' ≤ posPart w * (b' + k) := Int.mul_le_mul_of_nonneg_left hk hp
  have h3 : posPart w * k ≤ W * k := Int.mul_le_mul_of_nonneg_right (by unfold posPart; omega) hk0
  rw [Int.mul_add] at h2
  rw [Int.mul_comm b' (posPart w)]
  omega

theorem side_raw_le (w0 w1 w2 w3 w4 w5 : Int) (nP nN nB nR nQ nK : Nat) (h : legalSideRaw nP nN nB nR nQ nK) :
    w0 * (nP : Int) + w1 * (nN : Int) + w2 * (nB : Int) + w3 * (nR : Int) + w4 * (nQ : Int) + w5 * (nK : Int)
      ≤ sideHi w0 w1 w2 w3 w4 w5 := by
  obtain ⟨hK, _, _, hX⟩ := h
  subst hK
  unfold sideHi
  have hW : 0 ≤ max5 w0 w1 w2 w3 w4 ∧ w0 ≤ max5 w0 w1 w2 w3 w4 ∧ w1 ≤ max5 w0 w1 w2 w3 w4 ∧
      w2 ≤ max5 w0 w1 w2 w3 w4 ∧ w3 ≤ max5 w0 w1 w2 w3 w4 ∧ w4 ≤ max5 w0 w1 w2 w3 w4 := by
    unfold max5; omega
  generalize max5 w0 w1 w2 w3 w4 = W at hW
  obtain ⟨hW0, h0, h1, h2, h3, h4⟩ := hW
  have e0 : w0 * (nP : Int) ≤ W * (nP : Int) := Int.mul_le_mul_of_nonneg_right h0 (by omega)
  have e1 := side_step w1 W nN 2 hW0 h1
  have e2 := side_step w2 W nB 2 hW0 h2
  have e3 := side_step w3 W nR 2 hW0 h3
  have e4 := side_step w4 W nQ 1 hW0 h4
  have hX' : (nP : Int) + ((nN - 2 : Nat) : Int) + ((nB - 2 : Nat) : Int) + ((nR - 2 : Nat) : Int)
      + ((nQ - 1 : Nat) : Int) ≤ 8 := by omega
  have e := Int.mul_le_mul_of_nonneg_left hX' hW0
  simp only [Int.mul_add] at e
  simp only [Int.cast_ofNat_Int, Int.one_mul, Int.mul_one] at e1 e2 e3 e4 ⊢
  rw [Int.mul_comm W 8] at e
  omega

/-- the linear form on the popcounts of colour `c` -/
def sideSum (p : Pos) (c : Nat) (w0 w1 w2 w3 w4 w5 : Int) : Int :=
  w0 * pc (p.pieces c 0) + w1 * pc (p.pieces c 1) + w2 * pc (p.pieces c 2) + w3 * pc (p.pieces c 3)
    + w4 * pc (p.pieces c 4) + w5 * pc (p.pieces c 5)

theorem sideSum_le (p : Pos) (c : Nat) (h : legalRawOf p c) (w0 w1 w2 w3 w4 w5 : Int) :
    sideSum p c w0 w1 w2 w3 w4 w5 ≤ sideHi w0 w1 w2 w3 w4 w5 :=
  side_raw_le w0 w1 w2 w3 w4 w5 _ _ _ _ _ _ h

theorem le_sideSum (p : Pos) (c : Nat) (h : legalRawOf p c) (w0 w1 w2 w3 w4 w5 : Int) :
    -sideHi (-w0) (-w1) (-w2) (-w3) (-w4) (-w5) ≤ sideSum p c w0 w1 w2 w3 w4 w5 := by
  have := sideSum_le p c h (-w0) (-w1) (-w2) (-w3) (-w4) (-w5)
  unfold sideSum at *
  simp only [Int.neg_mul] at this
  omega

/-! ### truncated division by a positive divisor -/

theorem tdiv_bounds (x G M : Int) (hG : 0 < G) (h1 : -(M * G) ≤ x) (h2 : x ≤ M * G) :
    -M ≤ x.tdiv G ∧ x.tdiv G ≤ M := by
  by_cases hx : 0 ≤ x
  · rw [Int.tdiv_eq_ediv_of_nonneg hx]
    have a : x / G ≤ M := Int.ediv_le_of_le_mul hG h2
    have b : 0 ≤ x / G := Int.ediv_nonneg hx (by omega)
    have hM : 0 ≤ M := by omega
    omega
  · have e : x.tdiv G = -((-x) / G) := by
      have h := Int.neg_tdiv (-x) G
      rw [Int.neg_neg] at h
      rw [h, Int.tdiv_eq_ediv_of_nonneg (by omega)]
    have a : (-x) / G ≤ M := Int.ediv_le_of_le_mul hG (by omega)
    have b : 0 ≤ (-x) / G := Int.ediv_nonneg (by omega) (by omega)
    have hM : 0 ≤ M := by omega
    rw [e]; omega

end Clemens
