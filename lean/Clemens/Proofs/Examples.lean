import Clemens.Model.WF
/-
Concrete positions used by the satisfiability examples and counterexamples of the Props files.
-/
namespace Clemens.Ex

/-- all-zero Zobrist keys (the theorems hold for every key table) -/
def K0 : Keys := { piece := fun _ _ _ => 0#64, side := 0#64, castling := fun _ => 0#64, ep := fun _ => 0#64 }

/-- a position from a board array, built the way `position.New()` does -/
def posOfBoard (board : List Nat) (side castling ep : Nat) : Pos :=
  let p : Pos := { Pos.empty with
    board := (Vector.ofFn (n := 64) fun i => board.getD i.val 0), side := side, castling := castling, ep := ep }
  helperBitboards (boardToBitBoard p)

/-- white Ke1 Rh1 Ra1, black Ke8 Ra8 pa7, white to move, castling rights KQ -/
def castlePos : Pos :=
  posOfBoard ([4, 0, 0, 0, 6, 0, 0, 4] ++ List.replicate 40 0 ++ [9, 0, 0, 0, 0, 0, 0, 0, 12, 0, 0, 0, 14, 0, 0, 0]) 0 3 64

/-- `castlePos` with a white bishop on f1 -/
def blockedPos : Pos :=
  posOfBoard ([4, 0, 0, 0, 6, 3, 0, 4] ++ List.replicate 40 0 ++ [9, 0, 0, 0, 0, 0, 0, 0, 12, 0, 0, 0, 14, 0, 0, 0]) 0 3 64

/-- the word for white O-O: e1g1, kind 3 -/
def moveOO : Move := (3 <<< 12) ||| 4 ||| (6 <<< 6)

/-- white Ka1, black Kg8, white to move, a stale castling right Q: consistent (`wfShape`) but not legal -/
def cornerPos : Pos := posOfBoard ([6] ++ List.replicate 61 0 ++ [14, 0]) 0 2 64

end Clemens.Ex
