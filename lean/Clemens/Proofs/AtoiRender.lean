import Clemens.Model.Fen
/-
`atoi` inverts decimal rendering (`toString : Int → String`), for the stretch goal of C07.
-/
namespace Clemens

/-- the bytes of a string as the model sees them -/
def bytesOf (s : String) : Bytes := s.toUTF8.toList.map UInt8.toNat

theorem byteArray_toList_loop (bs : ByteArray) (i : Nat) (r : List UInt8) (hi : i ≤ bs.size) :
    ByteArray.toList.loop bs i r = r.reverse ++ bs.data.toList.drop i := by
  fun_induction ByteArray.toList.loop bs i r with
  | case1 i r h ih =>
    rw [ih (by omega)]
    have hlt : i < bs.data.toList.length := by rw [Array.length_toList, ByteArray.size_data]; exact h
    have hget : bs.get! i = bs.data.toList[i] := by
      cases bs with | mk d => simp [ByteArray.get!, getElem!_pos d i (by simpa using hlt)]
    rw [List.drop_eq_getElem_cons hlt, hget]; simp
  | case2 i r h =>
    have : bs.data.toList.length ≤ i := by rw [Array.length_toList, ByteArray.size_data]; omega
    simp [List.drop_eq_nil_of_le this]

theorem byteArray_toList (bs : ByteArray) : bs.toList = bs.data.toList := by
  simp [ByteArray.toList, byteArray_toList_loop]

/-- an ASCII string is stored as its character codes -/
theorem bytesOf_ofList_ascii (l : List Char) (h : ∀ c ∈ l, c.val ≤ 127) :
    bytesOf (String.ofList l) = l.map Char.toNat := by
  unfold bytesOf
  rw [String.toUTF8, String.toByteArray_ofList, byteArray_toList, List.utf8Encode, List.toList_data_toByteArray]
  induction l with
  | nil => rfl
  | cons c l ih =>
    have hc : c.val ≤ 127 := h c (by simp)
    rw [List.flatMap_cons, String.utf8EncodeChar_eq_singleton (Char.utf8Size_eq_one_iff.2 hc)]
    simp only [List.cons_append, List.nil_append, List.map_cons]
    rw [ih (fun d hd => h d (by simp [hd]))]
    congr 1
    rw [UInt32.toNat_toUInt8, Char.toNat_val]
    have : c.toNat ≤ 127 := by rw [UInt32.le_iff_toNat_le, Char.toNat_val] at hc; exact hc
    omega

theorem bytesOf_append (s t : String) : bytesOf (s ++ t) = bytesOf s ++ bytesOf t := by
  simp [bytesOf, String.toUTF8, String.toByteArray_append, byteArray_toList]

theorem isDigit_iff (c : Char) : c.isDigit = true ↔ 48 ≤ c.toNat ∧ c.toNat ≤ 57 := by
  unfold Char.isDigit
  simp only [Bool.and_eq_true, decide_eq_true_eq, ge_iff_le, UInt32.le_iff_toNat_le, Char.toNat_val]
  exact Iff.rfl

theorem digits_ascii (n : Nat) : ∀ c ∈ Nat.toDigits 10 n, c.val ≤ 127 := by
  intro c hc
  have := (isDigit_iff c).1 (Nat.isDigit_of_mem_toDigits (by decide) (by decide) hc)
  rw [UInt32.le_iff_toNat_le, Char.toNat_val]
  show c.toNat ≤ 127
  omega

theorem bytesOf_repr (n : Nat) : bytesOf n.repr = (Nat.toDigits 10 n).map Char.toNat := by
  rw [Nat.repr_eq_ofList_toDigits, bytesOf_ofList_ascii _ (digits_ascii n)]

/-- facts about the decimal digits of `n` as bytes: non-empty, all digits, value `n` -/
theorem digitBytes_facts (n : Nat) :
    let ds := (Nat.toDigits 10 n).map Char.toNat
    ds ≠ [] ∧ (ds.all fun b => 48 ≤ b && b ≤ 57) = true ∧ ds.foldl (fun acc b => acc * 10 + (b - 48)) 0 = n := by
  refine ⟨by simp [Nat.toDigits_ne_nil], ?_, ?_⟩
  · simp only [List.all_eq_true, List.mem_map, forall_exists_index, and_imp]
    intro b c hc hb
    have := (isDigit_iff c).1 (Nat.isDigit_of_mem_toDigits (by decide) (by decide) hc)
    subst hb; simp [this]
  · have h := Nat.ofDigitChars_ten_toDigits (n := n)
    rw [Nat.ofDigitChars_eq_foldl] at h
    rw [List.foldl_map]
    conv => rhs; rw [← h]
    congr 1
    funext acc c
    simp [Nat.mul_comm]

/-- `atoi` on an unsigned digit string -/
theorem atoi_digits (ds : Bytes) (hne : ds ≠ []) (hall : (ds.all fun b => 48 ≤ b && b ≤ 57) = true) :
    atoi ds =
      (if ds.foldl (fun acc b => acc * 10 + (b - 48)) 0 ≤ 9223372036854775807
       then some ((ds.foldl (fun acc b => acc * 10 + (b - 48)) 0 : Nat) : Int) else none) := by
  cases ds with
  | nil => exact absurd rfl hne
  | cons d rest =>
    have hd : 48 ≤ d := by
      have := (List.all_eq_true.1 hall) d (by simp)
      simp only [Bool.and_eq_true, decide_eq_true_eq] at this
      exact this.1
    have h43 : d ≠ 43 := by omega
    have h45 : d ≠ 45 := by omega
    unfold atoi
    split
    next neg digits heq =>
    have : (neg, digits) = (false, d :: rest) := by
      rw [← heq]
      split
      · next heq' => simp only [List.cons.injEq] at heq'; omega
      · next heq' => simp only [List.cons.injEq] at heq'; omega
      · rfl
    simp only [Prod.mk.injEq] at this
    obtain ⟨rfl, rfl⟩ := this
    simp only [List.isEmpty_cons, Bool.false_eq_true, if_false, hall, Bool.not_true]

/-- `atoi` on `-` followed by a digit string -/
theorem atoi_neg_digits (ds : Bytes) (hne : ds ≠ []) (hall : (ds.all fun b => 48 ≤ b && b ≤ 57) = true) :
    atoi (45 :: ds) =
      (if ds.foldl (fun acc b => acc * 10 + (b - 48)) 0 ≤ 9223372036854775808
       then some (-((ds.foldl (fun acc b => acc * 10 + (b - 48)) 0 : Nat) : Int)) else none) := by
  have he : ds.isEmpty = false := by cases ds <;> simp_all
  simp only [atoi, he, Bool.false_eq_true, if_false, hall, Bool.not_true, if_true]

theorem bytesOf_toString_ofNat (n : Nat) : bytesOf (toString (Int.ofNat n)) = (Nat.toDigits 10 n).map Char.toNat :=
  bytesOf_repr n

theorem bytesOf_toString_negSucc (m : Nat) :
    bytesOf (toString (Int.negSucc m)) = 45 :: (Nat.toDigits 10 (m + 1)).map Char.toNat := by
  show bytesOf ("-" ++ (m + 1).repr) = _
  rw [bytesOf_append, bytesOf_repr]
  have : bytesOf "-" = [45] := by decide +kernel
  rw [this]; rfl

theorem atoi_toString (v : Int) (hv : -(2^63) ≤ v ∧ v < 2^63) : atoi (bytesOf (toString v)) = some v := by
  cases v with
  | ofNat n =>
    obtain ⟨h1, h2, h3⟩ := digitBytes_facts n
    rw [bytesOf_toString_ofNat, atoi_digits _ h1 h2, h3]
    have : n ≤ 9223372036854775807 := by
      have := hv.2; simp only [Int.ofNat_eq_natCast] at this; omega
    simp [this]
  | negSucc m =>
    obtain ⟨h1, h2, h3⟩ := digitBytes_facts (m + 1)
    rw [bytesOf_toString_negSucc, atoi_neg_digits _ h1 h2, h3]
    have : m + 1 ≤ 9223372036854775808 := by
      have := hv.1; omega
    simp only [this, if_true]
    congr 1

theorem atoiFull_toString (v : Int) (hv : -(2^63) ≤ v ∧ v < 2^63) : atoiFull (bytesOf (toString v)) = (v, true) := by
  have h := atoi_toString v hv
  unfold atoiFull
  rw [h]

end Clemens
