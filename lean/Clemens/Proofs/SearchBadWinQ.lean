import Clemens.Proofs.SearchBadWinTT
/-
Lemma library for C04c (task P04h), part 2: a value `quiescence` returns strictly inside its window is a static evaluation
(of the node or of a node further down the capture tree), hence lies in `EvalRange`.  (`quiescence` is fail-hard: everything else
it returns is one of the two window bounds.)
-/
namespace Clemens

/-- the range the static evaluation certainly stays in: C15 (`eval_bounded_explicit`) proves `|eval| ≤ evalBound` for legal material,
and `evalBound ≤ 20000` is a `decide`d fact about the current tuning constants (`evalBound_le_20000`, `Proofs/EvalConsts.lean`) -/
def EvalRange (v : Int) : Prop := -20000 ≤ v ∧ v ≤ 20000

namespace BadWin
open SearchLemmas P19

theorem evalrange_inrange {v : Int} (h : EvalRange v) : InRange v := by
  unfold EvalRange at h; unfold InRange; rw [INF_eq]; omega

theorem evalrange_mate {v : Int} (h : EvalRange v) : -(INF - 100) < v ∧ v < INF - 100 := by
  unfold EvalRange at h; rw [INF_eq]; omega

theorem evalrange_neg {v : Int} (h : EvalRange v) : EvalRange (w16 (-v)) := by
  unfold EvalRange w16 at *; omega

theorem evalrange_contempt (p : Pos) : EvalRange (contempt p) := by
  have := contempt_small p
  unfold EvalRange
  omega

theorem post_and {α} {P Q : α → Prop} {m : SM α} (h1 : Post P m) (h2 : Post Q m) : Post (fun a => P a ∧ Q a) m :=
  fun s a s' hs => ⟨h1 s a s' hs, h2 s a s' hs⟩

theorem post_of_posti {α} {P : α → Prop} {m : SM α} (h : PostI (fun _ => True) P m) : Post P m :=
  fun s a s' hs => (h s a s' trivial hs).2

/-- every value of `quiescence` is in range (restating `posti_quiescence_range` without a state invariant) -/
theorem post_quiescence_range (K : Keys) (C : Pos → Prop)
    (hmove : ∀ p m q, C p → GenMv p m → makeMove K p m = some q → isLegal q = true → C q)
    (heval : ∀ p v, C p → evalRaw p = some v → EvalRange v)
    (fuel : Nat) (p : Pos) (hp : C p) (alpha beta : Int) (ply : Nat) (ha : InRange alpha) (hb : InRange beta) :
    Post InRange (quiescence K fuel p alpha beta ply) :=
  post_mono (post_of_posti (posta_quiescence_qb (I := fun _ => True) (fun _ _ _ _ => trivial) K C hmove
    (fun p v hp hv => evalrange_mate (heval p v hp hv)) fuel p hp alpha beta ply ha hb).toPostI) (fun _ h => h.1)

theorem post_qLoop_int (K : Keys) (C : Pos → Prop)
    (hmove : ∀ p m q, C p → GenMv p m → makeMove K p m = some q → isLegal q = true → C q)
    (recur : Pos → Int → Int → Nat → SM Int)
    (hrec : ∀ q a b pl, C q → InRange a → InRange b →
      Post (fun v => InRange v ∧ (a < v ∧ v < b → EvalRange v)) (recur q a b pl))
    (p : Pos) (hp : C p) (sp beta : Int) (ply : Nat) (eg : Bool) (a0 : Int) (l : List Move) (hl : ∀ m ∈ l, GenMv p m)
    (a : Int) (ha : InRange a) (hb : InRange beta) (hpr : a0 < a → EvalRange a) :
    Post (fun v => a0 < v ∧ v < beta → EvalRange v) (qLoop K recur p sp beta ply eg l a) := by
  induction l generalizing a with
  | nil => unfold qLoop; exact post_pure (fun h => hpr h.1)
  | cons m rest ih =>
    replace ih := ih (fun m' hm' => hl m' (List.mem_cons_of_mem _ hm'))
    have hgm : GenMv p m := hl m List.mem_cons_self
    unfold qLoop
    extract_lets jp2 jp1
    have h2 : ∀ sn, Post (fun v => a0 < v ∧ v < beta → EvalRange v) (jp2 sn) := by
      intro sn
      unfold jp2
      split
      · exact ih a ha hpr
      · split
        · exact post_panic
        · rename_i q hq
          split
          · exact ih a ha hpr
          · rename_i hleg
            have hleg : isLegal q = true := by simpa using hleg
            refine post_bind_of (hrec _ _ _ _ (hmove p m q hp hgm hq hleg) (inrange_neg hb) (inrange_neg ha)) ?_
            intro sc hsc
            extract_lets score
            obtain ⟨hr, hint⟩ := hsc
            have hscore : InRange score := inrange_neg hr
            have hse : score = -sc := w16_neg_eq hr
            rw [w16_neg_eq ha, w16_neg_eq hb] at hint
            split
            · exact post_pure (fun h => absurd h.2 (Int.lt_irrefl _))
            · rename_i hnb
              apply ih
              · split
                · exact hscore
                · exact ha
              · split
                · rename_i hgt
                  intro _
                  have : EvalRange sc := hint ⟨by omega, by omega⟩
                  exact evalrange_neg this
                · exact hpr
    have h1 : ∀ sd, Post (fun v => a0 < v ∧ v < beta → EvalRange v) (jp1 sd) := by
      intro sd
      unfold jp1
      split
      · exact ih a ha hpr
      · split
        · exact post_bind (fun _ => h2 _)
        · exact post_bind (fun _ => h2 _)
    split
    · split
      · exact post_bind (fun _ => h1 _)
      · exact post_bind (fun _ => h1 _)
    · exact post_bind (fun _ => h1 _)

/-- a value strictly inside the window is an evaluation -/
theorem post_quiescence_int (K : Keys) (C : Pos → Prop)
    (hmove : ∀ p m q, C p → GenMv p m → makeMove K p m = some q → isLegal q = true → C q)
    (heval : ∀ p v, C p → evalRaw p = some v → EvalRange v)
    (fuel : Nat) (p : Pos) (hp : C p) (alpha beta : Int) (ply : Nat) (ha : InRange alpha) (hb : InRange beta) :
    Post (fun v => alpha < v ∧ v < beta → EvalRange v) (quiescence K fuel p alpha beta ply) := by
  induction fuel generalizing p alpha beta ply with
  | zero => unfold quiescence; exact post_panic
  | succ fuel ih =>
    unfold quiescence
    refine post_bind (fun _ => post_bind (fun _ => ?_))
    refine post_bind_of (post_ofOption _) ?_
    intro sp hsp
    have hspr : EvalRange sp := heval p sp hp hsp
    split
    · exact post_pure (fun h => absurd h.2 (Int.lt_irrefl _))
    · extract_lets alpha'
      have ha' : InRange alpha' := by
        show InRange (if alpha < sp then sp else alpha)
        split
        · exact evalrange_inrange hspr
        · exact ha
      have hpr : alpha < alpha' → EvalRange alpha' := by
        show alpha < (if alpha < sp then sp else alpha) → EvalRange (if alpha < sp then sp else alpha)
        split
        · exact fun _ => hspr
        · exact fun h => absurd h (Int.lt_irrefl _)
      split
      · exact post_pure (fun h => hpr h.1)
      · refine post_bind (fun s => post_bind_of (post_ofOption _) (fun scored hsc => ?_))
        exact post_qLoop_int K C hmove _
          (fun q a b pl hq ha hb => post_and (post_quiescence_range K C hmove heval fuel q hq a b pl ha hb) (ih q hq a b pl ha hb))
          p hp sp beta ply _ alpha _ (genMv_visit_caps p _ _ _ ply scored hsc) alpha' ha' hb hpr

end BadWin
end Clemens
