import Clemens.Proofs.GenMovesShape
/-
C01a lemmas: the attack query `SquareAttackedBy` against the specification (`Fide.pieceAttacks`, `Fide.attacked`).
This is the statement of C12d (`attackedBy_exact`), which is not part of this copy; it is proved here from
`wfShape` so that the castling part of C01a needs no hypothesis.  Geometric symmetry: knight/king steps, pawn
attacks (a white pawn on `a` attacks `s` iff a black pawn on `s` would attack `a`), and reachability along rook
and bishop lines (the squares strictly between are the same).
-/
namespace Clemens
namespace GM

def Dir.opp : Dir → Dir
  | .N => .S | .S => .N | .E => .W | .W => .E | .NE => .SW | .SW => .NE | .NW => .SE | .SE => .NW

theorem opp_opp (d : Dir) : Dir.opp (Dir.opp d) = d := by cases d <;> rfl

/-- walking back: the intermediate square `i` steps from `s` is `k - i` steps from `t` in the opposite direction -/
theorem step_back (d : Dir) (k i s t : Nat) (hs : s < 64) (hik : i ≤ k) (h : Geo.step d k s = some t) :
    ∃ u, Geo.step d i s = some u ∧ Geo.step (Dir.opp d) (k - i) t = some u := by
  rw [step_eq_some] at h
  obtain ⟨hb, hv⟩ := h
  refine ⟨((((s / 8 : Nat) : Int) + i * d.dr) * 8 + (((s % 8 : Nat) : Int) + i * d.df)).toNat, ?_, ?_⟩
  · rw [step_eq_some]
    cases d <;> simp only [Dir.df, Dir.dr, Geo.onB] at * <;> omega
  · rw [step_eq_some]
    cases d <;> simp only [Dir.df, Dir.dr, Geo.onB, Dir.opp] at * <;> omega

theorem step_zero (d : Dir) (s : Nat) (hs : s < 64) : Geo.step d 0 s = some s := by
  rw [step_eq_some]
  cases d <;> simp only [Dir.df, Dir.dr, Geo.onB] <;> omega

theorem reachAlong_symm_imp (d : Dir) (occ : BB) (s t : Nat) (hs : s < 64)
    (h : Geo.reachAlong d occ s t = true) : Geo.reachAlong (Dir.opp d) occ t s = true := by
  rw [reachAlong_iff] at h ⊢
  obtain ⟨j, hj, h1, h2⟩ := h
  refine ⟨j, hj, ?_, ?_⟩
  · obtain ⟨u, hu1, hu2⟩ := step_back d (1 + j) 0 s t hs (by omega) h1
    rw [step_zero d s hs] at hu1
    injection hu1 with hu1
    rw [Nat.sub_zero, ← hu1] at hu2
    exact hu2
  · intro i hi
    obtain ⟨u, hu1, hu0⟩ := h2 (j - 1 - i) (by omega)
    obtain ⟨u', hu1', hu2'⟩ := step_back d (1 + j) (1 + (j - 1 - i)) s t hs (by omega) h1
    rw [hu1] at hu1'
    injection hu1' with hu1'
    refine ⟨u, ?_, hu0⟩
    rw [hu1']
    rw [← hu2']
    congr 1
    omega

theorem reachAlong_symm (d : Dir) (occ : BB) (s t : Nat) (hs : s < 64) (ht : t < 64) :
    Geo.reachAlong d occ s t = Geo.reachAlong (Dir.opp d) occ t s := by
  rw [Bool.eq_iff_iff]
  constructor
  · exact reachAlong_symm_imp d occ s t hs
  · intro h
    have := reachAlong_symm_imp (Dir.opp d) occ t s ht h
    rwa [opp_opp] at this

theorem reach_symm_rook (occ : BB) (s t : Nat) (hs : s < 64) (ht : t < 64) :
    Geo.reach rookDirs occ s t = Geo.reach rookDirs occ t s := by
  simp only [Geo.reach, rookDirs, List.any_cons, List.any_nil, Bool.or_false]
  rw [reachAlong_symm .N occ s t hs ht, reachAlong_symm .S occ s t hs ht, reachAlong_symm .E occ s t hs ht,
    reachAlong_symm .W occ s t hs ht]
  simp only [Dir.opp]
  generalize Geo.reachAlong .N occ t s = a
  generalize Geo.reachAlong .S occ t s = b
  generalize Geo.reachAlong .E occ t s = c
  generalize Geo.reachAlong .W occ t s = e
  cases a <;> cases b <;> cases c <;> cases e <;> rfl

theorem reach_symm_bishop (occ : BB) (s t : Nat) (hs : s < 64) (ht : t < 64) :
    Geo.reach bishopDirs occ s t = Geo.reach bishopDirs occ t s := by
  simp only [Geo.reach, bishopDirs, List.any_cons, List.any_nil, Bool.or_false]
  rw [reachAlong_symm .NE occ s t hs ht, reachAlong_symm .NW occ s t hs ht, reachAlong_symm .SE occ s t hs ht,
    reachAlong_symm .SW occ s t hs ht]
  simp only [Dir.opp]
  generalize Geo.reachAlong .NE occ t s = a
  generalize Geo.reachAlong .NW occ t s = b
  generalize Geo.reachAlong .SE occ t s = c
  generalize Geo.reachAlong .SW occ t s = e
  cases a <;> cases b <;> cases c <;> cases e <;> rfl

theorem leaper_symm : ∀ s < 64, ∀ t < 64, Geo.knightStep s t = Geo.knightStep t s ∧ Geo.kingStep s t = Geo.kingStep t s ∧
    Geo.pawnAttack 0 s t = Geo.pawnAttack 1 t s ∧ Geo.pawnAttack 1 s t = Geo.pawnAttack 0 t s := by decide +kernel

theorem rayFrom_contains (p : Pos) (hsh : wfShape p = true) (d : Dir) (a t : Nat) :
    (Fide.rayFrom (absPos p) d a).contains t = Geo.reachAlong d p.all a t := by
  rw [Bool.eq_iff_iff, List.contains_iff_mem]
  exact mem_rayFrom (absPos p) p.all (all_iff p hsh) d a t

theorem sliderAttack_eq (p : Pos) (hsh : wfShape p = true) (dirs : List Dir) (a t : Nat) :
    (dirs.any fun d => (Fide.rayFrom (absPos p) d a).contains t) = Geo.reach dirs p.all a t := by
  unfold Geo.reach
  apply any_congr'
  intro d _
  exact rayFrom_contains p hsh d a t

/-- the case analysis over the piece code of the attacker's square, with the attack predicates as opaque Booleans -/
theorem attack_codes (aN aK aB aR aP0 aP1 : Bool) : ∀ pc ∈ pieceCodes,
    ((aN && ((pc == newPiece 0 KNIGHT) || (pc == newPiece 1 KNIGHT))) ||
      (aK && ((pc == newPiece 0 KING) || (pc == newPiece 1 KING))) ||
      (aB && ((pc == newPiece 0 BISHOP) || (pc == newPiece 1 BISHOP) || (pc == newPiece 0 QUEEN) || (pc == newPiece 1 QUEEN))) ||
      (aR && ((pc == newPiece 0 ROOK) || (pc == newPiece 1 ROOK) || (pc == newPiece 0 QUEEN) || (pc == newPiece 1 QUEEN))) ||
      (aP1 && (pc == newPiece 1 PAWN)) || (aP0 && (pc == newPiece 0 PAWN))) =
    (if pc = 0 then false else
      if Fide.kindOf pc = 0 then (if Fide.colorOf pc = 0 then aP0 else aP1)
      else if Fide.kindOf pc = 1 then aN
      else if Fide.kindOf pc = 5 then aK
      else if Fide.kindOf pc = 2 then aB else if Fide.kindOf pc = 3 then aR else if Fide.kindOf pc = 4 then (aR || aB) else false) := by
  cases aN <;> cases aK <;> cases aB <;> cases aR <;> cases aP0 <;> cases aP1 <;> decide

/-- bit `a` of the engine's attacker set of `sq` is set iff the piece standing on `a` attacks `sq` under the rules -/
theorem squareAttackedBy_bit (p : Pos) (hsh : wfShape p = true) (sq a : Nat) (hsq : sq < 64) (ha : a < 64) :
    (squareAttackedBy p sq).getLsbD a = Fide.pieceAttacks (absPos p) a sq := by
  have hb := fun c (hc : c < 2) T (hT : T < 6) => ((shape_parts p hsh).1 a ha).2 c hc T hT
  obtain ⟨s1, s2, s3, s4⟩ := leaper_symm sq hsq a ha
  unfold squareAttackedBy
  simp only [BitVec.getLsbD_or, BitVec.getLsbD_and]
  rw [knightAttacks_exact sq a hsq ha, kingAttacks_exact sq a hsq ha, bishopAttacks_exact sq a hsq ha,
    rookAttacks_exact sq a hsq ha, pawnAttacks_exact 0 sq a (by omega) hsq ha, pawnAttacks_exact 1 sq a (by omega) hsq ha,
    s1, s2, s3, s4, reach_symm_rook _ sq a hsq ha, reach_symm_bishop _ sq a hsq ha]
  rw [hb 0 (by omega) KNIGHT (by decide), hb 1 (by omega) KNIGHT (by decide), hb 0 (by omega) KING (by decide),
    hb 1 (by omega) KING (by decide), hb 0 (by omega) BISHOP (by decide), hb 1 (by omega) BISHOP (by decide),
    hb 0 (by omega) QUEEN (by decide), hb 1 (by omega) QUEEN (by decide), hb 0 (by omega) ROOK (by decide),
    hb 1 (by omega) ROOK (by decide), hb 0 (by omega) PAWN (by decide), hb 1 (by omega) PAWN (by decide)]
  rw [attack_codes _ _ _ _ _ _ _ (at_codes p hsh a)]
  unfold Fide.pieceAttacks
  simp only [absPos_at, sliderAttack_eq p hsh]
  by_cases h0 : p.at a = 0
  · simp [h0]
  · simp only [h0, if_false]
    by_cases k0 : Fide.kindOf (p.at a) = 0
    · simp only [k0, if_true]
      have hc := (codes_model _ (at_codes p hsh a) h0).2.2.2.2.1
      by_cases c0 : Fide.colorOf (p.at a) = 0
      · simp only [c0, if_true]
      · have c1 : Fide.colorOf (p.at a) = 1 := by omega
        simp only [c1, Nat.one_ne_zero, if_false]
    · simp only [k0, if_false]
      by_cases k1 : Fide.kindOf (p.at a) = 1
      · simp only [k1, if_true]
      · simp only [k1, if_false]
        by_cases k5 : Fide.kindOf (p.at a) = 5
        · simp only [k5, if_true]
        · simp only [k5, if_false]
          unfold Fide.dirsOfKind
          by_cases k2 : Fide.kindOf (p.at a) = 2
          · simp only [k2, if_true]
          · simp only [k2, if_false]
            by_cases k3 : Fide.kindOf (p.at a) = 3
            · simp only [k3, if_true]
            · simp only [k3, if_false]
              by_cases k4 : Fide.kindOf (p.at a) = 4
              · simp only [k4, if_true, dir_all_eq]
                unfold Geo.reach
                rw [List.any_append]
              · simp only [k4, if_false]
                rfl

theorem bv_ne_zero_iff (b : BB) : (b != 0#64) = true ↔ ∃ a, b.getLsbD a = true := by
  rw [bne_iff_ne]
  constructor
  · intro h
    apply Classical.byContradiction
    intro hn
    apply h
    apply BitVec.eq_of_getLsbD_eq
    intro i _
    rw [BitVec.getLsbD_zero]
    cases hb : b.getLsbD i
    · rfl
    · exact absurd ⟨i, hb⟩ hn
  · rintro ⟨a, ha⟩ h0
    rw [h0] at ha
    simp at ha

/-- the statement of C12d's `attackedBy_exact`, proved here from `wfShape` -/
theorem attackedByExact_of_shape (p : Pos) (hsh : wfShape p = true) : AttackedByExact p := by
  intro c sq hc hsq
  rw [Bool.eq_iff_iff, bv_ne_zero_iff]
  unfold Fide.attacked Fide.attackers
  simp only [Bool.not_eq_true', List.isEmpty_eq_false_iff, ne_eq]
  constructor
  · rintro ⟨a, ha⟩
    have ha64 := getLsbD_lt ha
    rw [BitVec.getLsbD_and, Bool.and_eq_true, squareAttackedBy_bit p hsh sq a hsq ha64, byColor_iff p hsh c hc] at ha
    apply List.ne_nil_of_mem (a := a)
    rw [List.mem_filter, List.mem_range, Bool.and_eq_true]
    exact ⟨ha64, ha.2, ha.1⟩
  · intro hne
    obtain ⟨a, hm⟩ := List.exists_mem_of_ne_nil _ hne
    rw [List.mem_filter, List.mem_range, Bool.and_eq_true] at hm
    obtain ⟨ha64, h1, h2⟩ := hm
    refine ⟨a, ?_⟩
    rw [BitVec.getLsbD_and, Bool.and_eq_true, squareAttackedBy_bit p hsh sq a hsq ha64, byColor_iff p hsh c hc]
    exact ⟨h2, h1⟩

end GM
end Clemens
