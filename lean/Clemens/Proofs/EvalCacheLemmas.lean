import Clemens.Model.EvalCache
/-
Lemmas about the evaluation cache (C16).
-/
namespace Clemens

/-- Cache invariant relative to a history `all`: whatever a slot holds (including the "empty" content `(0,0)`)
is the right answer for every position of the history (with clock < 100) whose hash equals the stored key. -/
def CacheOK (raw : Pos → Option Int) (all : List Pos) (c : EvalCache) : Prop :=
  ∀ i : Nat, ∀ p ∈ all, p.hmc < 100 → p.hash = (c.entries.getD i (0#64, 0)).1 →
    raw p = some (c.entries.getD i (0#64, 0)).2

theorem cacheOK_empty (raw : Pos → Option Int) (all : List Pos)
    (hzero : ∀ p ∈ all, p.hmc < 100 → p.hash = 0#64 → raw p = some 0) : CacheOK raw all {} := by
  intro i p hp hlt hh
  have : (({} : EvalCache).entries.getD i (0#64, 0)) = (0#64, 0) := by
    show (∅ : Std.HashMap Nat (BB × Int)).getD i (0#64, 0) = (0#64, 0)
    simp
  rw [this] at hh ⊢
  exact hzero p hp hlt hh

theorem cacheOK_insert (raw : Pos → Option Int) (all : List Pos) (c : EvalCache) (p : Pos) (s : Int) (k : Nat)
    (hcoll : ∀ p ∈ all, ∀ q ∈ all, p.hmc < 100 → q.hmc < 100 → p.hash = q.hash → raw p = raw q)
    (hc : CacheOK raw all c) (hp : p ∈ all) (hlt : p.hmc < 100) (hs : raw p = some s) :
    CacheOK raw all { entries := c.entries.insert k (p.hash, s) } := by
  intro i q hq hqlt hh
  simp only [Std.HashMap.getD_insert] at hh ⊢
  by_cases hki : (k == i) = true
  · simp only [hki, if_true] at hh ⊢
    rw [hcoll q hq p hp hqlt hlt hh, hs]
  · simp only [hki] at hh ⊢
    exact hc i q hq hqlt hh

/-- one step: with a good cache the returned score is the uncached one (`if p.hmc ≥ 100 then some (cf p) else raw p`,
i.e. `uncached raw cf p` of `Props/C16`) and the cache stays good -/
theorem evalWithCacheG_ok (raw : Pos → Option Int) (cf : Pos → Int) (all : List Pos) (c : EvalCache) (p : Pos)
    (hcoll : ∀ p ∈ all, ∀ q ∈ all, p.hmc < 100 → q.hmc < 100 → p.hash = q.hash → raw p = raw q)
    (hc : CacheOK raw all c) (hp : p ∈ all) :
    ((if p.hmc ≥ 100 then some (cf p) else raw p) = none ∧ evalWithCacheG raw cf c p = none) ∨
    ∃ s c', (if p.hmc ≥ 100 then some (cf p) else raw p) = some s ∧ evalWithCacheG raw cf c p = some (s, c') ∧ CacheOK raw all c' := by
  unfold evalWithCacheG
  by_cases h100 : p.hmc ≥ 100
  · right; exact ⟨cf p, c, by simp [h100], by simp [h100], hc⟩
  · simp only [h100, if_false]
    have hlt : p.hmc < 100 := by omega
    by_cases hhit : ((c.slot p.hash).1 == p.hash) = true
    · right
      have heq : p.hash = (c.entries.getD (p.hash.toNat % Gen.evalCacheSize) (0#64, 0)).1 := by
        exact (eq_of_beq hhit).symm
      have := hc _ p hp hlt heq
      refine ⟨(c.slot p.hash).2, c, this, ?_, hc⟩
      simp only [hhit, if_true]
    · simp only [hhit]
      cases hr : raw p with
      | none => left; simp
      | some s =>
        right
        refine ⟨s, { entries := c.entries.insert (p.hash.toNat % Gen.evalCacheSize) (p.hash, s) }, rfl, ?_,
          cacheOK_insert raw all c p s _ hcoll hc hp hlt hr⟩
        simp

end Clemens
