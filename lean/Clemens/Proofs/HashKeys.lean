import Clemens.Proofs.Hash
/-
C09 lemmas: positions differing in exactly one component hash differently (given the obvious condition
on the keys involved); the key table of the running engine has 781 pairwise distinct non-zero keys.
-/
namespace Clemens.Hash

/-! ### xor cancellation -/

theorem xor_right_cancel {a b c : BB} (h : a ^^^ c = b ^^^ c) : a = b := by
  have := congrArg (· ^^^ c) h
  simpa only [xor_cancel_right] using this

theorem xor_left_cancel {a b c : BB} (h : c ^^^ a = c ^^^ b) : a = b := by
  rw [BitVec.xor_comm c a, BitVec.xor_comm c b] at h
  exact xor_right_cancel h

/-- equal full hashes with three equal components force the fourth components to hash equally -/
theorem fullHash_eq_components (K : Keys) (p q : Pos) (h : fullHash K p = fullHash K q) :
    boardHash K p.board ^^^ sideHash K p.side ^^^ castHash K p.castling ^^^ epHash K p.ep =
    boardHash K q.board ^^^ sideHash K q.side ^^^ castHash K q.castling ^^^ epHash K q.ep := by
  simpa only [fullHash_eq] using h

theorem sideHash_ne (K : Keys) (hk : K.side ≠ 0#64) : sideHash K 0 ≠ sideHash K 1 := by
  simp only [sideHash]
  intro h
  exact hk (by simpa using h.symm)

/-- placements that agree off `s` have placement hashes differing by `key(old) ^^^ key(new)` -/
theorem boardHash_update_at (K : Keys) (b b' : Vector Nat 64) (s : Nat) (hs : s < 64)
    (hsame : ∀ i, i ≠ s → vget b i 0 = vget b' i 0) :
    boardHash K b' = boardHash K b ^^^ pieceKey K s (vget b s 0) ^^^ pieceKey K s (vget b' s 0) :=
  foldl_xor_update (fun i => pieceKey K i (vget b i 0)) (fun i => pieceKey K i (vget b' i 0))
    (List.range 64) s List.nodup_range (List.mem_range.mpr hs) (fun i _ hne => by simp only [hsame i hne])

theorem boardHash_ne (K : Keys) (b b' : Vector Nat 64) (s : Nat) (hs : s < 64)
    (hsame : ∀ i, i ≠ s → vget b i 0 = vget b' i 0)
    (hk : pieceKey K s (vget b s 0) ≠ pieceKey K s (vget b' s 0)) : boardHash K b ≠ boardHash K b' := by
  rw [boardHash_update_at K b b' s hs hsame]
  intro h
  apply hk
  generalize boardHash K b = A at h
  generalize pieceKey K s (vget b s 0) = x at h ⊢
  generalize pieceKey K s (vget b' s 0) = y at h ⊢
  have h' : A ^^^ 0#64 = A ^^^ (x ^^^ y) := by rw [BitVec.xor_zero, ← BitVec.xor_assoc]; exact h
  have h'' := xor_left_cancel h'
  have : x ^^^ y ^^^ y = 0#64 ^^^ y := by rw [← h'']
  rw [xor_cancel_right, BitVec.zero_xor] at this
  exact this

theorem ite_key_ne (k : BB) (hk : k ≠ 0#64) (P Q : Prop) [Decidable P] [Decidable Q] (hdiff : P ↔ ¬Q) :
    (if ¬P then k else 0#64) ≠ (if ¬Q then k else 0#64) := by
  by_cases hp : P
  · have hq : ¬Q := hdiff.mp hp
    simp only [hp, hq, not_true_eq_false, not_false_eq_true, if_true, if_false]
    exact hk.symm
  · have hq : Q := by
      by_cases hq : Q
      · exact hq
      · exact absurd (hdiff.mpr hq) hp
    simp only [hp, hq, not_true_eq_false, not_false_eq_true, if_true, if_false]
    exact hk

theorem castHash_ne (K : Keys) (c d r idx : Nat) (hci : (r, idx) ∈ castlingRights)
    (hsame : ∀ r' i, (r', i) ∈ castlingRights → r' ≠ r → (c &&& r' = 0 ↔ d &&& r' = 0))
    (hdiff : c &&& r = 0 ↔ ¬ (d &&& r = 0)) (hk : K.castling idx ≠ 0#64) : castHash K c ≠ castHash K d := by
  simp only [castlingRights, List.mem_cons, Prod.mk.injEq, List.mem_nil_iff, or_false] at hci
  have m0 : ((1, 0) : Nat × Nat) ∈ castlingRights := by decide
  have m1 : ((2, 1) : Nat × Nat) ∈ castlingRights := by decide
  have m2 : ((4, 2) : Nat × Nat) ∈ castlingRights := by decide
  have m3 : ((8, 3) : Nat × Nat) ∈ castlingRights := by decide
  have s0 := hsame 1 0 m0
  have s1 := hsame 2 1 m1
  have s2 := hsame 4 2 m2
  have s3 := hsame 8 3 m3
  simp only [castHash, bne_iff_ne, ne_eq]
  intro h
  rcases hci with ⟨rfl, rfl⟩ | ⟨rfl, rfl⟩ | ⟨rfl, rfl⟩ | ⟨rfl, rfl⟩
  · have e1 := s1 (by decide); have e2 := s2 (by decide); have e3 := s3 (by decide)
    simp only [e1, e2, e3] at h
    exact ite_key_ne _ hk _ _ hdiff (xor_right_cancel (xor_right_cancel (xor_right_cancel h)))
  · have e0 := s0 (by decide); have e2 := s2 (by decide); have e3 := s3 (by decide)
    simp only [e0, e2, e3] at h
    exact ite_key_ne _ hk _ _ hdiff (xor_left_cancel (xor_right_cancel (xor_right_cancel h)))
  · have e0 := s0 (by decide); have e1 := s1 (by decide); have e3 := s3 (by decide)
    simp only [e0, e1, e3] at h
    exact ite_key_ne _ hk _ _ hdiff (xor_left_cancel (xor_right_cancel h))
  · have e0 := s0 (by decide); have e1 := s1 (by decide); have e2 := s2 (by decide)
    simp only [e0, e1, e2] at h
    exact ite_key_ne _ hk _ _ hdiff (xor_left_cancel h)

/-! ### the key table of the running engine -/

theorem nodup_of_filter (p : Nat → Bool) (l : List Nat) (h1 : (l.filter p).Nodup) (h2 : (l.filter (fun k => !p k)).Nodup) : l.Nodup := by
  induction l with
  | nil => simp
  | cons x xs ih =>
    by_cases hp : p x = true
    · simp only [List.filter_cons, hp, if_true, Bool.not_true, Bool.false_eq_true, if_false] at h1 h2
      obtain ⟨hx, h1'⟩ := List.nodup_cons.mp h1
      refine List.nodup_cons.mpr ⟨?_, ih h1' h2⟩
      intro hm
      exact hx (List.mem_filter.mpr ⟨hm, hp⟩)
    · simp only [Bool.not_eq_true] at hp
      simp only [List.filter_cons, hp, Bool.false_eq_true, if_false, Bool.not_false, if_true] at h1 h2
      obtain ⟨hx, h2'⟩ := List.nodup_cons.mp h2
      refine List.nodup_cons.mpr ⟨?_, ih h1 h2'⟩
      intro hm
      exact hx (List.mem_filter.mpr ⟨hm, by simp [hp]⟩)

/-- radix check: split on bit `b-1`, recurse on both halves; a bucket with at most one key is fine -/
def radixNodup : Nat → List Nat → Bool
  | 0, l => match l with | [] => true | [_] => true | _ => false
  | b+1, l => match l with
    | [] => true
    | [_] => true
    | _ => radixNodup b (l.filter (fun k => k.testBit b)) && radixNodup b (l.filter (fun k => !k.testBit b))

theorem radixNodup_sound (b : Nat) (l : List Nat) (h : radixNodup b l = true) : l.Nodup := by
  induction b generalizing l with
  | zero =>
    unfold radixNodup at h
    split at h
    · simp
    · simp
    · exact absurd h (by simp)
  | succ b ih =>
    unfold radixNodup at h
    split at h
    · simp
    · simp
    · simp only [Bool.and_eq_true] at h
      exact nodup_of_filter _ l (ih _ h.1) (ih _ h.2)

theorem zobristData_nodup : (Gen.zobristData.toList).Nodup := radixNodup_sound 64 _ (by decide +kernel)

theorem zobristData_range : ∀ k ∈ Gen.zobristData.toList, k ≠ 0 ∧ k < 2^64 := by decide +kernel

theorem zobristData_size : Gen.zobristData.size = 781 := by decide +kernel

/-- the 64-bit word at index `i` of the dumped table, as `realKeys` reads it -/
def zkey (i : Nat) : BB := BitVec.ofNat 64 (Gen.zobristData.getD i 0)

theorem zobristData_getD (i : Nat) (hi : i < 781) :
    Gen.zobristData.getD i 0 ∈ Gen.zobristData.toList ∧ Gen.zobristData.getD i 0 = Gen.zobristData.toList[i]'(by simpa [zobristData_size] using hi) := by
  have hs : i < Gen.zobristData.size := by simpa [zobristData_size] using hi
  have e : Gen.zobristData.getD i 0 = Gen.zobristData.toList[i]'(by simpa using hs) := by
    simp [Array.getD_eq_getD_getElem?, hs]
  exact ⟨e ▸ List.getElem_mem _, e⟩

theorem zkey_ne_zero (i : Nat) (hi : i < 781) : zkey i ≠ 0#64 := by
  obtain ⟨hm, _⟩ := zobristData_getD i hi
  obtain ⟨h0, hlt⟩ := zobristData_range _ hm
  intro h
  have := congrArg BitVec.toNat h
  simp only [zkey, BitVec.toNat_ofNat] at this
  rw [Nat.mod_eq_of_lt hlt] at this
  exact h0 this

theorem zkey_inj (i j : Nat) (hi : i < 781) (hj : j < 781) (h : zkey i = zkey j) : i = j := by
  obtain ⟨hmi, ei⟩ := zobristData_getD i hi
  obtain ⟨hmj, ej⟩ := zobristData_getD j hj
  have hli := (zobristData_range _ hmi).2
  have hlj := (zobristData_range _ hmj).2
  have := congrArg BitVec.toNat h
  simp only [zkey, BitVec.toNat_ofNat] at this
  rw [Nat.mod_eq_of_lt hli, Nat.mod_eq_of_lt hlj, ei, ej] at this
  exact (List.getElem_inj zobristData_nodup).mp this

end Clemens.Hash
