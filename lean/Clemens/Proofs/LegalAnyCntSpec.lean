import Clemens.Spec.Fide
/-
P01c, specification side: the rules' move lists and node counts do not read the two counter fields (`hmc`, `fullmove`) of a
`Fide.Pos`.  `Fide.apply` writes them, so the successors of two positions that differ only in the counters again differ
only in the counters; `Fide.perft` is invariant by induction on the depth.
-/
namespace Clemens
namespace LAC

/-- the specification position with its two counters replaced -/
def fsetCnt (P : Fide.Pos) (h f : Nat) : Fide.Pos := { P with hmc := h, fullmove := f }

theorem at_fsetCnt (P : Fide.Pos) (h f s : Nat) : (fsetCnt P h f).at s = P.at s := rfl
theorem isOwn_fsetCnt (P : Fide.Pos) (h f c s : Nat) : Fide.isOwn (fsetCnt P h f) c s = Fide.isOwn P c s := rfl

theorem rayGo_fsetCnt (P : Fide.Pos) (h f : Nat) (d : Dir) (s : Nat) :
    ∀ fuel k, Fide.rayFrom.go (fsetCnt P h f) d s fuel k = Fide.rayFrom.go P d s fuel k := by
  intro fuel
  induction fuel with
  | zero => intro k; unfold Fide.rayFrom.go; rfl
  | succ n ih =>
    intro k
    unfold Fide.rayFrom.go
    rw [ih]
    rfl

theorem rayFrom_fsetCnt (P : Fide.Pos) (h f : Nat) (d : Dir) (s : Nat) :
    Fide.rayFrom (fsetCnt P h f) d s = Fide.rayFrom P d s := rayGo_fsetCnt P h f d s 7 1

theorem pieceAttacks_fsetCnt (P : Fide.Pos) (h f s t : Nat) :
    Fide.pieceAttacks (fsetCnt P h f) s t = Fide.pieceAttacks P s t := by
  unfold Fide.pieceAttacks
  simp only [at_fsetCnt, rayFrom_fsetCnt]

theorem attackers_fsetCnt (P : Fide.Pos) (h f c t : Nat) :
    Fide.attackers (fsetCnt P h f) c t = Fide.attackers P c t := by
  unfold Fide.attackers
  simp only [isOwn_fsetCnt, pieceAttacks_fsetCnt]

theorem attacked_fsetCnt (P : Fide.Pos) (h f c t : Nat) :
    Fide.attacked (fsetCnt P h f) c t = Fide.attacked P c t := by
  unfold Fide.attacked
  rw [attackers_fsetCnt]

theorem kingSquare_fsetCnt (P : Fide.Pos) (h f c : Nat) : Fide.kingSquare (fsetCnt P h f) c = Fide.kingSquare P c := rfl

theorem inCheck_fsetCnt (P : Fide.Pos) (h f c : Nat) : Fide.inCheck (fsetCnt P h f) c = Fide.inCheck P c := by
  unfold Fide.inCheck
  rw [kingSquare_fsetCnt]
  simp only [attacked_fsetCnt]

theorem pawnMoves_fsetCnt (P : Fide.Pos) (h f s : Nat) : Fide.pawnMoves (fsetCnt P h f) s = Fide.pawnMoves P s := rfl
theorem leaperMoves_fsetCnt (P : Fide.Pos) (h f s : Nat) (offs : List (Int × Int)) :
    Fide.leaperMoves (fsetCnt P h f) s offs = Fide.leaperMoves P s offs := rfl

theorem sliderMoves_fsetCnt (P : Fide.Pos) (h f s : Nat) (dirs : List Dir) :
    Fide.sliderMoves (fsetCnt P h f) s dirs = Fide.sliderMoves P s dirs := by
  unfold Fide.sliderMoves
  simp only [rayFrom_fsetCnt, isOwn_fsetCnt]
  rfl

theorem castlingMoves_fsetCnt (P : Fide.Pos) (h f : Nat) : Fide.castlingMoves (fsetCnt P h f) = Fide.castlingMoves P := by
  unfold Fide.castlingMoves
  simp only [attacked_fsetCnt, at_fsetCnt]
  rfl

theorem pseudoMoves_fsetCnt (P : Fide.Pos) (h f : Nat) : Fide.pseudoMoves (fsetCnt P h f) = Fide.pseudoMoves P := by
  unfold Fide.pseudoMoves
  simp only [castlingMoves_fsetCnt, sliderMoves_fsetCnt, leaperMoves_fsetCnt, pawnMoves_fsetCnt, isOwn_fsetCnt, at_fsetCnt]
  rfl

/-- the successor of the position with replaced counters is the successor with replaced counters -/
theorem apply_fsetCnt (P : Fide.Pos) (h f : Nat) (m : Fide.Move) :
    Fide.apply (fsetCnt P h f) m = fsetCnt (Fide.apply P m) (Fide.apply (fsetCnt P h f) m).hmc (Fide.apply (fsetCnt P h f) m).fullmove :=
  rfl

/-- which moves are legal does not depend on the counters -/
theorem legalMoves_fsetCnt (P : Fide.Pos) (h f : Nat) : Fide.legalMoves (fsetCnt P h f) = Fide.legalMoves P := by
  unfold Fide.legalMoves
  rw [pseudoMoves_fsetCnt]
  apply List.filter_congr
  intro m _
  rw [apply_fsetCnt, inCheck_fsetCnt]
  rfl

/-- node counts do not depend on the counters -/
theorem perft_fsetCnt (d : Nat) : ∀ (P : Fide.Pos) (h f : Nat), Fide.perft (fsetCnt P h f) d = Fide.perft P d := by
  induction d with
  | zero => intro P h f; rfl
  | succ d ih =>
    intro P h f
    unfold Fide.perft
    rw [legalMoves_fsetCnt]
    congr 1
    apply List.map_congr_left
    intro m _
    rw [apply_fsetCnt, ih]

end LAC
end Clemens
