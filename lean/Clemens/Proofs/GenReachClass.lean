import Clemens.Proofs.GenReach
import Clemens.Proofs.SearchBadWinIter
import Clemens.Proofs.MateIter
/-
P04m, part 4: `GenReach K root` (for a legal root with legal material) is a class of positions of the kind the search theorems ask
for: it contains the root, is closed under the moves the loops make (`GenMv`: generated words and capture-generator words, up to
the score bits) that pass the legality filter and under the null move out of check, and the static evaluation is bounded on it.
-/
namespace Clemens
namespace GR
open SearchLemmas P19 BadWin

/-- a word of the capture generator is a word of the move generator (C17, for legal positions) -/
theorem genMv_gen (p : Pos) (hw : WF p = true) (m : Move) (h : GenMv p m) : m % 65536 ∈ (genMoves p).map (· % 65536) := by
  rcases h with h | h
  · exact h
  · rw [captures_eq_filter_of_WF p hw] at h
    obtain ⟨g, hg, he⟩ := List.mem_map.1 h
    exact List.mem_map.2 ⟨g, (List.mem_filter.1 hg).1, he⟩

section
variable (K : Keys) (root : Pos) (hwf : WF root = true) (hmat : LegalMaterial root)
include hwf hmat

theorem genReach_move : ∀ p m q, GenReach K root p → GenMv p m → makeMove K p m = some q → isLegal q = true →
    GenReach K root q :=
  fun p m _ hp hg hq hl => GenReach.move hp (genMv_gen p (genReach_inv K root hwf hmat p hp).1 m hg) hq hl

omit hwf hmat in
theorem genReach_null : ∀ p, GenReach K root p → isInCheck p p.side = false → GenReach K root (makeNull K p).1 :=
  fun _ hp hc => GenReach.null hp hc

/-- C15 on the class: `|eval| ≤ evalBound` -/
theorem genReach_eval (p : Pos) (hp : GenReach K root p) (v : Int) (hv : evalRaw p = some v) : -evalBound ≤ v ∧ v ≤ evalBound :=
  eval_bounded_explicit p (genReach_inv K root hwf hmat p hp).2 v hv

theorem genReach_evalRange : ∀ p v, GenReach K root p → evalRaw p = some v → EvalRange v := by
  intro p v hp hv
  have := genReach_eval K root hwf hmat p hp v hv
  have := evalBound_le_20000
  unfold EvalRange; omega

theorem genReach_evalMate : ∀ p v, GenReach K root p → evalRaw p = some v → -(INF - 100) < v ∧ v < INF - 100 :=
  fun p v hp hv => eval_bounded p (genReach_inv K root hwf hmat p hp).2 v hv

/-- the class of the mate theorems (C13b) -/
theorem genReach_mateClass (H : BB → Prop) (hcoll : ∀ p, GenReach K root p → H p.hash → NoLegal K p) :
    MateClass K (GenReach K root) H where
  move := genReach_move K root hwf hmat
  null := genReach_null K root
  eval := genReach_evalMate K root hwf hmat
  coll := hcoll
end

/-- `GenReach` is contained in `SearchReach` (which allows every move word) -/
theorem genReach_searchReach (K : Keys) (root : Pos) : ∀ p, GenReach K root p → SearchReach K root p := by
  intro p hp
  induction hp with
  | root => exact SearchReach.root
  | move _ _ hq hl ih => exact SearchReach.move ih hq hl
  | null _ hc ih => exact SearchReach.null ih hc

end GR
end Clemens
