import Clemens.Model.Fen
/-
Lemmas for C03: square and move text round trips.
-/
namespace Clemens

/-! ### squares (64 cases, by evaluation) -/

theorem squareFromString_squareToString : ∀ s, s < 64 → squareFromString (squareToString s) = .ok s := by
  decide

theorem squareToString_length : ∀ s, s < 64 → (squareToString s).length = 2 := by decide

/-! ### the fields of the generated move words (finite in `s`, `t`, `k`, `pt`) -/

theorem mk_fields : ∀ s, s < 64 → ∀ t, t < 64 → ∀ k, k < 4 →
    (Move.mk s t k).src = s ∧ (Move.mk s t k).tgt = t ∧ (Move.mk s t k).kind = k := by
  decide +kernel

theorem promo_fields_aux : ∀ s, s < 64 → ∀ t, t < 64 → ∀ i, i < 4 →
    ((Move.mk s t 1).withPromo (i + 1)).src = s ∧ ((Move.mk s t 1).withPromo (i + 1)).tgt = t ∧
    ((Move.mk s t 1).withPromo (i + 1)).kind = 1 ∧ ((Move.mk s t 1).withPromo (i + 1)).promo = i + 1 := by
  decide +kernel

theorem promo_fields (s t pt : Nat) (hs : s < 64) (ht : t < 64) (h1 : 1 ≤ pt) (h4 : pt ≤ 4) :
    ((Move.mk s t 1).withPromo pt).src = s ∧ ((Move.mk s t 1).withPromo pt).tgt = t ∧
    ((Move.mk s t 1).withPromo pt).kind = 1 ∧ ((Move.mk s t 1).withPromo pt).promo = pt := by
  obtain ⟨i, rfl⟩ : ∃ i, pt = i + 1 := ⟨pt - 1, by omega⟩
  exact promo_fields_aux s hs t ht i (by omega)

/-! ### `moveFromString` on a printed pair of squares -/

/-- the part of `MakeMoveFromString` after the two squares are parsed -/
def moveFromSquares (p : Pos) (src dst len : Nat) (suffix : Bytes) : Res Move :=
  let m : Move := src ||| (dst <<< 6)
  if src ≥ 64 then .panic else
  let pt := pieceType (p.at src)
  if pt = KING && absDiff src dst = 2 then pure (m ||| (3 <<< 12))
  else if pt = PAWN then
    if fileOf src != fileOf dst && (if dst < 64 then p.at dst == 0 else false) then
      (if dst ≥ 64 then .panic else pure (m ||| (2 <<< 12)))
    else if dst ≥ 64 && fileOf src != fileOf dst then .panic
    else if len = 5 then
      match pieceTypeFromString suffix with
      | none => .error
      | some t => pure (Move.withPromo (m ||| (1 <<< 12)) t)
    else pure m
  else pure m

theorem moveFromString_print (p : Pos) (s t : Nat) (hs : s < 64) (ht : t < 64) (suffix : Bytes) :
    moveFromString p (squareToString s ++ squareToString t ++ suffix) =
      moveFromSquares p s t (4 + suffix.length) suffix := by
  have l1 := squareToString_length s hs
  have l2 := squareToString_length t ht
  have e1 : (squareToString s ++ squareToString t ++ suffix).take 2 = squareToString s := by
    rw [List.append_assoc, List.take_append_of_le_length (by omega), List.take_of_length_le (by omega)]
  have e2 : ((squareToString s ++ squareToString t ++ suffix).drop 2).take 2 = squareToString t := by
    rw [List.append_assoc, List.drop_append_of_le_length (by omega), List.drop_of_length_le (by omega),
      List.nil_append, List.take_append_of_le_length (by omega), List.take_of_length_le (by omega)]
  have e3 : (squareToString s ++ squareToString t ++ suffix).drop 4 = suffix := by
    have : (squareToString s ++ squareToString t).length = 4 := by simp [l1, l2]
    rw [← this, List.drop_left]
  have e4 : (squareToString s ++ squareToString t ++ suffix).length = 4 + suffix.length := by
    simp [l1, l2]; omega
  unfold moveFromString
  rw [e1, e2, e3, e4, squareFromString_squareToString s hs, squareFromString_squareToString t ht]
  rw [if_neg (by omega)]
  rfl

/-! ### the printed text of the generated move words -/

theorem moveToString_mk (s t k : Nat) (hs : s < 64) (ht : t < 64) (hk : k < 4) (hk1 : k ≠ 1) :
    moveToString (Move.mk s t k) = squareToString s ++ squareToString t ++ [] := by
  obtain ⟨h1, h2, h3⟩ := mk_fields s hs t ht k hk
  unfold moveToString
  rw [h1, h2, h3, if_neg hk1]

theorem castle_word (s t : Nat) : (3 <<< 12) ||| s ||| (t <<< 6) = Move.mk s t 3 := by
  unfold Move.mk; ac_rfl

theorem pieceTypeString_roundtrip (pt : Nat) (h1 : 1 ≤ pt) (h4 : pt ≤ 4) :
    (pieceTypeString pt).length = 1 ∧ pieceTypeFromString (pieceTypeString pt) = some pt := by
  obtain rfl | rfl | rfl | rfl : pt = 1 ∨ pt = 2 ∨ pt = 3 ∨ pt = 4 := by omega
  all_goals decide

theorem moveToString_promo (s t pt : Nat) (hs : s < 64) (ht : t < 64) (h1 : 1 ≤ pt) (h4 : pt ≤ 4) :
    moveToString ((Move.mk s t 1).withPromo pt) = squareToString s ++ squareToString t ++ pieceTypeString pt := by
  obtain ⟨e1, e2, e3, e4⟩ := promo_fields s t pt hs ht h1 h4
  unfold moveToString
  rw [e1, e2, e3, e4, if_pos rfl]

theorem pawn_ne_king : PAWN ≠ KING := by decide

/-- general form of the normal-move round trip -/
theorem rt_normal (p : Pos) (s t : Nat) (hs : s < 64) (ht : t < 64)
    (hk : ¬(pieceType (p.at s) = KING ∧ absDiff s t = 2)) (hp : pieceType (p.at s) ≠ PAWN) :
    moveFromString p (moveToString (Move.mk s t 0)) = .ok (Move.mk s t 0) := by
  rw [moveToString_mk s t 0 hs ht (by omega) (by omega), moveFromString_print p s t hs ht]
  unfold moveFromSquares
  simp only [ge_iff_le, Nat.not_le.mpr hs, ↓reduceIte, Bool.and_eq_true, decide_eq_true_eq, hk, hp, pure,
    Move.mk, Nat.zero_shiftLeft, Nat.or_zero]

theorem rt_castling (p : Pos) (s t : Nat) (hs : s < 64) (ht : t < 64) (hk : pieceType (p.at s) = KING) (hd : absDiff s t = 2) :
    moveFromString p (moveToString ((3 <<< 12) ||| s ||| (t <<< 6))) = .ok ((3 <<< 12) ||| s ||| (t <<< 6)) := by
  rw [castle_word, moveToString_mk s t 3 hs ht (by omega) (by omega), moveFromString_print p s t hs ht]
  unfold moveFromSquares
  simp only [ge_iff_le, Nat.not_le.mpr hs, ↓reduceIte, Bool.and_eq_true, decide_eq_true_eq, hk, hd, pure,
    Move.mk, and_self]

theorem rt_ep (p : Pos) (s t : Nat) (hs : s < 64) (ht : t < 64) (hpawn : pieceType (p.at s) = PAWN)
    (hf : fileOf s ≠ fileOf t) (he : p.at t = 0) :
    moveFromString p (moveToString (Move.mk s t 2)) = .ok (Move.mk s t 2) := by
  rw [moveToString_mk s t 2 hs ht (by omega) (by omega), moveFromString_print p s t hs ht]
  unfold moveFromSquares
  simp only [ge_iff_le, Nat.not_le.mpr hs, Nat.not_le.mpr ht, ht, ↓reduceIte, Bool.and_eq_true, decide_eq_true_eq,
    hpawn, pawn_ne_king, false_and, bne_iff_ne, ne_eq, hf, not_false_eq_true, he, beq_self_eq_true, and_self, pure,
    Move.mk]

theorem rt_promo (p : Pos) (s t pt : Nat) (hs : s < 64) (ht : t < 64) (hpawn : pieceType (p.at s) = PAWN)
    (h1 : 1 ≤ pt) (h4 : pt ≤ 4) (hc : fileOf s = fileOf t ∨ p.at t ≠ 0) :
    moveFromString p (moveToString ((Move.mk s t 1).withPromo pt)) = .ok ((Move.mk s t 1).withPromo pt) := by
  obtain ⟨l, r⟩ := pieceTypeString_roundtrip pt h1 h4
  rw [moveToString_promo s t pt hs ht h1 h4, moveFromString_print p s t hs ht, l]
  unfold moveFromSquares
  have hc' : ¬(fileOf s ≠ fileOf t ∧ p.at t = 0) := by
    rintro ⟨a, b⟩; rcases hc with h | h
    · exact a h
    · exact h b
  simp only [ge_iff_le, Nat.not_le.mpr hs, Nat.not_le.mpr ht, ht, ↓reduceIte, Bool.and_eq_true, decide_eq_true_eq,
    hpawn, pawn_ne_king, false_and, bne_iff_ne, ne_eq, beq_iff_eq, hc', decide_false, Bool.false_eq_true, r, pure,
    Move.mk]

theorem rt_pawn_normal (p : Pos) (s t : Nat) (hs : s < 64) (ht : t < 64) (hpawn : pieceType (p.at s) = PAWN)
    (hc : fileOf s = fileOf t ∨ p.at t ≠ 0) :
    moveFromString p (moveToString (Move.mk s t 0)) = .ok (Move.mk s t 0) := by
  rw [moveToString_mk s t 0 hs ht (by omega) (by omega), moveFromString_print p s t hs ht]
  unfold moveFromSquares
  have hc' : ¬(fileOf s ≠ fileOf t ∧ p.at t = 0) := by
    rintro ⟨a, b⟩; rcases hc with h | h
    · exact a h
    · exact h b
  simp only [ge_iff_le, Nat.not_le.mpr hs, Nat.not_le.mpr ht, ht, ↓reduceIte, Bool.and_eq_true, decide_eq_true_eq,
    hpawn, pawn_ne_king, false_and, bne_iff_ne, ne_eq, beq_iff_eq, hc', decide_false, Bool.false_eq_true, pure,
    Move.mk, List.length_nil, Nat.add_zero, Nat.reduceEqDiff, Nat.zero_shiftLeft, Nat.or_zero]

end Clemens
