import Clemens.Proofs.GenMovesPawn
/-
C01a lemmas: the clauses of `WF`, `canCastleNow` against the specification's castling condition
(relative to the attack query being exact, `AttackedByExact`, the statement of C12d) and `genCastling`.
-/
namespace Clemens
namespace GM

/-! ### the clauses of `WF` -/

theorem WF_parts (p : Pos) (hw : WF p = true) : wfShape p = true ∧ wfState p = true ∧ wfChess p = true := by
  unfold WF at hw
  simp only [Bool.and_eq_true] at hw
  exact ⟨hw.1.1, hw.1.2, hw.2⟩

theorem state_parts (p : Pos) (h : wfState p = true) : p.side < 2 ∧ p.castling < 16 ∧ p.ep ≤ 64 := by
  unfold wfState at h
  simp only [Bool.and_eq_true, decide_eq_true_eq] at h
  exact ⟨h.1.1.1.1.1, h.1.1.1.1.2, h.1.1.1.2⟩

structure ChessParts (p : Pos) : Prop where
  wk : popcount (p.pieces 0 KING) = 1
  bk : popcount (p.pieces 1 KING) = 1
  c1 : p.castling &&& 1 ≠ 0 → p.at 4 = 6 ∧ p.at 7 = 4
  c2 : p.castling &&& 2 ≠ 0 → p.at 4 = 6 ∧ p.at 0 = 4
  c4 : p.castling &&& 4 ≠ 0 → p.at 60 = 14 ∧ p.at 63 = 12
  c8 : p.castling &&& 8 ≠ 0 → p.at 60 = 14 ∧ p.at 56 = 12
  epw : p.ep ≠ 64 → p.side = 0 → rankOf p.ep = 5 ∧ p.at p.ep = 0 ∧ p.at (p.ep - 8) = 9 ∧ p.at (p.ep + 8) = 0
  epb : p.ep ≠ 64 → p.side ≠ 0 → rankOf p.ep = 2 ∧ p.at p.ep = 0 ∧ p.at (p.ep + 8) = 1 ∧ p.at (p.ep - 8) = 0
  nocheck : isInCheck p (switchColor p.side) = false

theorem chess_parts (p : Pos) (h : wfChess p = true) : ChessParts p := by
  unfold wfChess at h
  simp only [Bool.and_eq_true, beq_iff_eq, Bool.or_eq_true, Bool.not_eq_true'] at h
  obtain ⟨⟨⟨⟨⟨⟨⟨⟨h1, h2⟩, _⟩, h4⟩, h5⟩, h6⟩, h7⟩, h8⟩, h9⟩ := h
  refine ⟨h1, h2, fun hn => h4.resolve_left hn, fun hn => h5.resolve_left hn, fun hn => h6.resolve_left hn,
    fun hn => h7.resolve_left hn, ?_, ?_, h9⟩
  · intro he hs
    have := h8.resolve_left he
    rw [if_pos hs] at this
    simp only [Bool.and_eq_true, beq_iff_eq] at this
    exact ⟨this.1.1.1, this.1.1.2, this.1.2, this.2⟩
  · intro he hs
    have := h8.resolve_left he
    rw [if_neg hs] at this
    simp only [Bool.and_eq_true, beq_iff_eq] at this
    exact ⟨this.1.1.1, this.1.1.2, this.1.2, this.2⟩

theorem ep_empty (p : Pos) (h : wfChess p = true) : p.ep ≠ 64 → p.at p.ep = 0 := by
  intro he
  have cp := chess_parts p h
  by_cases hs : p.side = 0
  · exact (cp.epw he hs).2.1
  · exact (cp.epb he hs).2.1

/-- a set with exactly one element has that element as its least one -/
theorem lsb_of_single (b : BB) (k : Nat) (h1 : popcount b = 1) (hk : b.getLsbD k = true) : lsb b = k := by
  unfold popcount at h1
  unfold lsb
  have hm := (mem_squares_iff b k).2 hk
  match hsq : squares b, h1, hm with
  | [x], _, hm =>
    simp only [List.mem_singleton] at hm
    simp [hm]

theorem king_square (p : Pos) (hsh : wfShape p = true) (c k : Nat) (hc : c < 2) (hk : k < 64)
    (h1 : popcount (p.pieces c KING) = 1) (hat : p.at k = newPiece c KING) : lsb (p.pieces c KING) = k := by
  apply lsb_of_single _ _ h1
  rw [((shape_parts p hsh).1 k hk).2 c hc KING (by decide), hat]
  simp

/-- the attack query against the specification (statement of C12d, here a hypothesis) -/
def AttackedByExact (p : Pos) : Prop :=
  ∀ c sq, c < 2 → sq < 64 →
    ((squareAttackedBy p sq &&& p.byColor c) != 0#64) = Fide.attacked (absPos p) c sq

/-- the specification's castling condition (the local `ok` of `Fide.castlingMoves`) for the right `c` -/
def castleSpec (P : Fide.Pos) (c : Nat) : Bool :=
  let e := if P.side = 0 then 4 else 60
  let enemy := Fide.other P.side
  let between := if castlingKingSide c then [e + 1, e + 2] else [e - 1, e - 2, e - 3]
  let path := if castlingKingSide c then [e + 1, e + 2] else [e - 1, e - 2]
  P.castling &&& c != 0 && between.all (fun s => P.at s == 0) &&
    !Fide.attacked P enemy e && path.all (fun s => !Fide.attacked P enemy s)

theorem bool_castle3 (a x3 b3 x2 b2 x1 : Bool) :
    (if a = true then false else x3 && !b3 && (x2 && !b2 && x1)) = (x3 && (x2 && x1) && !a && (!b3 && !b2)) := by
  cases a <;> cases x3 <;> cases x2 <;> cases x1 <;> cases b3 <;> cases b2 <;> rfl

theorem bool_castle2 (a x1 b1 x2 b2 : Bool) :
    (if a = true then false else x1 && !b1 && (x2 && !b2)) = (x1 && x2 && !a && (!b1 && !b2)) := by
  cases a <;> cases x1 <;> cases x2 <;> cases b1 <;> cases b2 <;> rfl

theorem canCastle_core (p : Pos) (_hsh : wfShape p = true) (hA : AttackedByExact p) (c e : Nat) (ks : Bool)
    (hside : p.side < 2) (hcol : castlingColor c = p.side) (hks : castlingKingSide c = ks)
    (he : e = 4 ∨ e = 60)
    (hr : c &&& p.castling ≠ 0) (hking : lsb (p.pieces p.side KING) = e) :
    canCastleNow p c =
      ((if ks then [e + 1, e + 2] else [e - 1, e - 2, e - 3]).all (fun s => p.at s == 0) &&
       !Fide.attacked (absPos p) (Fide.other p.side) e &&
       (if ks then [e + 1, e + 2] else [e - 1, e - 2]).all (fun s => !Fide.attacked (absPos p) (Fide.other p.side) s)) := by
  have hen : Fide.other p.side < 2 := by unfold Fide.other; omega
  have hatt : ∀ sq, sq < 64 → ((squareAttackedBy p sq &&& p.byColor (switchColor p.side)) == 0#64) =
      !Fide.attacked (absPos p) (Fide.other p.side) sq := by
    intro sq hsq
    rw [← hA _ sq hen hsq, switchColor_eq _ hside]
    simp [bne]
  have hchk : isInCheck p p.side = Fide.attacked (absPos p) (Fide.other p.side) e := by
    unfold isInCheck
    simp only
    rw [hking, ← hA _ e hen (by omega), switchColor_eq _ hside]
  unfold canCastleNow
  have hr' : (c &&& p.castling == 0) = false := by simpa using hr
  have hcol' : (castlingColor c != p.side) = false := by simp [hcol]
  rw [hr', hcol', hchk, hks, hking]
  simp only [Bool.false_eq_true, if_false, Pos.isEmpty]
  rcases he with rfl | rfl <;> cases ks <;>
    simp only [List.range_succ, List.range_zero, List.nil_append, List.cons_append, List.all_cons, List.all_nil,
      Nat.reduceAdd, Nat.reduceSub, Nat.reduceMod, Nat.reduceLT, gt_iff_lt, Nat.lt_irrefl, decide_true, decide_false, Bool.false_or, Bool.true_or,
      Bool.and_true, Bool.and_false, Bool.or_false, if_true, if_false, Bool.false_eq_true,
      hatt _ (by omega : 5 < 64), hatt _ (by omega : 6 < 64), hatt _ (by omega : 3 < 64), hatt _ (by omega : 2 < 64),
      hatt _ (by omega : 61 < 64), hatt _ (by omega : 62 < 64), hatt _ (by omega : 59 < 64), hatt _ (by omega : 58 < 64)]
  · exact bool_castle3 _ _ _ _ _ _
  · exact bool_castle2 _ _ _ _ _
  · exact bool_castle3 _ _ _ _ _ _
  · exact bool_castle2 _ _ _ _ _

theorem canCastle_right (p : Pos) (c : Nat) (h : canCastleNow p c = true) : c &&& p.castling ≠ 0 := by
  intro h0
  unfold canCastleNow at h
  rw [h0] at h
  simp at h

theorem castleSpec_right (P : Fide.Pos) (c : Nat) (h : c &&& P.castling = 0) : castleSpec P c = false := by
  unfold castleSpec
  simp only [Nat.and_comm P.castling c, h]
  simp

/-- where the king of a side holding a castling right stands -/
theorem king_home (p : Pos) (hw : WF p = true) (c : Nat) (hc : c ∈ [1, 2, 4, 8]) (hcol : castlingColor c = p.side)
    (hr : c &&& p.castling ≠ 0) : lsb (p.pieces p.side KING) = (if p.side = 0 then 4 else 60) := by
  obtain ⟨hsh, hst, hch⟩ := WF_parts p hw
  have cp := chess_parts p hch
  simp only [List.mem_cons, List.not_mem_nil, or_false] at hc
  rcases hc with rfl | rfl | rfl | rfl
  · have hs : p.side = 0 := by rw [← hcol]; rfl
    rw [hs]
    rw [Nat.and_comm] at hr
    exact king_square p hsh 0 4 (by omega) (by omega) cp.wk (cp.c1 hr).1
  · have hs : p.side = 0 := by rw [← hcol]; rfl
    rw [hs]
    rw [Nat.and_comm] at hr
    exact king_square p hsh 0 4 (by omega) (by omega) cp.wk (cp.c2 hr).1
  · have hs : p.side = 1 := by rw [← hcol]; rfl
    rw [hs]
    rw [Nat.and_comm] at hr
    exact king_square p hsh 1 60 (by omega) (by omega) cp.bk (cp.c4 hr).1
  · have hs : p.side = 1 := by rw [← hcol]; rfl
    rw [hs]
    rw [Nat.and_comm] at hr
    exact king_square p hsh 1 60 (by omega) (by omega) cp.bk (cp.c8 hr).1

theorem canCastleNow_eq (p : Pos) (hw : WF p = true) (hA : AttackedByExact p) (c : Nat) (hc : c ∈ [1, 2, 4, 8])
    (hcol : castlingColor c = p.side) : canCastleNow p c = castleSpec (absPos p) c := by
  obtain ⟨hsh, hst, hch⟩ := WF_parts p hw
  obtain ⟨hside, _, _⟩ := state_parts p hst
  by_cases hr : c &&& p.castling = 0
  · rw [castleSpec_right _ _ hr]
    unfold canCastleNow
    simp [hr]
  · have hk := king_home p hw c hc hcol hr
    have hcore := canCastle_core p hsh hA c (if p.side = 0 then 4 else 60) (castlingKingSide c) hside hcol rfl
      (by by_cases h : p.side = 0 <;> simp [h]) hr hk
    rw [hcore]
    unfold castleSpec
    have hr' : ((absPos p).castling &&& c != 0) = true := by
      show (p.castling &&& c != 0) = true
      rw [Nat.and_comm]; simpa using hr
    rw [hr']
    simp only [Bool.true_and, absPos_at]
    rfl

theorem castlingMoves_eq (P : Fide.Pos) :
    Fide.castlingMoves P =
      (if castleSpec P (if P.side = 0 then 1 else 4) = true then
        [(⟨if P.side = 0 then 4 else 60, (if P.side = 0 then 4 else 60) + 2, none⟩ : Fide.Move)] else []) ++
      (if castleSpec P (if P.side = 0 then 2 else 8) = true then
        [(⟨if P.side = 0 then 4 else 60, (if P.side = 0 then 4 else 60) - 2, none⟩ : Fide.Move)] else []) := by
  by_cases h : P.side = 0
  · simp only [Fide.castlingMoves, castleSpec, h, if_true]; rfl
  · simp only [Fide.castlingMoves, castleSpec, h, if_false]; rfl

/-- one iteration of the loop of `genCastling` -/
def castleStep (p : Pos) (c : Nat) : List Move :=
  if castlingColor c != p.side then []
  else if !canCastleNow p c then []
  else
    let src := lsb (p.pieces p.side KING)
    let tgt := if castlingKingSide c then (src + 2) % 256 else (src + 254) % 256
    [(3 <<< 12) ||| src ||| (tgt <<< 6)]

theorem genCastling_eq (p : Pos) : genCastling p = castleStep p 1 ++ castleStep p 2 ++ castleStep p 4 ++ castleStep p 8 := by
  unfold genCastling castleStep
  simp only [List.flatMap_cons, List.flatMap_nil, List.append_nil, List.append_assoc]

theorem castleStep_other (p : Pos) (c : Nat) (h : castlingColor c ≠ p.side) : castleStep p c = [] := by
  unfold castleStep
  have : (castlingColor c != p.side) = true := by simpa using h
  rw [this]; rfl

/-- the word of a castling move and its decoding -/
theorem castle_words :
    absMove ((3 <<< 12) ||| 4 ||| (((4 + 2) % 256) <<< 6)) = ⟨4, 6, none⟩ ∧
    absMove ((3 <<< 12) ||| 4 ||| (((4 + 254) % 256) <<< 6)) = ⟨4, 2, none⟩ ∧
    absMove ((3 <<< 12) ||| 60 ||| (((60 + 2) % 256) <<< 6)) = ⟨60, 62, none⟩ ∧
    absMove ((3 <<< 12) ||| 60 ||| (((60 + 254) % 256) <<< 6)) = ⟨60, 58, none⟩ := by decide

theorem castleStep_abs (p : Pos) (hw : WF p = true) (c : Nat) (hc : c ∈ [1, 2, 4, 8])
    (hcol : castlingColor c = p.side) :
    (castleStep p c).map absMove =
      if canCastleNow p c = true then
        [(⟨if p.side = 0 then 4 else 60,
          if castlingKingSide c then (if p.side = 0 then 4 else 60) + 2 else (if p.side = 0 then 4 else 60) - 2, none⟩ : Fide.Move)]
      else [] := by
  unfold castleStep
  have h1 : (castlingColor c != p.side) = false := by simp [hcol]
  rw [h1]
  simp only [Bool.false_eq_true, if_false]
  cases hcc : canCastleNow p c with
  | false => simp
  | true =>
    have hk := king_home p hw c hc hcol (canCastle_right p c hcc)
    simp only [Bool.not_true, Bool.false_eq_true, if_false, if_true, hk, List.map_cons, List.map_nil]
    obtain ⟨w1, w2, w3, w4⟩ := castle_words
    simp only [List.mem_cons, List.not_mem_nil, or_false] at hc
    rcases hc with rfl | rfl | rfl | rfl
    · have hs : p.side = 0 := by rw [← hcol]; rfl
      simp only [hs, if_true, castlingKingSide]; exact congrArg (fun x => [x]) w1
    · have hs : p.side = 0 := by rw [← hcol]; rfl
      simp only [hs, if_true, castlingKingSide]; exact congrArg (fun x => [x]) w2
    · have hs : p.side = 1 := by rw [← hcol]; rfl
      simp only [hs, castlingKingSide]; exact congrArg (fun x => [x]) w3
    · have hs : p.side = 1 := by rw [← hcol]; rfl
      simp only [hs, castlingKingSide]; exact congrArg (fun x => [x]) w4

/-- the decoded castling moves in terms of the engine's own test (no attack facts needed) -/
theorem genCastling_abs_engine (p : Pos) (hw : WF p = true) :
    (genCastling p).map absMove =
      (if canCastleNow p (if p.side = 0 then 1 else 4) = true then
        [(⟨if p.side = 0 then 4 else 60, (if p.side = 0 then 4 else 60) + 2, none⟩ : Fide.Move)] else []) ++
      (if canCastleNow p (if p.side = 0 then 2 else 8) = true then
        [(⟨if p.side = 0 then 4 else 60, (if p.side = 0 then 4 else 60) - 2, none⟩ : Fide.Move)] else []) := by
  obtain ⟨hsh, hst, hch⟩ := WF_parts p hw
  obtain ⟨hside, _, _⟩ := state_parts p hst
  rw [genCastling_eq]
  have hc : p.side = 0 ∨ p.side = 1 := by omega
  rcases hc with h0 | h0
  · rw [castleStep_other p 4 (by rw [h0]; decide), castleStep_other p 8 (by rw [h0]; decide)]
    simp only [List.append_nil, List.map_append]
    rw [castleStep_abs p hw 1 (by decide) (by rw [h0]; rfl), castleStep_abs p hw 2 (by decide) (by rw [h0]; rfl)]
    simp only [h0, if_true]
    rfl
  · rw [castleStep_other p 1 (by rw [h0]; decide), castleStep_other p 2 (by rw [h0]; decide)]
    simp only [List.append_nil, List.nil_append, List.map_append]
    rw [castleStep_abs p hw 4 (by decide) (by rw [h0]; rfl), castleStep_abs p hw 8 (by decide) (by rw [h0]; rfl)]
    simp only [h0]
    rfl

/-- castling: the engine's list is the specification's list -/
theorem genCastling_abs (p : Pos) (hw : WF p = true) (hA : AttackedByExact p) :
    (genCastling p).map absMove = Fide.castlingMoves (absPos p) := by
  obtain ⟨hsh, hst, hch⟩ := WF_parts p hw
  obtain ⟨hside, _, _⟩ := state_parts p hst
  rw [genCastling_abs_engine p hw, castlingMoves_eq]
  have hside' : (absPos p).side = p.side := rfl
  rw [hside']
  have hc : p.side = 0 ∨ p.side = 1 := by omega
  rcases hc with h0 | h0
  · rw [canCastleNow_eq p hw hA (if p.side = 0 then 1 else 4) (by rw [h0]; decide) (by rw [h0]; rfl),
      canCastleNow_eq p hw hA (if p.side = 0 then 2 else 8) (by rw [h0]; decide) (by rw [h0]; rfl)]
  · rw [canCastleNow_eq p hw hA (if p.side = 0 then 1 else 4) (by rw [h0]; decide) (by rw [h0]; rfl),
      canCastleNow_eq p hw hA (if p.side = 0 then 2 else 8) (by rw [h0]; decide) (by rw [h0]; rfl)]

end GM
end Clemens
