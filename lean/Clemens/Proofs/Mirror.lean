import Clemens.Proofs.FlipShifts
import Clemens.Proofs.EvalBounds
import Clemens.Model.WF
import Clemens.Spec.Mirror
/-
Lemma library for C15 (part 2): the colour mirror of a model position and the behaviour of every evaluation
term under it.
-/
namespace Clemens

/-- model-level mirror: squares `s ↦ s ^^^ 56`, colours and side to move swapped, castling rights swapped,
en-passant square flipped; half-move clock, ply and hash are kept -/
def mirrorPos (p : Pos) : Pos :=
  { bb := Vector.ofFn fun i : Fin 12 => flipV (p.pieces (1 - i.val / 6) (i.val % 6))
    board := Vector.ofFn fun i : Fin 64 => Fide.mirrorPiece (p.at (i.val ^^^ 56))
    all := flipV p.all
    white := flipV p.black
    black := flipV p.white
    side := 1 - p.side
    castling := ((p.castling &&& 3) <<< 2) ||| ((p.castling >>> 2) &&& 3)
    ep := if p.ep = 64 then 64 else Fide.mirrorSq p.ep
    hmc := p.hmc
    ply := p.ply
    hash := p.hash }

theorem mirrorPos_pieces (p : Pos) (c t : Nat) (hc : c < 2) (ht : t < 6) :
    (mirrorPos p).pieces c t = flipV (p.pieces (1 - c) t) := by
  have h : c * 6 + t < 12 := by omega
  have h1 : (c * 6 + t) / 6 = c := by omega
  have h2 : (c * 6 + t) % 6 = t := by omega
  simp [Pos.pieces, vget, mirrorPos, h, h1, h2]

theorem mirrorPos_byColor (p : Pos) (c : Nat) (hc : c < 2) :
    (mirrorPos p).byColor c = flipV (p.byColor (1 - c)) := by
  have : c = 0 ∨ c = 1 := by omega
  rcases this with rfl | rfl <;> rfl

@[simp] theorem mirrorPos_all (p : Pos) : (mirrorPos p).all = flipV p.all := rfl
@[simp] theorem mirrorPos_white (p : Pos) : (mirrorPos p).white = flipV p.black := rfl
@[simp] theorem mirrorPos_black (p : Pos) : (mirrorPos p).black = flipV p.white := rfl
@[simp] theorem mirrorPos_hmc (p : Pos) : (mirrorPos p).hmc = p.hmc := rfl
@[simp] theorem mirrorPos_side (p : Pos) : (mirrorPos p).side = 1 - p.side := rfl

/-- the twelve instances of `mirrorPos_pieces`, as rewrite rules -/
theorem mp (p : Pos) :
    (mirrorPos p).pieces 0 0 = flipV (p.pieces 1 0) ∧ (mirrorPos p).pieces 0 1 = flipV (p.pieces 1 1) ∧
    (mirrorPos p).pieces 0 2 = flipV (p.pieces 1 2) ∧ (mirrorPos p).pieces 0 3 = flipV (p.pieces 1 3) ∧
    (mirrorPos p).pieces 0 4 = flipV (p.pieces 1 4) ∧ (mirrorPos p).pieces 0 5 = flipV (p.pieces 1 5) ∧
    (mirrorPos p).pieces 1 0 = flipV (p.pieces 0 0) ∧ (mirrorPos p).pieces 1 1 = flipV (p.pieces 0 1) ∧
    (mirrorPos p).pieces 1 2 = flipV (p.pieces 0 2) ∧ (mirrorPos p).pieces 1 3 = flipV (p.pieces 0 3) ∧
    (mirrorPos p).pieces 1 4 = flipV (p.pieces 0 4) ∧ (mirrorPos p).pieces 1 5 = flipV (p.pieces 0 5) := by
  refine ⟨?_, ?_, ?_, ?_, ?_, ?_, ?_, ?_, ?_, ?_, ?_, ?_⟩ <;> exact mirrorPos_pieces p _ _ (by omega) (by omega)

/-! ### terms that only see popcounts -/

theorem materialTerm_mirror (p : Pos) : materialTerm (mirrorPos p) = -materialTerm p := by
  obtain ⟨a0, a1, a2, a3, a4, a5, b0, b1, b2, b3, b4, b5⟩ := mp p
  unfold materialTerm matSide sideSum
  rw [a0, a1, a2, a3, a4, a5, b0, b1, b2, b3, b4, b5]
  simp only [pc_flipV]
  omega

theorem pairsTerm_mirror (p : Pos) : pairsTerm (mirrorPos p) = -pairsTerm p := by
  obtain ⟨a0, a1, a2, a3, a4, a5, b0, b1, b2, b3, b4, b5⟩ := mp p
  unfold pairsTerm pairD
  rw [a1, a2, a3, b1, b2, b3]
  simp only [popcount_flipV]
  omega

theorem adjTerm_mirror (p : Pos) : adjTerm (mirrorPos p) = -adjTerm p := by
  obtain ⟨a0, a1, a2, a3, a4, a5, b0, b1, b2, b3, b4, b5⟩ := mp p
  unfold adjTerm adjSide
  rw [a0, a1, a3, b0, b1, b3]
  simp only [pc_flipV, popcount_flipV]
  omega

theorem phaseRaw_mirror (p : Pos) : phaseRaw (mirrorPos p) = phaseRaw p := by
  obtain ⟨a0, a1, a2, a3, a4, a5, b0, b1, b2, b3, b4, b5⟩ := mp p
  unfold phaseRaw
  rw [a1, a2, a3, a4, b1, b2, b3, b4]
  simp only [pc_flipV]
  omega

theorem gamePhase_mirror (p : Pos) : gamePhase (mirrorPos p) = gamePhase p := by
  rw [gamePhase_eq, gamePhase_eq, phaseRaw_mirror]

theorem contempt_mirror (p : Pos) : contempt (mirrorPos p) = contempt p := by
  unfold contempt isEndgame; rw [gamePhase_mirror]

theorem bishop_rule_symm (a b : Nat) :
    (if (a == 2) = true then b == 1 else if (b == 2) = true then a == 1 else true) =
    (if (b == 2) = true then a == 1 else if (a == 2) = true then b == 1 else true) := by
  by_cases ha : a = 2 <;> by_cases hb : b = 2 <;> simp [ha, hb]

theorem isDraw_mirror (p : Pos) : isDraw (mirrorPos p) = isDraw p := by
  obtain ⟨a0, a1, a2, a3, a4, a5, b0, b1, b2, b3, b4, b5⟩ := mp p
  have hu : flipV (p.pieces 1 0) ||| flipV (p.pieces 0 0) ||| flipV (p.pieces 1 3) ||| flipV (p.pieces 0 3) |||
      flipV (p.pieces 1 4) ||| flipV (p.pieces 0 4) =
      flipV (p.pieces 0 0 ||| p.pieces 1 0 ||| p.pieces 0 3 ||| p.pieces 1 3 ||| p.pieces 0 4 ||| p.pieces 1 4) := by
    simp only [flipV_or]; ac_rfl
  unfold isDraw
  simp only [PAWN, ROOK, QUEEN, BISHOP, mirrorPos_hmc, mirrorPos_all, mirrorPos_white, mirrorPos_black,
    a0, a2, a3, a4, b0, b2, b3, b4, hu, popcount_flipV]
  rw [bishop_rule_symm (popcount (p.pieces 1 2)) (popcount (p.pieces 0 2))]
  simp only [Bool.and_comm (popcount p.black == 2), Bool.and_comm (decide (popcount p.black > 2)),
    Bool.or_comm (decide (popcount p.black > 3))]
  rfl

/-! ### piece square tables -/

/-- the dumped tables of the two colours are vertical mirror images of each other -/
theorem pst_flip : ∀ ph < 2, ∀ t < 6, ∀ s < 64, pst ph 0 t (s ^^^ 56) = pst ph 1 t s := by decide +kernel

theorem pst_flip' (ph t s : Nat) (hph : ph < 2) (ht : t < 6) (hs : s < 64) : pst ph 1 t (s ^^^ 56) = pst ph 0 t s := by
  have := pst_flip ph hph t ht (s ^^^ 56) (fl_lt s hs)
  rw [fl_fl s hs] at this
  exact this.symm

theorem sumOver_congr (f g : Nat → Int) (b : BB) (h : ∀ s, s < 64 → f s = g s) : sumOver f b = sumOver g b := by
  unfold sumOver
  congr 1
  exact List.map_congr_left (fun s hs => h s (lt_of_mem_squares hs))

theorem pstTerm_mirror (ph t : Nat) (hph : ph < 2) (ht : t < 6) (p : Pos) :
    pstTerm ph t (mirrorPos p) = -pstTerm ph t p := by
  unfold pstTerm
  rw [mirrorPos_pieces p 0 t (by omega) ht, mirrorPos_pieces p 1 t (by omega) ht, sumOver_flipV, sumOver_flipV,
    sumOver_congr _ (pst ph 1 t) _ (fun s hs => pst_flip ph hph t ht s hs),
    sumOver_congr _ (pst ph 0 t) _ (fun s hs => pst_flip' ph t s hph ht hs)]
  simp only [Nat.sub_zero, Nat.sub_self]
  omega

theorem pstSum_mirror (ph : Nat) (hph : ph < 2) (p : Pos) : pstSum ph (mirrorPos p) = -pstSum ph p := by
  unfold pstSum
  rw [pstTerm_mirror ph 0 hph (by omega), pstTerm_mirror ph 1 hph (by omega), pstTerm_mirror ph 2 hph (by omega),
    pstTerm_mirror ph 3 hph (by omega), pstTerm_mirror ph 4 hph (by omega), pstTerm_mirror ph 5 hph (by omega)]
  omega

/-! ### pawn structure -/

theorem isolanis_flipV (b : BB) : isolanis (flipV b) = flipV (isolanis b) := by
  unfold isolanis
  simp only [flipV_and, flipV_not, flipV_westOne, flipV_eastOne, flipV_fileFill]

theorem supportedPawns0_flipV (b : BB) : supportedPawns 0 (flipV b) = flipV (supportedPawns 1 b) := by
  unfold supportedPawns; rw [flipV_and, flipV_pawnAttacksSet1]
theorem supportedPawns1_flipV (b : BB) : supportedPawns 1 (flipV b) = flipV (supportedPawns 0 b) := by
  unfold supportedPawns; rw [flipV_and, flipV_pawnAttacksSet0]

theorem passed0_flipV (wp bp : BB) : passed 0 (flipV bp) (flipV wp) = flipV (passed 1 wp bp) := by
  unfold passed
  simp only [if_true, if_false, Nat.one_ne_zero, flipV_and, flipV_not, flipV_or, flipV_westOne, flipV_eastOne,
    flipV_northFill, flipV_northOne]
theorem passed1_flipV (wp bp : BB) : passed 1 (flipV bp) (flipV wp) = flipV (passed 0 wp bp) := by
  unfold passed
  simp only [if_true, if_false, Nat.one_ne_zero, flipV_and, flipV_not, flipV_or, flipV_westOne, flipV_eastOne,
    flipV_southFill, flipV_southOne]

theorem isoDiff_mirror (p : Pos) : isoDiff (mirrorPos p) = -isoDiff p := by
  unfold isoDiff
  rw [(mp p).1, (mp p).2.2.2.2.2.2.1, isolanis_flipV, isolanis_flipV, pc_flipV, pc_flipV]
  omega

theorem pc_flipV_and_rank (b : BB) (i j : Nat) (hij : i + j = 5) :
    pc (flipV b &&& rankMask2 <<< (8 * i)) = pc (b &&& rankMask2 <<< (8 * j)) := by
  have hj : j = 5 - i := by omega
  subst hj
  have h := flipV_rankMask (5 - i) (by omega)
  have : 5 - (5 - i) = i := by omega
  rw [this] at h
  rw [← h, ← flipV_and, pc_flipV]

theorem rankSum_flipV (w b : BB) : rankSum (flipV b) (flipV w) = -rankSum w b := by
  unfold rankSum rankTerm
  rw [pc_flipV_and_rank b 0 5 rfl, pc_flipV_and_rank b 1 4 rfl, pc_flipV_and_rank b 2 3 rfl,
    pc_flipV_and_rank b 3 2 rfl, pc_flipV_and_rank b 4 1 rfl, pc_flipV_and_rank b 5 0 rfl,
    pc_flipV_and_rank w 0 5 rfl, pc_flipV_and_rank w 1 4 rfl, pc_flipV_and_rank w 2 3 rfl,
    pc_flipV_and_rank w 3 2 rfl, pc_flipV_and_rank w 4 1 rfl, pc_flipV_and_rank w 5 0 rfl]
  omega

/-- for every scalar -/
theorem rankedPawnEval_flipV (s : Int) (w b : BB) : rankedPawnEval s (flipV b) (flipV w) = -rankedPawnEval s w b := by
  rw [rankedPawnEval_eq, rankedPawnEval_eq, rankSum_flipV, Int.mul_neg]

theorem pawnRanked_mirror (p : Pos) : pawnRanked (mirrorPos p) = -pawnRanked p := by
  unfold pawnRanked
  rw [(mp p).1, (mp p).2.2.2.2.2.2.1, supportedPawns0_flipV, supportedPawns1_flipV, passed0_flipV, passed1_flipV,
    rankedPawnEval_flipV, rankedPawnEval_flipV]
  omega

/-! ### the accumulator-level statements: every term changes sign -/

/-- the accumulator seen from the other colour -/
def EvalAcc.neg (e : EvalAcc) : EvalAcc := { mid := -e.mid, end_ := -e.end_, base := -e.base }

theorem EvalAcc.neg_zero : EvalAcc.neg {} = {} := rfl

theorem evalPst_mirror (p : Pos) (e : EvalAcc) : evalPst (mirrorPos p) e.neg = (evalPst p e).neg := by
  rw [evalPst_eq, evalPst_eq, pstSum_mirror 0 (by omega), pstSum_mirror 1 (by omega)]
  unfold EvalAcc.neg
  dsimp only
  congr 1 <;> omega

theorem evalPawns_mirror (p : Pos) (e : EvalAcc) : evalPawns (mirrorPos p) e.neg = (evalPawns p e).neg := by
  rw [evalPawns_eq, evalPawns_eq, isoDiff_mirror, pawnRanked_mirror]
  unfold EvalAcc.neg
  dsimp only
  rw [Int.mul_neg, Int.mul_neg]
  congr 1 <;> omega

theorem evalPairs_mirror (p : Pos) (e : EvalAcc) : evalPairs (mirrorPos p) e.neg = (evalPairs p e).neg := by
  rw [evalPairs_eq, evalPairs_eq, pairsTerm_mirror]
  unfold EvalAcc.neg
  dsimp only
  congr 1; omega

theorem evalMaterial_mirror (p : Pos) (e : EvalAcc) : evalMaterial (mirrorPos p) e.neg = (evalMaterial p e).neg := by
  rw [evalMaterial_eq, evalMaterial_eq, materialTerm_mirror]
  unfold EvalAcc.neg
  dsimp only
  congr 1; omega

theorem evalPawnAdjustment_mirror (p : Pos) (e : EvalAcc) :
    evalPawnAdjustment (mirrorPos p) e.neg = (evalPawnAdjustment p e).map EvalAcc.neg := by
  by_cases h : popcount (p.pieces 0 0) ≤ 8 ∧ popcount (p.pieces 1 0) ≤ 8
  · rw [evalPawnAdjustment_eq p e h.1 h.2,
      evalPawnAdjustment_eq (mirrorPos p) _ (by rw [(mp p).1, popcount_flipV]; exact h.2)
        (by rw [(mp p).2.2.2.2.2.2.1, popcount_flipV]; exact h.1), adjTerm_mirror]
    unfold EvalAcc.neg
    dsimp only [Option.map]
    congr 2; omega
  · rw [evalPawnAdjustment_none p e (by omega),
      evalPawnAdjustment_none (mirrorPos p) _ (by
        rw [(mp p).1, (mp p).2.2.2.2.2.2.1, popcount_flipV, popcount_flipV]; omega)]
    rfl

/-- `calculateScore`: the white-point-of-view score changes sign, the side to move changes, so the result is the same -/
theorem calculateScore_mirror (p : Pos) (hs : p.side < 2) (e : EvalAcc) :
    calculateScore (mirrorPos p) e.neg = calculateScore p e := by
  unfold calculateScore
  rw [gamePhase_mirror, mirrorPos_side]
  unfold EvalAcc.neg
  dsimp only
  have h : (-e.mid * gamePhase p + -e.end_ * (maxGamePhase - gamePhase p)).tdiv maxGamePhase
      = -((e.mid * gamePhase p + e.end_ * (maxGamePhase - gamePhase p)).tdiv maxGamePhase) := by
    rw [Int.neg_mul, Int.neg_mul, ← Int.neg_add, Int.neg_tdiv]
  rw [h]
  have : p.side = 0 ∨ p.side = 1 := by omega
  rcases this with h0 | h1
  · rw [h0]; simp; omega
  · rw [h1]; simp; omega

end Clemens
