import Clemens.Proofs.SearchRange
/-
Lemma library for C13b (task P19), part 1: the table invariants.

 * `NoUse t h`: the table holds no usable entry for the hash `h` (entries with that hash have depth 0, hence are never
   deep enough: the probe happens at depth ≥ 1) — true for the empty table, kept by `ttSave` for any *other* hash;
 * `MateClass`: the class of positions the search walks through (closed under the legal moves and the null move the search
   makes, evaluation bounded, and no 64-bit hash collision between a position with a legal move and one of the "terminal"
   hashes `H`);
 * `TInv`: scores in range (`TTSane`) and `NoUse` for every terminal hash; `TProv`: scores in range and every entry of non-zero
   depth carries the hash of a position of the class with a legal move (what searches produce from the empty table);
   `TblInv`: what the range proof needs from such an invariant;
 * `PostA I P m`: `I` holds after every outcome of `m` (ok, cancelled, panic), `P` holds for an ok result;
 * `posta_quiescence_qb`: quiescence is fail-hard; `posta_negamax_gen` / `posta_negamax_inv`: `negamax` keeps the invariant and
   returns a score in `[-INF, INF]` (the range proof of `SearchRange.lean`, redone with the weaker closure hypothesis "legal
   children only", an abstract invariant, and for every outcome).
-/
namespace Clemens
namespace P19
open SearchLemmas

/-- no generated move of `p` passes the legality filter -/
def NoLegal (K : Keys) (p : Pos) : Prop := ∀ m ∈ genMoves p, ∀ q, makeMove K p m = some q → isLegal q = false

/-- the side to move is in check and has no legal move -/
def Mated (K : Keys) (p : Pos) : Prop := isInCheck p p.side = true ∧ NoLegal K p

/-- no usable entry for `h`: every entry carrying that hash has depth 0 (the all-zero entries of an empty bucket carry the
hash 0) -/
def NoUse (t : TT) (h : BB) : Prop := ∀ e ∈ t.bucket (ttKey h), e.hash = h → e.depth = 0

theorem noUse_empty (h : BB) : NoUse {} h := by
  intro e he _
  have : e ∈ emptyBucket := by simpa [TT.bucket] using he
  unfold emptyBucket at this
  rw [List.eq_of_mem_replicate this]

theorem ttGet_noUse (t : TT) (h : BB) (a b : Int) (d ply : Nat) (hn : NoUse t h) (hd : 1 ≤ d) :
    (ttGet t h a b d ply).2.1 = false := by
  unfold ttGet
  split
  · rfl
  · rename_i te hf
    have hm := List.mem_of_find?_eq_some hf
    have hh : te.hash = h := by
      have := List.find?_some hf
      simpa using this
    have h0 := hn te hm hh
    rw [if_pos (by omega)]

theorem ttSave_noUse (t : TT) (h h' : BB) (m : Move) (d : Nat) (sc : Int) (nt age : Nat) (hn : NoUse t h) (hne : h' ≠ h) :
    NoUse (ttSave t h' m d sc nt age) h := by
  intro e he heh
  unfold ttSave TT.bucket at he
  dsimp only at he
  rw [Std.HashMap.getD_insert] at he
  split at he
  · rename_i hk
    have hk' : ttKey h' = ttKey h := by simpa using hk
    rcases List.mem_or_eq_of_mem_set he with h1 | h1
    · exact hn e (by unfold TT.bucket; rw [← hk']; exact h1) heh
    · rw [h1] at heh
      exact absurd heh hne
  · exact hn e he heh

/-! ### the class of positions and the invariant -/

/-- the positions a search from the root walks through (P04m: closure is only asked under the words the loops really make,
`GenMv p m` — generated words and capture-generator words up to the score bits).  `H` is the set of "terminal" hashes (hashes of checkmated children of
the root); `coll` says that no position of the class that still has a legal move collides with one of them. -/
structure MateClass (K : Keys) (C : Pos → Prop) (H : BB → Prop) : Prop where
  move : ∀ p m q, C p → GenMv p m → makeMove K p m = some q → isLegal q = true → C q
  null : ∀ p, C p → isInCheck p p.side = false → C (makeNull K p).1
  eval : ∀ p v, C p → evalRaw p = some v → -(INF - 100) < v ∧ v < INF - 100
  coll : ∀ p, C p → H p.hash → NoLegal K p

/-- the table invariant: scores in `[-INF, INF]`, no usable entry for a terminal hash -/
def TInv (H : BB → Prop) (s : SState) : Prop := TTSane s.tt ∧ ∀ h, H h → NoUse s.tt h

theorem tinv_stable (H : BB → Prop) : ∀ s s' : SState, s'.tt = s.tt → TInv H s → TInv H s' := by
  intro s s' h hi
  unfold TInv at *
  rw [h]; exact hi

theorem tinv_empty (H : BB → Prop) (s : SState) (h : s.tt = {}) : TInv H s := by
  unfold TInv
  rw [h]
  exact ⟨ttSane_empty, fun h _ => noUse_empty h⟩

theorem w16_neg_eq {v : Int} (h : InRange v) : w16 (-v) = -v := by
  unfold InRange at h
  unfold w16
  rw [INF_eq] at h
  omega

/-! ### postconditions with an invariant that holds after *every* outcome

`PostA I P m`: from a state satisfying `I`, the final state satisfies `I` whatever the outcome (`ok`, cancelled, panic), and an
`ok` result satisfies `P`.  (Stronger than `SearchLemmas.PostI`, which says nothing about cancelled runs; needed because the
fallback search of `search` starts from the table a cancelled search left behind.) -/

def PostA (I : SState → Prop) {α} (P : α → Prop) (m : SM α) : Prop :=
  ∀ s, I s → I (m s).2 ∧ ∀ a, (m s).1 = .ok a → P a

theorem PostA.toPostI {I : SState → Prop} {α} {P : α → Prop} {m : SM α} (h : PostA I P m) : PostI I P m := by
  intro s a s' hi hs
  have := h s hi
  rw [hs] at this
  exact ⟨this.1, this.2 a rfl⟩

section
variable {I : SState → Prop}

theorem posta_pure {α} {P : α → Prop} {a : α} (h : P a) : PostA I P (pure a : SM α) := by
  intro s hi
  refine ⟨hi, fun b hb => ?_⟩
  cases hb
  exact h

theorem posta_panic {α} {P : α → Prop} : PostA I P (SM.panic : SM α) := by
  intro s hi
  refine ⟨hi, fun b hb => ?_⟩
  cases hb

theorem posta_bind_of {α β} {R : α → Prop} {P : β → Prop} {m : SM α} {f : α → SM β} (hm : PostA I R m)
    (hf : ∀ a, R a → PostA I P (f a)) : PostA I P (m >>= f) := by
  intro s hi
  rw [bind_def]
  have h1 := hm s hi
  rcases hms : m s with ⟨r, s1⟩
  rw [hms] at h1
  cases r with
  | ok a => exact hf a (h1.2 a rfl) s1 h1.1
  | cancelled => exact ⟨h1.1, fun b hb => by cases hb⟩
  | panic => exact ⟨h1.1, fun b hb => by cases hb⟩

theorem posta_mono {α} {P Q : α → Prop} {m : SM α} (h : PostA I P m) (hpq : ∀ a, P a → Q a) : PostA I Q m :=
  fun s hi => ⟨(h s hi).1, fun a ha => hpq a ((h s hi).2 a ha)⟩

theorem posta_bind {α β} {R : α → Prop} {P : β → Prop} {m : SM α} {f : α → SM β} (hm : PostA I R m)
    (hf : ∀ a, PostA I P (f a)) : PostA I P (m >>= f) :=
  posta_bind_of hm (fun a _ => hf a)

theorem posta_seq {α β} {P : β → Prop} {m : SM α} {f : α → SM β} (hm : PostA I (fun _ => True) m)
    (hf : ∀ a, PostA I P (f a)) : PostA I P (m >>= f) :=
  posta_bind_of hm (fun a _ => hf a)

theorem posta_pure_true {α} (a : α) : PostA I (fun _ => True) (pure a : SM α) := posta_pure trivial

theorem posta_true {α} {P : α → Prop} {m : SM α} (h : PostA I P m) : PostA I (fun _ => True) m :=
  posta_mono h (fun _ _ => trivial)

theorem posta_get : PostA I (fun s => I s) SM.get := by
  intro s hi
  refine ⟨hi, fun b hb => ?_⟩
  cases hb
  exact hi

theorem posta_modify (f : SState → SState) (h : ∀ s, I s → I (f s)) : PostA I (fun _ => True) (SM.modify f) := by
  intro s hi
  exact ⟨h s hi, fun _ _ => trivial⟩

theorem posta_ofOption {α} (o : Option α) : PostA I (fun a => o = some a) (SM.ofOption o) := by
  cases o with
  | none => exact posta_panic
  | some a => exact posta_pure rfl

theorem posta_popPath {α} {P : α → Prop} (hI : ∀ s s', s'.tt = s.tt → I s → I s') (body : SM α) (h : PostA I P body) :
    PostA I P (fun s => ((body s).1, { (body s).2 with path := (body s).2.path.pop })) := by
  intro s hi
  have := h s hi
  exact ⟨hI (body s).2 _ rfl this.1, this.2⟩

theorem posta_poll (hI : ∀ s s', s'.tt = s.tt → I s → I s') : PostA I (fun _ => True) poll := by
  intro s hi
  rcases poll_ok_or s with ⟨h, _⟩ | ⟨h, _⟩
  · rw [h]; exact ⟨hI s _ rfl hi, fun _ _ => trivial⟩
  · rw [h]; exact ⟨hI s _ rfl hi, fun _ _ => trivial⟩

theorem posta_modify_tt (hI : ∀ s s', s'.tt = s.tt → I s → I s') (f : SState → SState) (h : ∀ s, (f s).tt = s.tt) :
    PostA I (fun _ => True) (SM.modify f) :=
  posta_modify f (fun s hi => hI s _ (h s) hi)

theorem posta_and_post {α} {P Q : α → Prop} {m : SM α} (h1 : PostA I P m) (h2 : Post Q m) :
    PostA I (fun a => P a ∧ Q a) m := by
  intro s hi
  refine ⟨(h1 s hi).1, fun a ha => ⟨(h1 s hi).2 a ha, ?_⟩⟩
  rcases hms : m s with ⟨r, s1⟩
  rw [hms] at ha
  dsimp only at ha
  subst ha
  exact h2 s a s1 hms

theorem posta_and {α} {P Q : α → Prop} {m : SM α} (h1 : PostA I P m) (h2 : PostA I Q m) :
    PostA I (fun a => P a ∧ Q a) m :=
  fun s hi => ⟨(h1 s hi).1, fun a ha => ⟨(h1 s hi).2 a ha, (h2 s hi).2 a ha⟩⟩
end

theorem posti_and_post {I : SState → Prop} {α} {P Q : α → Prop} {m : SM α} (h1 : PostI I P m) (h2 : Post Q m) :
    PostI I (fun a => P a ∧ Q a) m :=
  fun s a s' hi hs => ⟨(h1 s a s' hi hs).1, (h1 s a s' hi hs).2, h2 s a s' hs⟩

theorem posti_and {I : SState → Prop} {α} {P Q : α → Prop} {m : SM α} (h1 : PostI I P m) (h2 : PostI I Q m) :
    PostI I (fun a => P a ∧ Q a) m :=
  fun s a s' hi hs => ⟨(h1 s a s' hi hs).1, (h1 s a s' hi hs).2, (h2 s a s' hi hs).2⟩

/-! ### quiescence: fail-hard bounds

`QB a b v`: the value is in range, it is `≥ b` or above every evaluation, and `≤ a` or below every evaluation
(evaluations lie strictly inside `(-32667, 32667)`). -/

def QB (a b v : Int) : Prop := InRange v ∧ (b ≤ v ∨ -32667 ≤ v) ∧ (v ≤ a ∨ v ≤ 32667)

section
variable {I : SState → Prop} (hI : ∀ s s', s'.tt = s.tt → I s → I s')
include hI

omit hI in
theorem posta_qLoop_qb (K : Keys) (C : Pos → Prop) (hmove : ∀ p m q, C p → GenMv p m → makeMove K p m = some q → isLegal q = true → C q)
    (recur : Pos → Int → Int → Nat → SM Int)
    (hrec : ∀ q a b pl, C q → InRange a → InRange b → PostA I (QB a b) (recur q a b pl))
    (p : Pos) (hp : C p) (sp beta : Int) (ply : Nat) (eg : Bool) (a0 : Int) (l : List Move) (hl : ∀ m ∈ l, GenMv p m)
    (a : Int) (ha : InRange a)
    (hlo : -32667 ≤ a) (hhi : a ≤ a0 ∨ a ≤ 32667) (hb : InRange beta) :
    PostA I (QB a0 beta) (qLoop K recur p sp beta ply eg l a) := by
  induction l generalizing a with
  | nil => unfold qLoop; exact posta_pure ⟨ha, Or.inr hlo, hhi⟩
  | cons m rest ih =>
    replace ih := ih (fun m' hm' => hl m' (List.mem_cons_of_mem _ hm'))
    have hgm : GenMv p m := hl m List.mem_cons_self
    unfold qLoop
    extract_lets jp2 jp1
    have h2 : ∀ sn, PostA I (QB a0 beta) (jp2 sn) := by
      intro sn
      unfold jp2
      split
      · exact ih a ha hlo hhi
      · split
        · exact posta_panic
        · rename_i q hq
          split
          · exact ih a ha hlo hhi
          · rename_i hleg
            have hleg : isLegal q = true := by simpa using hleg
            refine posta_bind_of (hrec _ _ _ _ (hmove p m q hp hgm hq hleg) (inrange_neg hb) (inrange_neg ha)) ?_
            intro sc hsc
            extract_lets score
            obtain ⟨hr, h1, h2⟩ := hsc
            have hscore : InRange score := inrange_neg hr
            have hse : score = -sc := w16_neg_eq hr
            rw [w16_neg_eq ha] at h1
            rw [w16_neg_eq hb] at h2
            split
            · rename_i hge
              refine posta_pure ⟨hb, Or.inl (Int.le_refl _), ?_⟩
              omega
            · apply ih
              · split
                · exact hscore
                · exact ha
              · split <;> omega
              · split <;> omega
    have h1 : ∀ sd, PostA I (QB a0 beta) (jp1 sd) := by
      intro sd
      unfold jp1
      split
      · exact ih a ha hlo hhi
      · split
        · exact posta_seq (posta_seq (posta_true (posta_ofOption _)) (fun _ => posta_pure_true _)) (fun _ => h2 _)
        · exact posta_seq (posta_pure_true _) (fun _ => h2 _)
    split
    · split
      · exact posta_seq posta_panic (fun _ => h1 _)
      · exact posta_seq (posta_pure_true _) (fun _ => h1 _)
    · exact posta_seq (posta_pure_true _) (fun _ => h1 _)

theorem posta_quiescence_qb (K : Keys) (C : Pos → Prop) (hmove : ∀ p m q, C p → GenMv p m → makeMove K p m = some q → isLegal q = true → C q)
    (heval : ∀ p v, C p → evalRaw p = some v → -(INF - 100) < v ∧ v < INF - 100)
    (fuel : Nat) (p : Pos) (hp : C p) (alpha beta : Int) (ply : Nat) (ha : InRange alpha) (hb : InRange beta) :
    PostA I (QB alpha beta) (quiescence K fuel p alpha beta ply) := by
  induction fuel generalizing p alpha beta ply with
  | zero => unfold quiescence; exact posta_panic
  | succ fuel ih =>
    unfold quiescence
    refine posta_bind (posta_modify_tt hI _ (fun _ => rfl)) (fun _ => posta_bind (posta_poll hI) (fun _ => ?_))
    refine posta_bind_of (posta_ofOption _) ?_
    intro sp hsp
    have hspr := heval p sp hp hsp
    rw [INF_eq] at hspr
    have hspi : InRange sp := by unfold InRange; rw [INF_eq]; omega
    split
    · rename_i hge
      refine posta_pure ⟨hb, Or.inl (Int.le_refl _), ?_⟩
      omega
    · extract_lets alpha'
      have ha' : InRange alpha' := by
        show InRange (if alpha < sp then sp else alpha)
        split
        · exact hspi
        · exact ha
      have hlo : -32667 ≤ alpha' := by
        show -32667 ≤ (if alpha < sp then sp else alpha)
        split <;> omega
      have hhi : alpha' ≤ alpha ∨ alpha' ≤ 32667 := by
        show (if alpha < sp then sp else alpha) ≤ alpha ∨ (if alpha < sp then sp else alpha) ≤ 32667
        split <;> omega
      split
      · exact posta_pure ⟨ha', Or.inr hlo, hhi⟩
      · refine posta_bind posta_get (fun s => posta_bind_of (posta_ofOption _) (fun scored hsc => ?_))
        exact posta_qLoop_qb K C hmove _ (fun q a b pl hq ha hb => ih q hq a b pl ha hb) p hp sp beta ply _ alpha _
          (genMv_visit_caps p _ _ _ ply scored hsc) alpha' ha' hlo hhi hb
end

/-! ### negamax keeps the invariant and returns scores in range (legal children only) -/

section
variable {I : SState → Prop} (hI : ∀ s s', s'.tt = s.tt → I s → I s')
include hI

theorem posta_nmLoop_rng (K : Keys) (C : Pos → Prop) (hmove : ∀ p m q, C p → GenMv p m → makeMove K p m = some q → isLegal q = true → C q)
    (recur : NegaFn) (p : Pos) (hp : C p) (beta : Int) (depth ply : Nat) (prev : Move) (fp : Bool)
    (hrec : ∀ q a b d cn pm, C q → InWin a b → PostA I (fun r : NodeRes => InRange r.1) (recur q a b d (ply + 1) cn pm))
    (l : List Move) (hl : ∀ m ∈ l, GenMv p m) (st : LoopSt) (hst : StR beta st) :
    PostA I (fun st' : LoopSt => InRange st'.bestScore) (nmLoop K recur p beta depth ply prev fp l st) := by
  induction l generalizing st with
  | nil => unfold nmLoop; exact posta_pure hst.best
  | cons m rest ih =>
    replace ih := ih (fun m' hm' => hl m' (List.mem_cons_of_mem _ hm'))
    have hgm : GenMv p m := hl m List.mem_cons_self
    unfold nmLoop
    split
    · exact posta_panic
    · rename_i q hq
      split
      · exact ih st hst
      · rename_i hleg
        have hleg : isLegal q = true := by simpa using hleg
        have hcq : C q := hmove p m q hp hgm hq hleg
        extract_lets st1 alpha hk jp
        have hst1 : StR beta st1 := ⟨hst.win, hst.best⟩
        split
        · exact ih st1 hst1
        · have hjp : ∀ x : Int × Option (List Move), InRange x.1 → PostA I (fun st' : LoopSt => InRange st'.bestScore) (jp x) := by
            intro x hx
            obtain ⟨score, childPv⟩ := x
            unfold jp
            dsimp -zeta only
            extract_lets st2 jp2 st3
            have hx' : InRange score := hx
            have hwin := hst.win
            have h2b : InRange st2.bestScore := by
              by_cases hbs : score > st1.bestScore
              · have e2 : st2 = { st1 with bestMove := m, bestScore := score } := if_pos hbs
                rw [e2]; exact hx'
              · have e2 : st2 = st1 := if_neg hbs
                rw [e2]; exact hst.best
            have h2a : st2.alpha = st.alpha := by
              by_cases hbs : score > st1.bestScore
              · have e2 : st2 = { st1 with bestMove := m, bestScore := score } := if_pos hbs
                rw [e2]
              · have e2 : st2 = st1 := if_neg hbs
                rw [e2]
            split
            · split
              · exact posta_seq (posta_modify_tt hI _ (fun _ => rfl)) (fun _ => posta_pure h2b)
              · exact posta_pure h2b
            · rename_i hnb
              apply ih st3
              by_cases ha : score > alpha
              · have e3 : st3 = { st2 with nodeType := 0, alpha := score, pvl := some (st2.bestMove :: childPv.getD []) } := if_pos ha
                rw [e3]
                exact ⟨inwin_raise hwin ha hnb, h2b⟩
              · have e3 : st3 = st2 := if_neg ha
                rw [e3]
                exact ⟨by rw [h2a]; exact hwin, h2b⟩
          clear_value jp
          have hwin := hst.win
          split
          · refine posta_bind_of (hrec q _ _ _ _ _ hcq (inwin_full hwin)) ?_
            intro x hx
            obtain ⟨sc, cpv⟩ := x
            exact hjp (w16 (-sc), cpv) (inrange_neg hx)
          · refine posta_bind_of (hrec q _ _ _ _ _ hcq (inwin_zw hwin)) ?_
            intro x hx0
            obtain ⟨sc0, cpv0⟩ := x
            dsimp only
            split
            · refine posta_bind_of (hrec q _ _ _ _ _ hcq (inwin_full hwin)) ?_
              intro x hx
              obtain ⟨sc, cpv⟩ := x
              exact hjp (w16 (-sc), cpv) (inrange_neg hx)
            · exact hjp (w16 (-sc0), none) (inrange_neg hx0)
end

/-- with no legal move the loop returns its start state -/
theorem post_nmLoop_nolegal' (K : Keys) (recur : NegaFn) (p : Pos) (beta : Int) (depth ply : Nat) (prev : Move) (fp : Bool)
    (h : Heur) (pv tt : Move) (scored : List Move) (hs : scoreMoves p h pv tt ply (genMoves p) = some scored) (st : LoopSt) :
    Post (fun st' : LoopSt => NoLegal K p → st' = st) (nmLoop K recur p beta depth ply prev fp (visitOrder scored) st) :=
  fun s a s' hr hno =>
    post_nmLoop_nolegal K recur p beta depth ply prev fp _ st (nolegal_visit K p h pv tt ply scored hs hno) s a s' hr

theorem eval_inrange {K : Keys} {C : Pos → Prop} {H : BB → Prop} (hC : MateClass K C H) (p : Pos) (v : Int) (hp : C p)
    (hv : evalRaw p = some v) : InRange v := by
  have := hC.eval p v hp hv
  unfold InRange
  rw [INF_eq] at *
  omega

/-- what the range proof needs from a state invariant: it only depends on the table, implies `TTSane`, and survives the one
`ttSave` the search makes (an in-range score, for a position of the class that has a legal move) -/
structure TblInv (K : Keys) (C : Pos → Prop) (I : SState → Prop) : Prop where
  stable : ∀ s s', s'.tt = s.tt → I s → I s'
  sane : ∀ s, I s → TTSane s.tt
  save : ∀ p, C p → ¬ NoLegal K p → ∀ (s : SState) (m : Move) (d : Nat) (score : Int) (nt age : Nat), I s → InRange score →
    I { s with tt := ttSave s.tt p.hash m d score nt age }

theorem posta_negamax_gen (K : Keys) (C : Pos → Prop) (I : SState → Prop)
    (hmove : ∀ p m q, C p → GenMv p m → makeMove K p m = some q → isLegal q = true → C q)
    (hnull : ∀ p, C p → isInCheck p p.side = false → C (makeNull K p).1)
    (heval : ∀ p v, C p → evalRaw p = some v → -(INF - 100) < v ∧ v < INF - 100)
    (hTI : TblInv K C I)
    (fuel : Nat) (p : Pos) (hp : C p) (alpha beta : Int) (depth ply : Nat) (cn : Bool) (prev : Move)
    (hw : InWin alpha beta) (hply : ply + fuel ≤ 32767) :
    PostA I (fun r : NodeRes => InRange r.1) (negamax K fuel p alpha beta depth ply cn prev) := by
  induction fuel generalizing p alpha beta depth ply cn prev with
  | zero => unfold negamax; exact posta_panic
  | succ fuel ih =>
    have hab := inwin_range hw
    have hst := hTI.stable
    unfold negamax
    refine posta_seq (posta_poll hst) ?_
    intro _
    extract_lets isRoot mateValue pvNode inCheck depth' R body
    have hbody : PostA I (fun r : NodeRes => InRange r.1) body := by
      unfold body
      refine posta_bind_of posta_get ?_
      intro s hs
      extract_lets pvMove
      have htt : InRange (ttGet s.tt p.hash alpha beta depth' ply).1 :=
        ttGet_range s.tt p.hash alpha beta depth' ply (hTI.sane s hs) hab.1 hab.2 (by omega)
      split
      rename_i ttScore use ttMove httg
      rw [httg] at htt
      split
      · exact posta_pure htt
      · extract_lets jp3 jp2 jp1
        have h3 : ∀ fp, PostA I (fun r : NodeRes => InRange r.1) (jp3 fp) := by
          intro fp
          unfold jp3
          refine posta_seq (posta_true posta_get) ?_
          intro s2
          refine posta_bind_of (posta_ofOption _) ?_
          intro scored hscored
          have hst0 : StR beta { alpha := alpha, bestScore := -INF } :=
            ⟨hw, by show InRange (-INF); unfold InRange; rw [INF_eq]; omega⟩
          refine posta_bind_of (posta_and_post (posta_nmLoop_rng hst K C hmove _ p hp beta depth' ply prev fp
            (fun q a b d cn pm hq h => ih q hq a b d (ply + 1) cn pm h (by omega)) _
            (genMv_visit_moves p _ _ _ ply scored hscored) _ hst0)
            (post_nmLoop_nolegal' K _ p beta depth' ply prev fp _ _ _ scored hscored _)) ?_
          intro st hst'
          obtain ⟨hbest, hnl⟩ := hst'
          split
          · refine posta_pure ?_
            show InRange (if inCheck = true then mateValue else contempt p)
            split
            · exact inrange_mate ply (by omega)
            · exact inrange_contempt p
          · rename_i hlm
            refine posta_seq (posta_poll hst) (fun _ => ?_)
            refine posta_seq (posta_modify _ ?_) (fun _ => posta_pure hbest)
            intro s3 hs3
            apply hTI.save p hp _ s3 _ _ _ _ _ hs3 hbest
            intro hno
            apply hlm
            rw [hnl hno]
        have h2 : ∀ nc, PostA I (fun r : NodeRes => InRange r.1) (jp2 nc) := by
          intro nc
          unfold jp2
          split
          · exact posta_pure hab.2
          · split
            · exact posta_seq (posta_seq (posta_true (posta_ofOption _)) (fun _ => posta_pure_true _)) (fun _ => h3 _)
            · exact posta_seq (posta_pure_true _) (fun _ => h3 _)
        have h1 : ∀ snm : Option Int, (∀ b, snm = some b → InRange b) →
            PostA I (fun r : NodeRes => InRange r.1) (jp1 snm) := by
          intro snm hsnm
          unfold jp1
          split
          · rename_i b
            exact posta_pure (hsnm b rfl)
          · split
            · rename_i hcond
              have hnc : isInCheck p p.side = false := by
                have : inCheck = false := by
                  simp only [Bool.and_eq_true, Bool.not_eq_true', decide_eq_true_eq] at hcond
                  exact hcond.1.1.2
                exact this
              refine posta_seq ?_ (fun _ => h2 _)
              refine posta_seq (posta_true (posta_ofOption _)) (fun e => ?_)
              split
              · split
                rename_i q ep hmk
                have hq : C q := by
                  have := hnull p hp hnc
                  rw [hmk] at this
                  exact this
                refine posta_seq (posta_true (ih q hq _ _ _ (ply + 1) false 0 (inwin_null hw) (by omega))) (fun x => ?_)
                split
                exact posta_pure_true _
              · exact posta_pure_true _
            · exact posta_seq (posta_pure_true _) (fun _ => h2 _)
        split
        · refine posta_bind_of (R := fun snm : Option Int => ∀ b, snm = some b → InRange b) ?_ (fun snm h => h1 snm h)
          refine posta_seq (posta_true (posta_ofOption _)) (fun e => ?_)
          extract_lets b
          refine posta_pure ?_
          intro b' hb'
          split at hb'
          · rename_i hge
            cases hb'
            have hb1 := w16_bounds (e - w16 (staticNullMargin * ↑depth'))
            have hb2 := hab.2
            unfold InRange at *
            rw [INF_eq] at *
            have : b = w16 (e - w16 (staticNullMargin * ↑depth')) := rfl
            omega
          · cases hb'
        · refine posta_bind_of (R := fun snm : Option Int => ∀ b, snm = some b → InRange b) (posta_pure ?_) (fun snm h => h1 snm h)
          intro b hb
          cases hb
    split
    · refine posta_bind_of (posta_quiescence_qb hst K C hmove heval 128 p hp alpha beta ply hab.1 hab.2) ?_
      intro v hv
      exact posta_pure hv.1
    · refine posta_seq (posta_modify_tt hst _ (fun _ => rfl)) (fun _ => posta_seq (posta_true posta_get) (fun s => ?_))
      split
      · exact posta_pure (inrange_contempt p)
      · refine posta_seq (posta_modify_tt hst _ (fun _ => rfl)) (fun _ => ?_)
        exact posta_popPath hst body hbody

theorem tinv_tblInv {K : Keys} {C : Pos → Prop} {H : BB → Prop} (hC : MateClass K C H) : TblInv K C (TInv H) where
  stable := tinv_stable H
  sane := fun _ hs => hs.1
  save := by
    intro p hp hleg s m d score nt age hs hsc
    refine ⟨ttSave_sane _ _ _ _ _ _ _ hs.1 hsc, ?_⟩
    intro h hh
    apply ttSave_noUse _ _ _ _ _ _ _ _ (hs.2 h hh)
    intro heq
    exact hleg (hC.coll p hp (by rw [heq]; exact hh))

theorem posta_negamax_inv (K : Keys) (C : Pos → Prop) (H : BB → Prop) (hC : MateClass K C H)
    (fuel : Nat) (p : Pos) (hp : C p) (alpha beta : Int) (depth ply : Nat) (cn : Bool) (prev : Move)
    (hw : InWin alpha beta) (hply : ply + fuel ≤ 32767) :
    PostA (TInv H) (fun r : NodeRes => InRange r.1) (negamax K fuel p alpha beta depth ply cn prev) :=
  posta_negamax_gen K C (TInv H) hC.move hC.null hC.eval (tinv_tblInv hC) fuel p hp alpha beta depth ply cn prev hw hply

/-! ### provenance: a table that only holds what searches of the class stored

`TProv K C s`: scores in range, and every entry of non-zero depth carries the hash of a position of the class that has a legal
move.  True for the empty table, kept by every `negamax` on a position of the class; it implies `TInv H` for every set `H` of
terminal hashes that collide with no such position. -/

def TProv (K : Keys) (C : Pos → Prop) (s : SState) : Prop :=
  TTSane s.tt ∧ ∀ key, ∀ e ∈ s.tt.bucket key, e.depth ≠ 0 → ∃ p, C p ∧ ¬ NoLegal K p ∧ p.hash = e.hash

theorem tprov_empty (K : Keys) (C : Pos → Prop) (s : SState) (h : s.tt = {}) : TProv K C s := by
  unfold TProv
  rw [h]
  refine ⟨ttSane_empty, ?_⟩
  intro key e he hd
  exfalso
  apply hd
  have : e ∈ emptyBucket := by simpa [TT.bucket] using he
  unfold emptyBucket at this
  rw [List.eq_of_mem_replicate this]

theorem tprov_tblInv (K : Keys) (C : Pos → Prop) : TblInv K C (TProv K C) where
  stable := by
    intro s s' h hi
    unfold TProv at *
    rw [h]; exact hi
  sane := fun _ hs => hs.1
  save := by
    intro p hp hleg s m d score nt age hs hsc
    refine ⟨ttSave_sane _ _ _ _ _ _ _ hs.1 hsc, ?_⟩
    intro key e he hd
    unfold ttSave TT.bucket at he
    dsimp only at he
    rw [Std.HashMap.getD_insert] at he
    split at he
    · rcases List.mem_or_eq_of_mem_set he with h1 | h1
      · exact hs.2 _ e h1 hd
      · rw [h1]; exact ⟨p, hp, hleg, rfl⟩
    · exact hs.2 key e he hd

theorem tprov_tinv {K : Keys} {C : Pos → Prop} {H : BB → Prop} (hC : MateClass K C H) (s : SState) (h : TProv K C s) :
    TInv H s := by
  refine ⟨h.1, ?_⟩
  intro hh hH e he heh
  by_cases hd : e.depth = 0
  · exact hd
  · exfalso
    obtain ⟨p, hp, hleg, hph⟩ := h.2 _ e he hd
    exact hleg (hC.coll p hp (by rw [hph, heh]; exact hH))

/-! ### the same in the weaker `PostI` form -/

theorem posti_quiescence_qb {I : SState → Prop} (hI : ∀ s s', s'.tt = s.tt → I s → I s') (K : Keys) (C : Pos → Prop)
    (hmove : ∀ p m q, C p → GenMv p m → makeMove K p m = some q → isLegal q = true → C q)
    (heval : ∀ p v, C p → evalRaw p = some v → -(INF - 100) < v ∧ v < INF - 100)
    (fuel : Nat) (p : Pos) (hp : C p) (alpha beta : Int) (ply : Nat) (ha : InRange alpha) (hb : InRange beta) :
    PostI I (QB alpha beta) (quiescence K fuel p alpha beta ply) :=
  (posta_quiescence_qb hI K C hmove heval fuel p hp alpha beta ply ha hb).toPostI

theorem posti_negamax_inv (K : Keys) (C : Pos → Prop) (H : BB → Prop) (hC : MateClass K C H)
    (fuel : Nat) (p : Pos) (hp : C p) (alpha beta : Int) (depth ply : Nat) (cn : Bool) (prev : Move)
    (hw : InWin alpha beta) (hply : ply + fuel ≤ 32767) :
    PostI (TInv H) (fun r : NodeRes => InRange r.1) (negamax K fuel p alpha beta depth ply cn prev) :=
  (posta_negamax_inv K C H hC fuel p hp alpha beta depth ply cn prev hw hply).toPostI

end P19
end Clemens
