import Clemens.Proofs.LegalSucc
/-
C01 lemmas: the engine's list of playable moves (`engineLegal`) against `Fide.legalMoves`.
-/
namespace Clemens
namespace LG
open GM

theorem filterMap_fst_sublist {α β γ : Type} (l : List α) (g : α → Option (α × β)) (h : α → γ)
    (hg : ∀ a b, g a = some b → b.1 = a) : ((l.filterMap g).map (fun b => h b.1)).Sublist (l.map h) := by
  induction l with
  | nil => exact List.Sublist.slnil
  | cons a l ih =>
    rw [List.filterMap_cons]
    cases hga : g a with
    | none => exact List.Sublist.cons _ ih
    | some b =>
      simp only [List.map_cons]
      rw [hg a b hga]
      exact List.Sublist.cons_cons _ ih

def legalStep (K : Keys) (p : Pos) (m : Move) : Option (Move × Pos) :=
  match makeMove K p m with
  | some q => if isLegal q then some (m, q) else none
  | none => none

theorem engineLegal_eq (K : Keys) (p : Pos) : engineLegal K p = (genMoves p).filterMap (legalStep K p) := rfl

theorem legalStep_fst (K : Keys) (p : Pos) (m : Move) (b : Move × Pos) (h : legalStep K p m = some b) : b.1 = m := by
  unfold legalStep at h
  split at h
  · split at h
    · injection h with h; rw [← h]
    · cases h
  · cases h

theorem engineLegal_nodup (K : Keys) (p : Pos) (hw : WF p = true) :
    ((engineLegal K p).map (fun mq => absMove mq.1)).Nodup :=
  (filterMap_fst_sublist (genMoves p) (legalStep K p) absMove (legalStep_fst K p)).nodup (genMoves_nodup p hw)

theorem engineLegal_mem (K : Keys) (p : Pos) (hw : WF p = true) (hr : p.ply < 255 ∧ p.hmc < 255) (mv : Fide.Move) :
    mv ∈ (engineLegal K p).map (fun mq => absMove mq.1) ↔ mv ∈ Fide.legalMoves (absPos p) := by
  unfold Fide.legalMoves
  rw [List.mem_filter, ← (genMoves_exact p hw).1 mv, List.mem_map, List.mem_map]
  have hsideP : (absPos p).side = p.side := rfl
  rw [hsideP]
  constructor
  · rintro ⟨⟨m, q⟩, hmem, rfl⟩
    obtain ⟨hm, hq, hl⟩ := (mem_engineLegal K p m q).1 hmem
    obtain ⟨q', hq', habs, hshq, hside, _, hat⟩ := succ_exists K p hw hr m hm
    rw [hq] at hq'
    injection hq' with hq'
    subst hq'
    refine ⟨⟨m, hm, rfl⟩, ?_⟩
    rw [← habs, ← isLegal_succ p hw m hm q hshq hside hat]
    exact hl
  · rintro ⟨⟨m, hm, rfl⟩, hl⟩
    obtain ⟨q, hq, habs, hshq, hside, _, hat⟩ := succ_exists K p hw hr m hm
    refine ⟨(m, q), (mem_engineLegal K p m q).2 ⟨hm, hq, ?_⟩, rfl⟩
    rw [isLegal_succ p hw m hm q hshq hside hat, habs]
    exact hl

end LG
end Clemens
