import Clemens.Proofs.Mirror
/-
Lemma library for C15 (part 2): the model-level mirror is the specification-level mirror (`Fide.mirror`).
-/
namespace Clemens

theorem mirrorSq_eq : ∀ s < 64, Fide.mirrorSq s = s ^^^ 56 := by decide

theorem mirrorSq_ne_64 (s : Nat) : Fide.mirrorSq s ≠ 64 := by
  unfold Fide.mirrorSq rankOf fileOf; omega

theorem absPos_at_M (p : Pos) (s : Nat) : (absPos p).at s = p.at s := by
  simp [Fide.Pos.at, absPos, Pos.at, vget, Array.getD_eq_getD_getElem?]

theorem absPos_mirrorPos (p : Pos) : absPos (mirrorPos p) = Fide.mirror (absPos p) := by
  unfold Fide.mirror
  have hb : (absPos (mirrorPos p)).board
      = Array.ofFn (n := 64) fun i => Fide.mirrorPiece ((absPos p).at (Fide.mirrorSq i.val)) := by
    show (mirrorPos p).board.toArray = _
    unfold mirrorPos
    rw [Vector.toArray_ofFn]
    congr 1
    funext i
    rw [absPos_at_M, mirrorSq_eq i.val i.isLt]
  have he : (absPos (mirrorPos p)).ep = (absPos p).ep.map Fide.mirrorSq := by
    show (if (if p.ep = 64 then 64 else Fide.mirrorSq p.ep) = 64 then none
        else some (if p.ep = 64 then 64 else Fide.mirrorSq p.ep)) = (if p.ep = 64 then none else some p.ep).map Fide.mirrorSq
    by_cases h : p.ep = 64
    · simp [h]
    · simp [h, mirrorSq_ne_64]
  rw [← hb, ← he]
  rfl

/-! ### the mirror of a well-formed position is well-formed -/

theorem piece_lt_16 (x : Nat) (h : (x == 0 || validPiece x) = true) : x < 16 := by
  by_cases h0 : x = 0
  · omega
  · have hv : validPiece x = true := by
      rcases Bool.or_eq_true_iff.1 h with h1 | h1
      · exact absurd (beq_iff_eq.1 h1) h0
      · exact h1
    unfold validPiece pieceColor at hv
    have hc : x >>> 3 < 2 := by
      have := Bool.and_eq_true_iff.1 hv
      exact of_decide_eq_true this.1
    rw [Nat.shiftRight_eq_div_pow] at hc
    omega

theorem mirrorPiece_facts : ∀ x < 16, (x == 0 || validPiece x) = true →
    ((Fide.mirrorPiece x == 0 || validPiece (Fide.mirrorPiece x)) = true ∧
     ∀ c < 2, ∀ t < 6, (x == newPiece (1 - c) t) = (Fide.mirrorPiece x == newPiece c t)) := by decide

theorem mirrorPos_at (p : Pos) (s : Nat) (hs : s < 64) : (mirrorPos p).at s = Fide.mirrorPiece (p.at (s ^^^ 56)) := by
  simp [Pos.at, vget, mirrorPos, hs]

theorem wfShape_mirrorPos (p : Pos) (hw : wfShape p = true) : wfShape (mirrorPos p) = true := by
  unfold wfShape at hw ⊢
  simp only [Bool.and_eq_true, List.all_eq_true, List.mem_range, beq_iff_eq] at hw ⊢
  obtain ⟨⟨⟨h1, h2⟩, h3⟩, h4⟩ := hw
  refine ⟨⟨⟨?_, ?_⟩, ?_⟩, ?_⟩
  · intro s hs
    have hf := fl_lt s hs
    obtain ⟨hv, hp⟩ := h1 (s ^^^ 56) hf
    have hv' : (p.at (s ^^^ 56) == 0 || validPiece (p.at (s ^^^ 56))) = true := hv
    obtain ⟨m1, m2⟩ := mirrorPiece_facts _ (piece_lt_16 _ hv') hv'
    rw [mirrorPos_at p s hs]
    refine ⟨by simpa only [Bool.or_eq_true, beq_iff_eq] using m1, ?_⟩
    intro c hc t ht
    rw [mirrorPos_pieces p c t hc ht]
    show (flipV (p.pieces (1 - c) t)).getLsbD s = _
    rw [getLsbD_flipV _ _ hs]
    have := hp (1 - c) (by omega) t ht
    rw [← m2 c hc t ht]
    exact this
  · rw [mirrorPos_white, h3, range6]
    simp only [List.foldl_cons, List.foldl_nil, flipV_or, flipV_zero]
    obtain ⟨a0, a1, a2, a3, a4, a5, _⟩ := mp p
    rw [a0, a1, a2, a3, a4, a5]
  · rw [mirrorPos_black, h2, range6]
    simp only [List.foldl_cons, List.foldl_nil, flipV_or, flipV_zero]
    obtain ⟨_, _, _, _, _, _, b0, b1, b2, b3, b4, b5⟩ := mp p
    rw [b0, b1, b2, b3, b4, b5]
  · rw [mirrorPos_all, mirrorPos_white, mirrorPos_black, h4, flipV_or, BitVec.or_comm]

end Clemens
