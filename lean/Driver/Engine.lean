import Driver.Util
import Clemens.Model.See
import Clemens.Model.TT
import Clemens.Model.Order
import Clemens.Model.Uci
import Clemens.Model.UciParse
import Clemens.Model.EvalCache
import Clemens.Spec.FideSee
import Clemens.Spec.Mirror
import Clemens.Model.Uci
import Clemens.Gen.Src
/- evaluation, SEE, TT, ordering, time and parser operations of the line protocol -/
namespace Driver
open Clemens

def optInt : Option Int → String | some i => toString i | none => "panic"

def domE (p : Pos) : String := " s.dom=" ++ boolStr (Fide.wellFormed (absPos p) && p.ply / 2 + 1 ≤ 128)

/-- `eval <fenhex> <mirrorfenhex>` -/
def opEval (args : List String) : String :=
  match args.take 2 with
  | [h, hm] =>
    match parsePos h, parsePos hm with
    | .ok p, .ok q =>
      let sm := Fide.toFen (Fide.mirror (absPos p))
      s!"m.raw={optInt (evalRaw p)} m.mirror={optInt (evalRaw q)} s.mirrorfen={sm.replace " " "_"}" ++
      s!" m.draw={boolStr (isDraw p)} m.phase={gamePhase p}" ++ domE p
    | _, _ => "m.res=badpos"
  | _ => "bad-op"

/-- `evalc <fenhex>…`: a history of cached evaluations starting from the empty cache -/
def opEvalc (args : List String) : String :=
  let r := args.foldl (fun (acc : Option (EvalCache × List String × List String × Bool)) h =>
    match acc with
    | none => none
    | some (c, scores, raws, dom) =>
      match parsePos h with
      | .ok p =>
        match evalWithCache c p with
        | some (s, c') => some (c', toString s :: scores, optInt (evalRaw p) :: raws, dom && Fide.wellFormed (absPos p))
        | none => none
      | _ => none) (some ({}, [], [], true))
  match r with
  | some (_, scores, raws, dom) => s!"m.scores={",".intercalate scores.reverse} m.raws={",".intercalate raws.reverse} s.dom={boolStr dom}"
  | none => "m.res=panic"

def valueSpec (k : Nat) : Int := pieceValue k

/-- `see <fenhex> <moveword>` -/
def opSee (args : List String) : String :=
  match args with
  | [h, w] =>
    match parsePos h, w.toNat? with
    | .ok p, some m =>
      let sp := Fide.see valueSpec (absPos p) (Move.src m) (Move.tgt m)
      let ms := see p m
      let sign := match ms with | some v => toString (Fide.signOf v) | none => "panic"
      s!"m.see={optInt ms} m.seesign={sign} s.seesign={Fide.signOf sp} s.seeexact={sp}" ++ domE p
    | _, _ => "m.res=badpos"
  | _ => "bad-op"

def parseInt (s : String) : Int := s.toInt?.getD 0

/-- `tt <op>…` with `s:hash:move:depth:score:nt:age` and `g:hash:alpha:beta:depth:ply` -/
def opTT (args : List String) : String :=
  let (_, outs) := args.foldl (fun (acc : TT × List String) a =>
    let (t, outs) := acc
    match a.splitOn ":" with
    | ["s", h, m, d, sc, nt, age] =>
      (ttSave t (parseBB h) (m.toNat?.getD 0) (d.toNat?.getD 0) (parseInt sc) (nt.toNat?.getD 0) (age.toNat?.getD 0), outs)
    | ["g", h, al, be, d, ply] =>
      let (sc, use, mv) := ttGet t (parseBB h) (parseInt al) (parseInt be) (d.toNat?.getD 0) (ply.toNat?.getD 0)
      (t, s!"{sc}/{boolStr use}/{mv}" :: outs)
    | _ => (t, "bad" :: outs)) (({} : TT), [])
  s!"m.out={if outs.isEmpty then "-" else ";".intercalate outs.reverse}"

/-- heuristics given as `k:<ply>:<i>:<move>`, `h:<side>:<src>:<tgt>:<val>`, `c:<side>:<src>:<tgt>:<move>` -/
def parseHeur (items : List String) : Heur :=
  let ks := items.filterMap fun a => match a.splitOn ":" with
    | ["k", ply, i, m] => some (ply.toNat?.getD 0, i.toNat?.getD 0, m.toNat?.getD 0) | _ => none
  let hs := items.filterMap fun a => match a.splitOn ":" with
    | ["h", sd, s, t, v] => some (sd.toNat?.getD 0, s.toNat?.getD 0, t.toNat?.getD 0, v.toNat?.getD 0) | _ => none
  let cs := items.filterMap fun a => match a.splitOn ":" with
    | ["c", sd, s, t, m] => some (sd.toNat?.getD 0, s.toNat?.getD 0, t.toNat?.getD 0, m.toNat?.getD 0) | _ => none
  let ks := ks.reverse
  let hs := hs.reverse
  let cs := cs.reverse
  { killers := fun ply i => match ks.find? (fun k => k.1 == ply && k.2.1 == i) with | some k => k.2.2 | none => 0
    history := fun sd s t => match hs.find? (fun k => k.1 == sd && k.2.1 == s && k.2.2.1 == t) with | some k => k.2.2.2 | none => 0
    counter := fun sd s t => match cs.find? (fun k => k.1 == sd && k.2.1 == s && k.2.2.1 == t) with | some k => k.2.2.2 | none => 0 }

/-- `order <fenhex> <caps:0|1> <pv> <tt> <ply> <heur>…` -/
def opOrder (args : List String) : String :=
  match args with
  | h :: caps :: pv :: tt :: ply :: heur =>
    match parsePos h with
    | .ok p =>
      let l := if caps = "1" then genCaptures p else genMoves p
      match scoreMoves p (parseHeur heur) (pv.toNat?.getD 0) (tt.toNat?.getD 0) (ply.toNat?.getD 0) l with
      | some scored => s!"m.scored={moveWords scored} m.visit={moveWords (visitOrder scored)}" ++ domE p
      | none => "m.res=panic" ++ domE p
    | _ => "m.res=badpos"
  | _ => "bad-op"

/-- `time <side> <plys> <wtime> <btime> <winc> <binc> <movestogo> <movetime>` -/
def opTime (args : List String) : String :=
  match args with
  | [side, plys, wt, bt, wi, bi, mtg, mt] =>
    -- the definition regenerated from the Go source text (tools/go2lean) is what is compared with the Go function
    let sp : Src.search.SearchParameter := ⟨parseInt wt, parseInt bt, parseInt wi, parseInt bi, parseInt mtg, 0#8, parseInt mt, false⟩
    -- `budgeth`: the hand-written model (Model/Time.lean), the fall-back route when the regenerated definition cannot be used
    let hsp : SearchParams := { wtime := parseInt wt, btime := parseInt bt, winc := parseInt wi, binc := parseInt bi, movesToGo := parseInt mtg, moveTime := parseInt mt }
    s!"m.budget={Src.search.calculateTime (BitVec.ofNat 8 (side.toNat?.getD 0)) (parseInt plys) sp} m.budgeth={calculateTime (side.toNat?.getD 0) (parseInt plys) hsp}"
  | _ => "bad-op"

def spStr (sp : SearchParams) : String :=
  s!"{sp.wtime},{sp.btime},{sp.winc},{sp.binc},{sp.movesToGo},{sp.depth},{sp.moveTime},{boolStr sp.infinite}"

def msgStr : GoMsg → String
  | .missing k => "missing:" ++ k | .broken k => "broken:" ++ k | .notImplemented k => "notimpl:" ++ k | .unknown => "unknown"

/-- `go <tokenhex>…` -/
def opGo (args : List String) : String :=
  match parseGo atoiFull (args.map unhexBytes) with
  | some (sp, msgs) =>
    -- a token in keyword position that is not one of the standard parameters puts the line outside the lines "built from the
    -- standard parameters": there only totality is claimed, so agreement with the model is not demanded (`s.dom=0`)
    let dom := if msgs.any (fun m => match m with | .unknown => true | _ => false) then "s.dom=0 " else ""
    s!"{dom}m.res=ok m.sp={spStr sp} m.msgs={if msgs.isEmpty then "-" else ";".intercalate (msgs.map msgStr)}"
  | none => "m.res=panic"

/-- `gof <expected> <n> <tokenhex>…`: like `go`, the expectation is judged on the Go side -/
def opGof (args : List String) : String := opGo (args.drop 2)

/-- `prep <tokenhex>…`: removePrefixGarbage on the fields of a line -/
def opPrep (args : List String) : String :=
  let r := removePrefixGarbage (args.map unhexBytes)
  s!"m.tokens={if r.isEmpty then "-" else ",".intercalate (r.map bytesToHex)}"

end Driver

namespace Driver
open Clemens

/-- `hashdiff <fenhex> <fenhex>` -/
def opHashdiff (args : List String) : String :=
  match args with
  | [a, b] =>
    match parsePos a, parsePos b with
    | .ok p, .ok q => s!"m.h1={hex64 p.hash} m.h2={hex64 q.hash}"
    | _, _ => "m.res=badpos"
  | _ => "bad-op"

/-- `ecache s:hash:score g:hash …`: the evaluation cache table driven directly -/
def opEcache (args : List String) : String :=
  let (_, outs) := args.foldl (fun (acc : EvalCache × List String) a =>
    let (c, outs) := acc
    match a.splitOn ":" with
    | ["s", h, sc] => ({ entries := c.entries.insert ((parseBB h).toNat % Gen.evalCacheSize) (parseBB h, parseInt sc) }, outs)
    | ["g", h] =>
      let e := c.slot (parseBB h)
      (c, s!"{e.2}/{boolStr (e.1 == parseBB h)}" :: outs)
    | _ => (c, "bad" :: outs)) (({} : EvalCache), [])
  s!"m.out={if outs.isEmpty then "-" else ";".intercalate outs.reverse}"

/-- `dialog <linehex>…`: sequential UCI dialogue -/
def opDialog (args : List String) : String :=
  -- `ood`: some `position` command of the dialogue is malformed (unknown kind, short or broken FEN, a move that is rejected, no
  -- arguments).  "Garbage inside a position command" is outside the domain of the dialogue properties: such dialogues are executed
  -- but not judged (`s.dom=0`).
  let r := args.foldl (fun (acc : Option (GameSt × List String × Bool)) lh =>
    match acc with
    | none => none
    | some (st, outs, ood) =>
      let line := bytesToString (unhexBytes lh)
      let toks := removePrefixGarbage (((line.splitOn " ").filter (· ≠ "")).map stringToBytes)
      match toks with
      | [] => some (st, outs, ood)
      | c :: rest =>
        let cmd := bytesToString c
        let restS := rest.map bytesToString
        let (pa, movesOk) : PosArgs × Bool :=
          if cmd ≠ "position" then (.empty, true) else
          match restS with
          | [] => (.empty, true)
          | "startpos" :: more =>
            let mv := match more with | "moves" :: ms => if more.length ≤ 1 then [] else ms | _ => []
            let ok := match setupGameD "startpos" mv with | true => true | false => false
            (.startpos, ok)
          | "fen" :: more =>
            if more.length < 6 then (.fenShort, true) else
            let fen := " ".intercalate (more.take 6)
            match parseFen K (stringToBytes fen) with
            | .ok _ =>
              let after := more.drop 6
              let mv := match after with | "moves" :: ms => if after.length ≤ 1 then [] else ms | _ => []
              (.fenOk, setupGameD (bytesToHex (stringToBytes fen)) mv)
            | _ => (.fenBroken, true)
          | _ => (.other, true)
        let goMsgs := if cmd = "go" then (match parseGo atoiFull rest with | some (_, m) => m.length | none => 0) else 0
        let bad := cmd = "position" && (!movesOk || (match pa with | .startpos => false | .fenOk => false | _ => true))
        match dialogStep st cmd pa movesOk goMsgs with
        | some (st', evs) => some (st', outs ++ evs.map Ev.str, ood || bad)
        | none => none) (some (({} : GameSt), [], false))
  match r with
  | some (_, outs, ood) => s!"{if ood then "s.dom=0 " else ""}m.out={if outs.isEmpty then "-" else "".intercalate outs}"
  | none => "s.dom=0 m.out=PANIC"
where
  setupGameD (posArg : String) (moves : List String) : Bool :=
    match parsePos posArg with
    | .ok p0 =>
      (moves.foldl (fun (acc : Option Pos) mv => acc.bind fun p =>
        match makeMoveFromString K p (stringToBytes mv) with
        | .ok q => some q
        | _ => none) (some p0)).isSome
    | _ => false

end Driver

namespace Driver
/-- `conc <script>`: by the dialogue rule every go of the script is accepted, so the expected counts are the
numbers of go and isready commands sent -/
def opConc (args : List String) : String :=
  let gos := (args.filter fun t => t.startsWith "G").length
  let readys := (args.filter (· = "R")).length +
    (args.filterMap fun t => if t.startsWith "RR" then (t.drop 2).toNat? else none).sum
  s!"m.out=b{gos},r{readys}"
end Driver

namespace Driver
open Clemens
/-- `gotime <side> <plys> <mt> <clock> <tokenhex>…`: the budget computed from the parsed go line -/
def opGoTime (args : List String) : String :=
  match args with
  | side :: plys :: _ :: _ :: toks =>
    match parseGo atoiFull (toks.map unhexBytes) with
    | some (sp, _) =>
      let ssp : Src.search.SearchParameter := ⟨sp.wtime, sp.btime, sp.winc, sp.binc, sp.movesToGo, BitVec.ofNat 8 sp.depth, sp.moveTime, sp.infinite⟩
      s!"m.budget={Src.search.calculateTime (BitVec.ofNat 8 (side.toNat?.getD 0)) (parseInt plys) ssp} m.budgeth={calculateTime (side.toNat?.getD 0) (parseInt plys) sp}"
    | none => "m.res=panic"
  | _ => "bad-op"
end Driver
