import Driver.Chess
import Driver.Engine
import Driver.SearchOps
open Driver

def dispatch (line : String) : String :=
  match (line.trimAscii.toString.splitOn " ").filter (· ≠ "") with
  | [] => "empty"
  | op :: args =>
    if op = "fen" then opFen args
    else if op = "gen" then opGen args
    else if op = "attby" then opAttby args
    else if op = "mv" then opMv args
    else if op = "mvs" then opMvs args
    else if op = "play" then opPlay args
    else if op = "null" then opNull args
    else if op = "perft" then opPerft args
    else if op = "att" then opAtt args
    else if op = "magic" then opMagic args
    else if op = "eval" then opEval args
    else if op = "evalc" then opEvalc args
    else if op = "see" then opSee args
    else if op = "tt" then opTT args
    else if op = "order" then opOrder args
    else if op = "time" then opTime args
    else if op = "go" then opGo args
    else if op = "gof" then opGof args
    else if op = "gotime" then opGoTime args
    else if op = "prep" then opPrep args
    else if op = "hashdiff" then opHashdiff args
    else if op = "ecache" then opEcache args
    else if op = "dialog" then opDialog args
    else if op = "conc" then opConc args
    else if op = "procuci" then opConc args
    else if op = "perftbin" then (match args with | [h, d, _] => opPerft [h, d] | _ => "bad-op")
    else if op = "search" then opSearch args
    else if op = "judge" then opJudge args
    else if op = "deep" then "m.goonly=1"
    else if op = "deepseq" then "m.goonly=1"
    else "bad-op"

partial def loop (hin hout : IO.FS.Stream) : IO Unit := do
  let line ← hin.getLine
  if line.isEmpty then
    hout.flush
    return ()
  hout.putStrLn (dispatch line)
  loop hin hout

def main : IO Unit := do
  let hin ← IO.getStdin
  let hout ← IO.getStdout
  loop hin hout
