import Driver.Util
import Clemens.Model.Search
/- search operations: model run (correspondence) and spec judgement of the Go answers (oracle) -/
namespace Driver
open Clemens

def pvStr (m : Move) : String := bytesToString (moveToString m)

/-- position after `position <pos> moves …`, with the hashes pushed to the search history -/
def setupGame (posArg : String) (moves : List String) : Res (Pos × Array BB) :=
  match parsePos posArg with
  | .ok p0 =>
    moves.foldl (fun (acc : Res (Pos × Array BB)) mv =>
      match acc with
      | .ok (p, hist) =>
        (match makeMoveFromString K p (stringToBytes mv) with
        | .ok q => .ok (q, hist.push q.hash)
        | .error => .error
        | .panic => .panic)
      | r => r) (.ok (p0, #[]))
  | .error => .error
  | .panic => .panic

/-- take `n` items -/
def takeN (l : List String) (n : Nat) : List String × List String := (l.take n, l.drop n)

/-- `search <k> {<pos> <nmoves> <moves…> <depth> <cancelAt|-1>}^k`: k searches, fresh Search each, shared TT -/
partial def runSearches (k : Nat) (args : List String) (tt : TT) (acc : List String) : List String :=
  if k = 0 then acc.reverse else
  match args with
  | posArg :: nm :: rest =>
    let (moves, rest) := takeN rest (nm.toNat?.getD 0)
    match rest with
    | d :: c :: rest =>
      match setupGame posArg moves with
      | .ok (root, hist) =>
        let cancelAt : Option Nat := match c.toInt? with | some i => if i < 0 then none else some i.toNat | none => none
        let st : SState := { tt := tt, path := hist, cancelAt := cancelAt, rootHmc := root.hmc }
        match search K root pvStr (d.toNat?.getD 0) st with
        | (.ok best, st') =>
          let out := s!"best={best % 65536}:{pvStr best}|nodes={st'.nodes}|polls={st'.mainPolls}|" ++ "/".intercalate (st'.log.reverse.map fun l => l.replace " " "_")
          runSearches (k - 1) rest st'.tt (out :: acc)
        | (.cancelled, _) => ("cancelled-escaped" :: acc).reverse
        | (.panic, _) => ("panic" :: acc).reverse
      | _ => ("badgame" :: acc).reverse
    | _ => ("badargs" :: acc).reverse
  | _ => ("badargs" :: acc).reverse

def opSearch (args : List String) : String :=
  match args with
  | k :: rest => "m.out=" ++ ";".intercalate (runSearches (k.toNat?.getD 0) rest {} [])
  | _ => "bad-op"

def findUci (fp : Fide.Pos) (u : String) : Option Fide.Move := (Fide.legalMoves fp).find? fun m => m.uci == u

/-- is the UCI line a legal move sequence from `fp`? -/
def lineLegal (fp : Fide.Pos) : List String → Bool
  | [] => true
  | u :: rest => match findUci fp u with
    | some m => lineLegal (Fide.apply fp m) rest
    | none => false

/-- `judge <pos> <nmoves> <moves…> <bestuci> <pv;pv;…|->`: the spec's verdict on what the engine answered -/
def opJudge (args : List String) : String :=
  match args with
  | posArg :: nm :: rest =>
    let (moves, rest) := takeN rest (nm.toNat?.getD 0)
    match rest with
    | [best, pvs] =>
      match parsePos posArg with
      | .ok p0 =>
        let fp0 := absPos p0
        let fp := moves.foldl (fun (fp : Option Fide.Pos) u => fp.bind fun fp => (findUci fp u).map (Fide.apply fp)) (some fp0)
        match fp with
        | none => "s.game=illegal"
        | some fp =>
          let legal := Fide.legalMoves fp
          let bestLegal := if legal.isEmpty then best == "a1a1" else (findUci fp best).isSome
          let lines := if pvs = "-" then [] else (pvs.splitOn ";").map fun l => (l.splitOn ",").filter (· ≠ "")
          let pvLegal := lines.all (lineLegal fp)
          let bestFirst := match lines.getLast? with
            | some (u :: _) => u == best
            | some [] => legal.isEmpty || true
            | none => true
          let mating := legal.filter fun m => Fide.isCheckmate (Fide.apply fp m)
          let bestMates := match findUci fp best with
            | some m => Fide.isCheckmate (Fide.apply fp m)
            | none => false
          let mateOk := mating.isEmpty || bestMates
          s!"s.bestlegal={boolStr bestLegal} s.pvlegal={boolStr pvLegal} s.bestfirst={boolStr bestFirst} s.mateok={boolStr mateOk} " ++
          s!"s.hasmate={boolStr (!mating.isEmpty)} s.nlegal={legal.length} s.dom={boolStr (Fide.wellFormed fp)}"
      | _ => "s.game=badpos"
    | _ => "bad-op"
  | _ => "bad-op"

end Driver
