import Driver.Util
/- chess-core operations of the line protocol -/
namespace Driver
open Clemens

def fenField (s : String) : String := s.replace " " "_"

/-- is the position in the domain the properties quantify over (a legal chess position)? -/
def dom (p : Pos) : String := " s.dom=" ++ boolStr (Fide.wellFormed (absPos p) && p.ply / 2 + 1 ≤ 128)

def opFen (args : List String) : String :=
  match args with
  | [h] =>
    match parseFen K (unhexBytes h) with
    | .ok p =>
      -- the property speaks about the canonical FEN texts of legal positions (round trip) and, for every other string, only
      -- about totality: outside that domain (`s.dom=0`) only the no-panic assertion of the Go side is judged
      let legal := Fide.wellFormed (absPos p) && WF p && p.ply / 2 + 1 ≤ 128
      let canon := toFen p == some (unhexBytes h)
      s!"m.res=ok m.fen={fenField (fenText p)} m.dump={dumpPos p} m.wf={boolStr (WF p)}" ++
      (if legal && canon then s!" s.fen={fenField (Fide.toFen (absPos p))} s.dom=1" else " s.dom=0")
    | .error => "m.res=error s.dom=0"
    | .panic => "m.res=panic s.dom=0"
  | _ => "bad-op"

def specAttby (p : Pos) : List BB :=
  (List.range 64).map fun t =>
    let fp := absPos p
    (Fide.attackers fp 0 t ++ Fide.attackers fp 1 t).foldl (fun acc s => acc ||| bit s) 0#64

def opGen (args : List String) : String :=
  match args with
  | [h] =>
    match parsePos h with
    | .ok p =>
      let pseudo := genMoves p
      let caps := genCaptures p
      let legal := (engineLegal K p).map (·.1)
      let fp := absPos p
      let specLegal := sortStrings ((Fide.legalMoves fp).map Fide.Move.uci)
      let capsFiltered := pseudo.filter (isCapture p)
      s!"m.pseudo={moveWords pseudo} m.caps={moveWords caps} m.legal={moveWords legal} " ++
      s!"s.legaluci={if specLegal.isEmpty then "-" else ",".intercalate specLegal} " ++
      s!"m.check={boolStr (isInCheck p p.side)} s.check={boolStr (Fide.inCheck fp fp.side)} " ++
      s!"m.wf={boolStr (WF p)} s.wf={boolStr (Fide.wellFormed fp)} " ++
      s!"m.capsfilter={moveWords capsFiltered}" ++ dom p
    | r => s!"m.res={resTag r}"
  | _ => "bad-op"

def opAttby (args : List String) : String :=
  match args with
  | [h] =>
    match parsePos h with
    | .ok p =>
      let m := (List.range 64).map fun s => hex64 (squareAttackedBy p s)
      let s := (specAttby p).map hex64
      s!"m.attby={",".intercalate m} s.attby={",".intercalate s}" ++ dom p
    | r => s!"m.res={resTag r}"
  | _ => "bad-op"

def opMv (args : List String) : String :=
  match args with
  | [h, w] =>
    match parsePos h, w.toNat? with
    | .ok p, some m =>
      match makeMove K p m with
      | some q =>
        let sq := Fide.apply (absPos p) (absMove m)
        s!"m.res=ok m.dump={dumpPos q} m.fen={fenField (fenText q)} s.fen={fenField (Fide.toFen sq)} " ++
        s!"m.legal={boolStr (isLegal q)} s.legal={boolStr (!Fide.inCheck sq (absPos p).side)} m.wf={boolStr (WF q)} " ++
        s!"m.fullhash={hex64 (fullHash K q)} m.str={bytesToString (moveToString m)}" ++ dom p
      | none => "m.res=panic" ++ dom p
    | _, _ => "m.res=badpos"
  | _ => "bad-op"

/-- `play <fenhex|startpos> m1 … mn`: the UCI `position` fold via MakeMoveFromString -/
def opPlay (args : List String) : String :=
  match args with
  | h :: moves =>
    match parsePos h with
    | .ok p0 =>
      let r := moves.foldl (fun (acc : Res (Pos × Fide.Pos × List BB)) (mv : String) =>
        match acc with
        | .ok (p, fp, hist) =>
          let b := stringToBytes mv
          match moveFromString p b with
          | .ok m =>
            match makeMove K p m with
            | some q => .ok (q, Fide.apply fp (absMove m), q.hash :: hist)
            | none => .panic
          | .error => .error
          | .panic => .panic
        | r => r) (.ok (p0, absPos p0, []))
      match r with
      | .ok (p, fp, hist) =>
        -- the spec's counters are unbounded; the engine's are `uint8`: the full FEN is judged inside their range, the board part always
        let inRange := fp.fullmove ≤ 128 && fp.hmc ≤ 255
        let board := "_".intercalate (((Fide.toFen fp).splitOn " ").take 4)
        s!"m.res=ok m.dump={dumpPos p} m.fen={fenField (fenText p)} " ++ (if inRange then s!"s.fen={fenField (Fide.toFen fp)} " else "") ++ s!"s.board={board} " ++
        s!"m.hist={",".intercalate (hist.reverse.map hex64)} m.fullhash={hex64 (fullHash K p)}" ++ dom p0
      | .error => "m.res=error"
      | .panic => "m.res=panic"
    | r => s!"m.res={resTag r}"
  | _ => "bad-op"

def opMvs (args : List String) : String :=
  match args with
  | [h, mvhex] =>
    match parsePos h with
    | .ok p =>
      match moveFromString p (unhexBytes mvhex) with
      | .ok m => (match makeMove K p m with
        | some q => s!"m.res=ok m.word={m} m.dump={dumpPos q}"
        | none => "m.res=panic")
      | .error => "m.res=error"
      | .panic => "m.res=panic"
    | r => s!"m.res=bad{resTag r}"
  | _ => "bad-op"

def opNull (args : List String) : String :=
  match args with
  | [h] =>
    match parsePos h with
    | .ok p =>
      let (q, ep) := makeNull K p
      let back := unmakeNull K q ep
      s!"m.null={dumpPos q} m.nullfull={hex64 (fullHash K q)} m.back={dumpPos back} m.same={boolStr (back == p)}" ++ dom p
    | r => s!"m.res={resTag r}"
  | _ => "bad-op"

def opPerft (args : List String) : String :=
  match args with
  | [h, d] =>
    match parsePos h, d.toNat? with
    | .ok p, some d => s!"m.perft={perft K p d} s.perft={Fide.perft (absPos p) d}" ++ dom p
    | _, _ => "m.res=badpos"
  | _ => "bad-op"

def specSlider (dirs : List Dir) (s : Nat) (occ : BB) : BB :=
  (List.range 64).foldl (fun acc t => if Geo.reach dirs occ s t then acc ||| bit t else acc) 0#64

def specLeaper (f : Nat → Nat → Bool) (s : Nat) : BB :=
  (List.range 64).foldl (fun acc t => if f s t then acc ||| bit t else acc) 0#64

/-- geometric pawn pushes of a pawn of colour c on s -/
def specPushes (c s : Nat) (occ : BB) : BB :=
  let dr : Int := if c = 0 then 1 else -1
  match Geo.offset 0 dr s with
  | some t1 =>
    if occ.has t1 then 0#64 else
      bit t1 ||| (if rankOf s = (if c = 0 then 1 else 6) then
        match Geo.offset 0 (2 * dr) s with
        | some t2 => if occ.has t2 then 0#64 else bit t2
        | none => 0#64 else 0#64)
  | none => 0#64

def opAtt (args : List String) : String :=
  match args with
  | [kind, sq, occh] =>
    match sq.toNat? with
    | some s =>
      let occ := parseBB occh
      let (m, sp) : BB × BB :=
        if kind = "R" then (rookAttacks s occ, specSlider rookDirs s occ)
        else if kind = "B" then (bishopAttacks s occ, specSlider bishopDirs s occ)
        else if kind = "Q" then (queenAttacks s occ, specSlider Dir.all s occ)
        else if kind = "WR" then (rookWalker s occ, specSlider rookDirs s occ)
        else if kind = "WB" then (bishopWalker s occ, specSlider bishopDirs s occ)
        else if kind = "N" then (knightAttacks s, specLeaper Geo.knightStep s)
        else if kind = "K" then (kingAttacks s, specLeaper Geo.kingStep s)
        else if kind = "P0" then (pawnAttacks 0 s, specLeaper (Geo.pawnAttack 0) s)
        else if kind = "P1" then (pawnAttacks 1 s, specLeaper (Geo.pawnAttack 1) s)
        else if kind = "U0" then (pawnPushesBySquare 0 s occ, specPushes 0 s occ)
        else if kind = "U1" then (pawnPushesBySquare 1 s occ, specPushes 1 s occ)
        else (0#64, 0#64)
      s!"m.att={hex64 m} s.att={hex64 sp}"
    | none => "bad-op"
  | _ => "bad-op"

def opMagic (args : List String) : String :=
  match args with
  | [kind, sq] =>
    match sq.toNat? with
    | some s =>
      let (mg, walker) := if kind = "R" then (rookMagic s, rookWalker) else (bishopMagic s, bishopWalker)
      let mask := magicMask walker s
      s!"m.mask={hex64 mask} m.shift={64 - popcount mask} m.size={(allSubsetsOf mask).length} m.dmask={hex64 mg.mask} m.dshift={mg.shift}"
    | none => "bad-op"
  | _ => "bad-op"

end Driver
