import Clemens.Model.WF
/- helpers of the line-protocol driver (not part of the trusted statements) -/
namespace Driver
open Clemens

def hexDigit (n : Nat) : Char := "0123456789abcdef".toList.getD n '?'

def hexByte (b : Nat) : String := String.ofList [hexDigit (b / 16), hexDigit (b % 16)]

def hex64 (b : BB) : String :=
  String.ofList ((List.range 16).map fun i => hexDigit ((b.toNat >>> (4 * (15 - i))) % 16))

def hexNat (n : Nat) : String := String.ofList (Nat.toDigits 16 n)

def unhexChar (c : Char) : Option Nat :=
  if '0' ≤ c && c ≤ '9' then some (c.toNat - 48)
  else if 'a' ≤ c && c ≤ 'f' then some (c.toNat - 87)
  else if 'A' ≤ c && c ≤ 'F' then some (c.toNat - 55)
  else none

def parseHexNat (s : String) : Option Nat :=
  s.toList.foldlM (fun acc c => do let d ← unhexChar c; pure (acc * 16 + d)) 0

/-- hex string → bytes ("-" is the empty string) -/
def unhexBytes (s : String) : Bytes :=
  if s = "-" then [] else
  let rec go : List Char → Bytes
    | a :: b :: rest => ((unhexChar a).getD 0 * 16 + (unhexChar b).getD 0) :: go rest
    | _ => []
  go s.toList

def bytesToHex (b : Bytes) : String := if b.isEmpty then "-" else String.join (b.map hexByte)

def bytesToString (b : Bytes) : String := String.ofList (b.map Char.ofNat)
def stringToBytes (s : String) : Bytes := s.toUTF8.toList.map UInt8.toNat

def parseBB (s : String) : BB := BitVec.ofNat 64 ((parseHexNat s).getD 0)

/-- canonical dump of every field of a position -/
def dumpPos (p : Pos) : String :=
  ",".intercalate ((List.range 12).map fun i => hex64 (vget p.bb i 0#64)) ++ ";" ++
  hex64 p.all ++ "," ++ hex64 p.white ++ "," ++ hex64 p.black ++ ";" ++
  String.ofList ((List.range 64).map fun s => hexDigit (p.at s)) ++ ";" ++
  toString p.side ++ "," ++ toString p.castling ++ "," ++ toString p.ep ++ "," ++ toString p.hmc ++ "," ++
  toString p.ply ++ ";" ++ hex64 p.hash

def resTag {α} : Res α → String
  | .ok _ => "ok" | .error => "error" | .panic => "panic"

def K : Keys := realKeys

def parsePos (fenHex : String) : Res Pos :=
  if fenHex = "startpos" then .ok (startPos K) else parseFen K (unhexBytes fenHex)

def fenText (p : Pos) : String := match toFen p with
  | some b => bytesToString b
  | none => "panic"

def moveWords (ms : List Move) : String := if ms.isEmpty then "-" else ",".intercalate (ms.map toString)

def boolStr (b : Bool) : String := if b then "1" else "0"

/-- insertion sort on strings (small lists) -/
def sortStrings (l : List String) : List String :=
  l.foldl (fun acc s =>
    let (a, b) := acc.span (fun x => x < s || x == s)
    a ++ s :: b) []

end Driver
