import Clemens.Model.Bits
import Clemens.Model.Sliding
import Clemens.Spec.Geo
import Clemens.Model.Pos
import Clemens.Model.Fen
import Clemens.Spec.Fide
import Clemens.Model.WF
