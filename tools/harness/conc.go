package main

// Concurrent UCI dialogues driven in-process through the real line handler: commands are sent
// back to back (no waiting) or with tiny random delays, stop/isready at any time, position/go only
// after the previous bestmove was seen (the dialogue rule of C06).

import (
	"bufio"
	"fmt"
	"os"
	"regexp"
	"strconv"
	"strings"
	"sync/atomic"
	"time"

	"github.com/shaardie/clemens/pkg/uci"
)

func execConc(args []string) string {
	old := os.Stdout
	r, w, _ := os.Pipe()
	os.Stdout = w
	var best, ready, interleaved, illegal int64
	legalP := legalUciSet("position startpos moves e2e4 e7e5")
	legalQ := legalUciSet("position fen r3k2r/p1ppqpb1/bn2pnp1/3PN3/1p2P3/2N2Q1p/PPPBBPPP/R3K2R w KQkq - 0 1")
	legalE := legalUciSet("position fen 8/8/8/4k3/8/8/4P3/4K3 w - - 0 1")
	var curLegal atomic.Value
	curLegal.Store(map[string]bool(nil))
	readerDone := make(chan struct{})
	go func() {
		defer close(readerDone)
		sc := bufio.NewScanner(r)
		sc.Buffer(make([]byte, 1<<20), 1<<20)
		for sc.Scan() {
			l := sc.Text()
			switch {
			case strings.HasPrefix(l, "bestmove "):
				if f := strings.Fields(l); !bestmoveLine(l) {
					atomic.AddInt64(&interleaved, 1)
				} else if set, _ := curLegal.Load().(map[string]bool); set != nil && !set[f[1]] {
					atomic.AddInt64(&illegal, 1)
				}
				atomic.AddInt64(&best, 1)
			case l == "readyok":
				atomic.AddInt64(&ready, 1)
			case wholeLine(l):
			default:
				atomic.AddInt64(&interleaved, 1) // a line that is not a whole UCI line: output got interleaved
			}
		}
	}()
	uci.VerifNewGame()
	live := true
	prompt := true
	send := func(line string) bool {
		done := make(chan struct{})
		go func() {
			defer func() { recover(); close(done) }()
			uci.VerifHandleInput(line)
		}()
		select {
		case <-done:
			return true
		case <-time.After(4 * time.Second):
			return false // the reader would be stuck here: deadlock
		}
	}
	gos, readys := 0, 0
	var stopAt time.Time
	for _, t := range args {
		if !live {
			break
		}
		switch {
		case t == "P":
			curLegal.Store(legalP)
			live = send("position startpos moves e2e4 e7e5")
		case t == "Q":
			curLegal.Store(legalQ)
			live = send("position fen r3k2r/p1ppqpb1/bn2pnp1/3PN3/1p2P3/2N2Q1p/PPPBBPPP/R3K2R w KQkq - 0 1")
		case t == "Gi":
			gos++
			live = send("go infinite")
		case t == "Gg":
			gos++
			live = send("go")
		case t == "Gd":
			gos++
			live = send("go depth 2")
		case t == "Ge":
			gos++
			curLegal.Store(legalE)
			live = send("position fen 8/8/8/4k3/8/8/4P3/4K3 w - - 0 1") && send("go depth 14")
		case strings.HasPrefix(t, "RR"):
			// a burst of isready while the search prints its info lines
			k, _ := strconv.Atoi(t[2:])
			for i := 0; i < k && live; i++ {
				readys++
				live = send("isready")
			}
		case t == "Gm":
			gos++
			live = send("go movetime 20000")
		case t == "Gt":
			gos++
			live = send("go wtime 3000000 btime 3000000")
		case t == "S":
			stopAt = time.Now()
			live = send("stop")
		case t == "R":
			readys++
			live = send("isready")
		case strings.HasPrefix(t, "W"):
			k, _ := strconv.Atoi(t[1:])
			time.Sleep(time.Duration(k) * 100 * time.Microsecond)
		case t == "B":
			// the GUI waits for the answer to the outstanding go
			deadline := time.Now().Add(3 * time.Second)
			for atomic.LoadInt64(&best) < int64(gos) {
				if time.Now().After(deadline) {
					live = false
					break
				}
				time.Sleep(100 * time.Microsecond)
			}
			if live && !stopAt.IsZero() && time.Since(stopAt) > 1500*time.Millisecond {
				prompt = false
			}
			stopAt = time.Time{}
		}
	}
	time.Sleep(3 * time.Millisecond)
	// all isready must have been answered
	deadline := time.Now().Add(2 * time.Second)
	for live && atomic.LoadInt64(&ready) < int64(readys) {
		if time.Now().After(deadline) {
			live = false
		}
		time.Sleep(200 * time.Microsecond)
	}
	os.Stdout = old
	w.Close()
	<-readerDone
	r.Close()
	if !live {
		uci.VerifNewGame() // leave the stuck game object behind
		send("stop")
	}
	return fmt.Sprintf("out=b%d,r%d p.live=%s p.prompt=%s p.whole=%s p.bestlegal=%s", atomic.LoadInt64(&best), atomic.LoadInt64(&ready), b2s(live), b2s(prompt), b2s(atomic.LoadInt64(&interleaved) == 0), b2s(atomic.LoadInt64(&illegal) == 0))
}

func concOps(o *Out, seed uint64, n int) {
	rng := NewRng(seed)
	for i := 0; i < n; i++ {
		var toks []string
		noise := func() {
			for rng.Intn(3) == 0 {
				switch rng.Intn(4) {
				case 0:
					toks = append(toks, "S")
				case 1:
					toks = append(toks, "R")
				default:
					toks = append(toks, fmt.Sprintf("W%d", rng.Intn(20)))
				}
			}
		}
		rounds := 1 + rng.Intn(3)
		if i%6 == 5 {
			// output atomicity: many isready while a deepening search with long PVs is printing
			toks = append(toks, "Ge", fmt.Sprintf("RR%d", 200+rng.Intn(400)), "S", "B")
			rounds = 0
		}
		for j := 0; j < rounds; j++ {
			noise()
			toks = append(toks, []string{"P", "Q"}[rng.Intn(2)])
			noise()
			switch rng.Intn(6) {
			case 0:
				toks = append(toks, "Gd")
				noise()
			case 1:
				toks = append(toks, "Gm")
				noise()
				toks = append(toks, "S")
			case 2:
				toks = append(toks, "Gt")
				noise()
				toks = append(toks, "S")
			case 3:
				toks = append(toks, "Gg")
				noise()
				toks = append(toks, "S")
			default:
				toks = append(toks, "Gi")
				// back-to-back stop in most cases, sometimes after a short wait or an isready
				if rng.Intn(3) == 0 {
					noise()
				}
				toks = append(toks, "S")
			}
			if rng.Intn(4) == 0 {
				toks = append(toks, "S") // a second, late stop
			}
			toks = append(toks, "B")
			if rng.Intn(3) == 0 {
				toks = append(toks, "S", "R") // stop while idle, then isready
			}
		}
		o.Run("conc " + strings.Join(toks, " "))
		o.Stat("conc_dialogues")
	}
}

var infoLineRe = regexp.MustCompile(`^info depth \d+ score cp -?\d+ time \d+ nodes \d+ nps -?\d+ hashfull \d+ pv( [a-h][1-8][a-h][1-8][nbrq]?)* ?$`)

var bestmoveRe = regexp.MustCompile(`^bestmove [a-h][1-8][a-h][1-8][nbrq]?( ponder [a-h][1-8][a-h][1-8][nbrq]?)? ?$`)

// bestmoveLine: one whole `bestmove <move> [ponder <move>]` line (the ponder suffix is optional in UCI)
func bestmoveLine(l string) bool { return bestmoveRe.MatchString(l) }

// wholeLine: is l one complete output line of the engine (nothing glued to it)?
func wholeLine(l string) bool {
	switch {
	case l == "" || l == "uciok":
		return true
	case strings.HasPrefix(l, "id name ") || strings.HasPrefix(l, "id author "):
		return true
	case strings.HasPrefix(l, "info depth "):
		return infoLineRe.MatchString(l)
	case strings.HasPrefix(l, "info string "):
		return !strings.Contains(l, "readyok") && !strings.Contains(l, "bestmove") && !strings.Contains(l[5:], "info ")
	}
	return false
}
