module harness

go 1.22.0

require github.com/shaardie/clemens v0.0.0

require (
	github.com/davecgh/go-spew v1.1.1 // indirect
	github.com/pmezard/go-difflib v1.0.0 // indirect
	github.com/stretchr/testify v1.8.4 // indirect
	gopkg.in/yaml.v3 v3.0.1 // indirect
)

replace github.com/shaardie/clemens => /repo
