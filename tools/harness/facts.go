package main

// Source-shape facts (tie T2) for the UCI concurrency model: the protocol model in
// lean/Clemens/Model/UciConc.lean is parametrised by the order of events in the handlers;
// these facts are extracted from the source text with go/ast on every run.

import (
	"bytes"
	"fmt"
	"go/ast"
	"go/parser"
	"go/printer"
	"go/token"
	"os"
	"path/filepath"
	"strings"
)

func repoRoot() string {
	if r := os.Getenv("VERIF_REPO"); r != "" {
		return r
	}
	return "/repo"
}

func parseFile(fset *token.FileSet, rel string) *ast.File {
	f, err := parser.ParseFile(fset, filepath.Join(repoRoot(), rel), nil, 0)
	if err != nil {
		return nil
	}
	return f
}

func nodeStr(fset *token.FileSet, n ast.Node) string {
	var buf bytes.Buffer
	printer.Fprint(&buf, fset, n)
	return strings.Join(strings.Fields(buf.String()), " ")
}

func findFunc(f *ast.File, name string) *ast.FuncDecl {
	if f == nil {
		return nil
	}
	for _, d := range f.Decls {
		if fd, ok := d.(*ast.FuncDecl); ok && fd.Name.Name == name && fd.Body != nil {
			return fd
		}
	}
	return nil
}

func stmts(fset *token.FileSet, fd *ast.FuncDecl) []string {
	if fd == nil {
		return nil
	}
	var out []string
	for _, s := range fd.Body.List {
		out = append(out, nodeStr(fset, s))
	}
	return out
}

func indexOf(ss []string, pred func(string) bool) int {
	for i, s := range ss {
		if pred(s) {
			return i
		}
	}
	return -1
}

func uciFacts() ([]string, []bool, string) {
	fset := token.NewFileSet()
	input := parseFile(fset, "pkg/uci/input.go")
	gm := parseFile(fset, "pkg/uci/game/game.go")
	sr := parseFile(fset, "pkg/search/search.go")
	var names []string
	var vals []bool
	var src strings.Builder
	add := func(n string, v bool) { names = append(names, n); vals = append(vals, v) }

	// 1. `go` is handled synchronously by the reader
	goSync := false
	if hi := findFunc(input, "handleInput"); hi != nil {
		ast.Inspect(hi, func(n ast.Node) bool {
			cc, ok := n.(*ast.CaseClause)
			if !ok || len(cc.List) != 1 {
				return true
			}
			if nodeStr(fset, cc.List[0]) == `"go"` {
				goSync = len(cc.Body) == 1 && nodeStr(fset, cc.Body[0]) == "g.StartSearch(tokens)"
			}
			return true
		})
		src.WriteString(nodeStr(fset, hi) + "\n")
	}
	add("goHandledSynchronously", goSync)

	lockOK := func(ss []string) bool {
		return len(ss) >= 2 && ss[0] == "g.isWorking.Lock()" && ss[1] == "defer g.isWorking.Unlock()"
	}
	start := findFunc(gm, "StartSearch")
	ss := stmts(fset, start)
	add("startSearchHoldsLock", lockOK(ss))
	add("startSearchGuard", len(ss) > 2 && strings.HasPrefix(ss[2], "if g.state.Get() != state.POSITION_SET || g.search == nil {") && strings.HasSuffix(ss[2], "return }"))
	iRun := indexOf(ss, func(s string) bool { return s == "g.state.Set(state.RUNNING)" })
	iGo := indexOf(ss, func(s string) bool { return strings.HasPrefix(s, "go func()") })
	iCancel := indexOf(ss, func(s string) bool { return s == "g.searchCancel = cancel" })
	iCtx := indexOf(ss, func(s string) bool { return s == "ctx, cancel := context.WithCancel(context.Background())" })
	add("runningSetBeforeSpawn", iRun >= 0 && iGo >= 0 && iRun < iGo)
	add("cancelStoredBeforeSpawn", iCtx >= 0 && iCancel > iCtx && iGo > iCancel)
	// inside the goroutine
	idleBeforePrint, deferCancel, searchUsesCtx := false, false, false
	if start != nil && iGo >= 0 {
		if gs, ok := start.Body.List[iGo].(*ast.GoStmt); ok {
			if fl, ok := gs.Call.Fun.(*ast.FuncLit); ok {
				var bs []string
				for _, s := range fl.Body.List {
					bs = append(bs, nodeStr(fset, s))
				}
				iIdle := indexOf(bs, func(s string) bool { return s == "g.state.Set(state.IDLE)" })
				iPrint := indexOf(bs, func(s string) bool { return strings.Contains(s, `"bestmove %v\n"`) })
				iSearch := indexOf(bs, func(s string) bool { return strings.Contains(s, "g.search.Search(ctx, gp)") })
				idleBeforePrint = iIdle >= 0 && iPrint >= 0 && iIdle < iPrint && iSearch >= 0 && iSearch < iIdle
				deferCancel = len(bs) > 0 && bs[0] == "defer cancel()"
				searchUsesCtx = iSearch >= 0
				// nothing else touches the flag
				for i, s := range bs {
					if i != iIdle && strings.Contains(s, "g.state.Set") {
						idleBeforePrint = false
					}
				}
			}
		}
	}
	add("idleSetBeforeBestmovePrinted", idleBeforePrint)
	add("goroutineDefersCancel", deferCancel)
	add("searchGetsCancellableCtx", searchUsesCtx)
	nSet := 0
	for _, s := range ss {
		if strings.Contains(s, "g.state.Set") && !strings.HasPrefix(s, "go func()") {
			nSet++
		}
	}
	add("startSearchSetsFlagOnce", nSet == 1)
	src.WriteString(nodeStr(fset, start) + "\n")

	stop := findFunc(gm, "StopSearch")
	ts := stmts(fset, stop)
	add("stopSearchExact", len(ts) == 4 && lockOK(ts) && ts[2] == "if g.state.Get() != state.RUNNING { return }" && ts[3] == "g.searchCancel()")
	src.WriteString(nodeStr(fset, stop) + "\n")

	ready := findFunc(gm, "IsReady")
	rs := stmts(fset, ready)
	add("isReadyExact", len(rs) == 3 && lockOK(rs) && rs[2] == `fmt.Println("readyok")`)

	np := findFunc(gm, "NewPosition")
	ns := stmts(fset, np)
	add("newPositionHoldsLock", lockOK(ns))
	add("newPositionGuard", len(ns) > 2 && strings.HasPrefix(ns[2], "if g.state.Get() == state.RUNNING {") && strings.HasSuffix(ns[2], "return }"))
	okSets := true
	if np != nil {
		ast.Inspect(np, func(n ast.Node) bool {
			if ce, ok := n.(*ast.CallExpr); ok {
				s := nodeStr(fset, ce)
				if strings.HasPrefix(s, "g.state.Set(") && s != "g.state.Set(state.POSITION_SET)" {
					okSets = false
				}
			}
			return true
		})
	}
	add("newPositionOnlySetsPositionSet", okSets)

	// search side: the context polled by the search is the caller's (or a child of it)
	cf := findFunc(sr, "contextFromSearchParameter")
	cs := stmts(fset, cf)
	add("infinitePassesCtxThrough", indexOf(cs, func(s string) bool {
		return s == "if sp.Infinite { return ctx, func() { } }" || s == "if sp.Infinite { return ctx, func() {} }"
	}) >= 0)
	add("timeoutIsChildOfCallerCtx", indexOf(cs, func(s string) bool {
		return s == "return context.WithTimeout(ctx, time.Duration(movetime)*time.Millisecond)"
	}) >= 0)
	sf := findFunc(sr, "Search")
	fs := stmts(fset, sf)
	add("searchInstallsDerivedCtx", indexOf(fs, func(s string) bool { return s == "ctx, cancel := s.contextFromSearchParameter(ctx, sp)" }) >= 0 &&
		indexOf(fs, func(s string) bool { return s == "s.ctx = ctx" }) >= 0)
	src.WriteString(nodeStr(fset, cf) + "\n")
	return names, vals, src.String()
}

func dumpFacts(dir string) {
	names, vals, _ := uciFacts()
	var sb strings.Builder
	sb.WriteString("-- GENERATED by tools/harness (go/ast facts about pkg/uci and pkg/search). Do not edit.\nnamespace Clemens.Gen\n\n")
	sb.WriteString("/-- order-of-events and lock-discipline facts read off the source text -/\ndef uciFacts : List (String × Bool) := [\n")
	for i, n := range names {
		sep := ","
		if i == len(names)-1 {
			sep = ""
		}
		fmt.Fprintf(&sb, "  (%q, %v)%s\n", n, vals[i], sep)
	}
	sb.WriteString("]\n\nend Clemens.Gen\n")
	writeIfChanged(filepath.Join(dir, "UciFacts.lean"), sb.String())
}
