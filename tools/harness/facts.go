package main

// Source-shape facts (tie T2) for the UCI concurrency model: the protocol model in
// lean/Clemens/Model/UciConc.lean is parametrised by the order of events in the handlers;
// these facts are extracted from the source text with go/ast on every run.
//
// The extraction is by a small abstract interpretation, not by comparing statement texts: every handler is turned
// into its sequence of protocol events (lock, deferred unlock, guard with the truth table of its condition over the
// abstract state, flag writes, context creation, storing the cancel function, spawning the search goroutine, the
// search call, the bestmove / readyok prints, cancel calls).  Calls of functions and methods of the same package are
// inlined, a guard written as `if c { …; return }` or as a trailing `if !c { rest }` is the same guard, locals and
// parameter names do not matter.  A statement that touches the protocol state in a way the interpreter does not
// understand makes the facts of that handler false (the proof obligation then fails and the check searches for a
// failing dialogue).

import (
	"bytes"
	"fmt"
	"go/ast"
	"go/parser"
	"go/printer"
	"go/token"
	"os"
	"path/filepath"
	"sort"
	"strconv"
	"strings"
)

func repoRoot() string {
	if r := os.Getenv("VERIF_REPO"); r != "" {
		return r
	}
	return "/repo"
}

func nodeStr(fset *token.FileSet, n ast.Node) string {
	var buf bytes.Buffer
	printer.Fprint(&buf, fset, n)
	return strings.Join(strings.Fields(buf.String()), " ")
}

// pkgSrc: all non-test, non-hook files of one package directory
type pkgSrc struct {
	fset  *token.FileSet
	funcs map[string]*ast.FuncDecl // by name (methods by their bare name: the packages looked at have no clashes that matter)
}

func loadPkg(fset *token.FileSet, rel string) *pkgSrc {
	p := &pkgSrc{fset: fset, funcs: map[string]*ast.FuncDecl{}}
	files, _ := filepath.Glob(filepath.Join(repoRoot(), rel, "*.go"))
	sort.Strings(files)
	for _, f := range files {
		if strings.HasSuffix(f, "_test.go") || strings.HasSuffix(f, "_verif.go") {
			continue
		}
		af, err := parser.ParseFile(fset, f, nil, 0)
		if err != nil {
			continue
		}
		for _, d := range af.Decls {
			if fd, ok := d.(*ast.FuncDecl); ok && fd.Body != nil {
				p.funcs[fd.Name.Name] = fd
			}
		}
	}
	return p
}

// stateNames: the constants of pkg/uci/state (the abstract values of the flag)
func stateNames(fset *token.FileSet) []string {
	var names []string
	files, _ := filepath.Glob(filepath.Join(repoRoot(), "pkg/uci/state", "*.go"))
	for _, f := range files {
		if strings.HasSuffix(f, "_test.go") {
			continue
		}
		af, err := parser.ParseFile(fset, f, nil, 0)
		if err != nil {
			continue
		}
		for _, d := range af.Decls {
			gd, ok := d.(*ast.GenDecl)
			if !ok || gd.Tok != token.CONST {
				continue
			}
			for _, sp := range gd.Specs {
				for _, n := range sp.(*ast.ValueSpec).Names {
					if n.Name != "_" {
						names = append(names, n.Name)
					}
				}
			}
		}
	}
	return names
}

// ---- events -------------------------------------------------------------------------------------------------------

type ev struct {
	kind string // lock deferUnlock unlock guard set mkctx storeCancel spawn search printBest printReady callCancel deferCancel call nested other ret
	arg  string // set: the constant; guard: truth table; call: callee; other: text
	sub  []ev   // spawn / nested
}

func (e ev) String() string {
	s := e.kind
	if e.arg != "" {
		s += "(" + e.arg + ")"
	}
	if len(e.sub) > 0 {
		var parts []string
		for _, x := range e.sub {
			parts = append(parts, x.String())
		}
		s += "{" + strings.Join(parts, " ") + "}"
	}
	return s
}

type interp struct {
	p          *pkgSrc
	states     []string
	cancels    map[string]bool // names bound to a cancel function
	ctxs       map[string]bool // names bound to the cancellable context
	locals     map[string]ast.Expr
	depth      int
	searchObjs map[string]bool // locals aliasing the game's search object
	bestLines  map[string]bool // locals holding a ready-made bestmove line
}

func (in *interp) str(n ast.Node) string { return nodeStr(in.p.fset, n) }

var relevantAtoms = []string{".state.Set(", ".isWorking.", "searchCancel", ".Search(", "context.With", "StartSearch(", "StopSearch(", "NewPosition(", "IsReady("}

func (in *interp) relevantText(s string) bool {
	for _, a := range relevantAtoms {
		if strings.Contains(s, a) {
			return true
		}
	}
	for c := range in.cancels {
		if strings.Contains(s, c+"(") {
			return true
		}
	}
	return false
}

// callee of a call when it is a function or method of the same package
func (in *interp) localCallee(c *ast.CallExpr) *ast.FuncDecl {
	switch f := c.Fun.(type) {
	case *ast.Ident:
		return in.p.funcs[f.Name]
	case *ast.SelectorExpr:
		if id, ok := f.X.(*ast.Ident); ok && (id.Name == "g" || id.Name == "s") {
			// a method on the receiver; fields holding function values (g.searchCancel) are not declared functions
			return in.p.funcs[f.Sel.Name]
		}
	}
	return nil
}

// inline walks a same-package callee with the cancel / context names carried over to its parameters
func (in *interp) inline(c *ast.CallExpr, fd *ast.FuncDecl) []ev {
	if in.depth > 4 {
		return []ev{{kind: "other", arg: "inlining too deep: " + in.str(c)}}
	}
	saveC, saveX, saveL := in.cancels, in.ctxs, in.locals
	nc, nx := map[string]bool{}, map[string]bool{}
	for k := range saveC {
		if strings.Contains(k, ".") {
			nc[k] = true
		}
	}
	i := 0
	for _, fl := range fd.Type.Params.List {
		for _, n := range fl.Names {
			if i < len(c.Args) {
				a := in.str(c.Args[i])
				if saveC[a] {
					nc[n.Name] = true
				}
				if saveX[a] {
					nx[n.Name] = true
				}
			}
			i++
		}
	}
	in.cancels, in.ctxs, in.locals = nc, nx, map[string]ast.Expr{}
	in.depth++
	evs := in.walk(fd.Body.List, true)
	in.depth--
	in.cancels, in.ctxs, in.locals = saveC, saveX, saveL
	return evs
}

// hasRelevant: does the sequence touch the protocol state?  Prints, returns and guards on something else than the protocol state
// (argument checks such as `len(tokens) == 0`, error checks) do not.
func hasRelevant(evs []ev) bool {
	for _, e := range evs {
		switch e.kind {
		case "print", "ret":
		case "guard":
			if !strings.HasPrefix(e.arg, "?") {
				return true
			}
		case "nested":
			if hasRelevant(e.sub) {
				return true
			}
		default:
			return true
		}
	}
	return false
}

func endsWithReturn(evs []ev) bool { return len(evs) > 0 && evs[len(evs)-1].kind == "ret" }

// callEvents: the events of one call expression used as a statement (or on the right of an assignment)
func (in *interp) callEvents(c *ast.CallExpr) ([]ev, bool) {
	s := in.str(c)
	fun := in.str(c.Fun)
	switch {
	case strings.HasSuffix(fun, ".isWorking.Lock"):
		return []ev{{kind: "lock"}}, true
	case strings.HasSuffix(fun, ".isWorking.Unlock"):
		return []ev{{kind: "unlock"}}, true
	case strings.HasSuffix(fun, ".state.Set") && len(c.Args) == 1:
		return []ev{{kind: "set", arg: strings.TrimPrefix(in.str(c.Args[0]), "state.")}}, true
	case in.cancels[fun]:
		return []ev{{kind: "callCancel"}}, true
	case fun == "fmt.Printf" || fun == "fmt.Println" || fun == "fmt.Print":
		if len(c.Args) > 0 {
			a := in.str(c.Args[0])
			if strings.HasPrefix(a, "\"bestmove") {
				return []ev{{kind: "printBest"}}, true
			}
			if a == "\"readyok\"" || a == "\"readyok\\n\"" {
				return []ev{{kind: "printReady"}}, true
			}
			if in.bestLines[a] {
				return []ev{{kind: "printBest"}}, true
			}
		}
		return []ev{{kind: "print"}}, true
	case strings.HasSuffix(fun, ".Search") && (strings.Contains(fun, "search") || in.searchObjs[strings.TrimSuffix(fun, ".Search")]):
		ok := len(c.Args) > 0 && in.ctxs[in.str(c.Args[0])]
		arg := "ctx"
		if !ok {
			arg = "otherctx"
		}
		return []ev{{kind: "search", arg: arg}}, true
	}
	if fd := in.localCallee(c); fd != nil {
		sub := in.inline(c, fd)
		if hasRelevant(sub) {
			// drop the callee's own trailing return
			var out []ev
			for _, e := range sub {
				if e.kind != "ret" {
					out = append(out, e)
				}
			}
			return out, true
		}
		return nil, true
	}
	if in.relevantText(s) {
		return []ev{{kind: "other", arg: s}}, true
	}
	return nil, false
}

func (in *interp) walk(list []ast.Stmt, top bool) []ev {
	var out []ev
	for idx, st := range list {
		last := idx == len(list)-1
		switch x := st.(type) {
		case *ast.ExprStmt:
			if c, ok := x.X.(*ast.CallExpr); ok {
				evs, _ := in.callEvents(c)
				out = append(out, evs...)
				continue
			}
			if in.relevantText(in.str(x)) {
				out = append(out, ev{kind: "other", arg: in.str(x)})
			}
		case *ast.DeferStmt:
			fun := in.str(x.Call.Fun)
			switch {
			case strings.HasSuffix(fun, ".isWorking.Unlock"):
				out = append(out, ev{kind: "deferUnlock"})
			case in.cancels[fun]:
				out = append(out, ev{kind: "deferCancel"})
			default:
				if in.relevantText(in.str(x)) {
					out = append(out, ev{kind: "other", arg: in.str(x)})
				}
			}
		case *ast.AssignStmt:
			handled := false
			if len(x.Rhs) == 1 {
				if c, ok := x.Rhs[0].(*ast.CallExpr); ok {
					fun := in.str(c.Fun)
					if fun == "context.WithCancel" && len(x.Lhs) == 2 {
						in.ctxs[in.str(x.Lhs[0])] = true
						in.cancels[in.str(x.Lhs[1])] = true
						out = append(out, ev{kind: "mkctx", arg: in.str(c.Args[0])})
						handled = true
					} else {
						evs, known := in.callEvents(c)
						if known {
							out = append(out, evs...)
							handled = true
						}
					}
				}
				if len(x.Lhs) == 1 {
					// a local that holds the ready-made bestmove line (built by Sprintf or by a helper that does)
					r := in.str(x.Rhs[0])
					if c, ok := x.Rhs[0].(*ast.CallExpr); ok {
						if fd := in.localCallee(c); fd != nil {
							r = in.str(fd.Body)
						}
					}
					if strings.Contains(r, "\"bestmove") {
						in.bestLines[in.str(x.Lhs[0])] = true
					}
					if strings.HasSuffix(in.str(x.Rhs[0]), ".search") {
						in.searchObjs[in.str(x.Lhs[0])] = true
						handled = true
					}
				}
				if !handled && len(x.Lhs) == 1 {
					l, r := in.str(x.Lhs[0]), in.str(x.Rhs[0])
					if strings.HasSuffix(l, ".searchCancel") {
						if in.cancels[r] {
							out = append(out, ev{kind: "storeCancel"})
						} else {
							out = append(out, ev{kind: "other", arg: in.str(x)})
						}
						handled = true
					} else if in.cancels[r] || in.ctxs[r] {
						// an alias of the cancel function / the context
						if in.cancels[r] {
							in.cancels[l] = true
						} else {
							in.ctxs[l] = true
						}
						handled = true
					} else if id, ok := x.Lhs[0].(*ast.Ident); ok {
						in.locals[id.Name] = x.Rhs[0]
					}
				}
			}
			if !handled && in.relevantText(in.str(x)) {
				out = append(out, ev{kind: "other", arg: in.str(x)})
			}
		case *ast.ReturnStmt:
			if in.relevantText(in.str(x)) {
				out = append(out, ev{kind: "other", arg: in.str(x)})
			}
			out = append(out, ev{kind: "ret"})
		case *ast.GoStmt:
			var sub []ev
			if fl, ok := x.Call.Fun.(*ast.FuncLit); ok {
				saveL := in.locals
				in.locals = map[string]ast.Expr{}
				sub = in.walk(fl.Body.List, true)
				in.locals = saveL
			} else if fd := in.localCallee(x.Call); fd != nil {
				sub = in.inline(x.Call, fd)
			} else {
				sub = []ev{{kind: "other", arg: in.str(x)}}
			}
			out = append(out, ev{kind: "spawn", sub: sub})
		case *ast.IfStmt:
			if x.Init != nil && in.relevantText(in.str(x.Init)) {
				out = append(out, ev{kind: "other", arg: in.str(x.Init)})
			}
			body := in.walk(x.Body.List, false)
			var els []ev
			if x.Else != nil {
				if eb, ok := x.Else.(*ast.BlockStmt); ok {
					els = in.walk(eb.List, false)
				} else {
					els = in.walk([]ast.Stmt{x.Else}, false)
				}
			}
			condRelevant := in.condTouchesState(x.Cond)
			switch {
			case x.Else == nil && endsWithReturn(body) && !hasRelevant(body):
				// `if c { print…; return }`
				if condRelevant || top {
					out = append(out, ev{kind: "guard", arg: in.truthTable(x.Cond, false)})
				}
			case x.Else == nil && top && last && hasRelevant(body) && !endsWithReturn(body):
				// trailing `if c { rest }` is `if !c { return }; rest`
				out = append(out, ev{kind: "guard", arg: in.truthTable(x.Cond, true)})
				out = append(out, body...)
			case !hasRelevant(body) && !hasRelevant(els):
				// prints only
			default:
				out = append(out, ev{kind: "nested", arg: in.str(x.Cond), sub: append(body, els...)})
			}
		case *ast.BlockStmt:
			out = append(out, in.walk(x.List, top)...)
		case *ast.SwitchStmt, *ast.TypeSwitchStmt, *ast.ForStmt, *ast.RangeStmt, *ast.SelectStmt:
			if sw, ok := st.(*ast.SwitchStmt); ok {
				if tt, ok := in.switchGuard(sw); ok {
					if tt != "" {
						out = append(out, ev{kind: "guard", arg: tt})
					}
					continue
				}
			}
			var sub []ev
			ast.Inspect(x, func(n ast.Node) bool {
				if cc, ok := n.(*ast.CaseClause); ok {
					sub = append(sub, in.walk(cc.Body, false)...)
					return false
				}
				if cc, ok := n.(*ast.CommClause); ok {
					sub = append(sub, in.walk(cc.Body, false)...)
					return false
				}
				if b, ok := n.(*ast.BlockStmt); ok && n != ast.Node(x) {
					if _, isSw := st.(*ast.SwitchStmt); !isSw {
						sub = append(sub, in.walk(b.List, false)...)
						return false
					}
				}
				return true
			})
			if hasRelevant(sub) {
				var keep []ev
				for _, e := range sub {
					if e.kind != "ret" && e.kind != "print" {
						keep = append(keep, e)
					}
				}
				out = append(out, ev{kind: "nested", sub: keep})
			}
		default:
			if in.relevantText(in.str(st)) {
				out = append(out, ev{kind: "other", arg: in.str(st)})
			}
		}
	}
	return out
}

// ---- guard conditions: truth table over (flag value, g.search == nil) ------------------------------------------------

type absEnv struct {
	state     string
	searchNil bool
}

type val struct {
	kind string // state nil ptr bool
	s    string
	b    bool
}

func (in *interp) condTouchesState(e ast.Expr) bool {
	s := in.str(e)
	if strings.Contains(s, ".state.Get()") || strings.Contains(s, ".search") {
		return true
	}
	touch := false
	ast.Inspect(e, func(n ast.Node) bool {
		if c, ok := n.(*ast.CallExpr); ok {
			if fd := in.localCallee(c); fd != nil && strings.Contains(in.str(fd.Body), ".state.Get()") {
				touch = true
			}
		}
		if id, ok := n.(*ast.Ident); ok {
			if le, ok := in.locals[id.Name]; ok && strings.Contains(in.str(le), ".state.Get()") {
				touch = true
			}
		}
		return true
	})
	return touch
}

func (in *interp) evalVal(e ast.Expr, env absEnv, locals map[string]ast.Expr, depth int) (val, bool) {
	if depth > 8 {
		return val{}, false
	}
	switch x := e.(type) {
	case *ast.ParenExpr:
		return in.evalVal(x.X, env, locals, depth)
	case *ast.Ident:
		switch x.Name {
		case "nil":
			return val{kind: "nil"}, true
		case "true":
			return val{kind: "bool", b: true}, true
		case "false":
			return val{kind: "bool", b: false}, true
		}
		if le, ok := locals[x.Name]; ok {
			return in.evalVal(le, env, locals, depth+1)
		}
		for _, s := range in.states {
			if s == x.Name {
				return val{kind: "state", s: s}, true
			}
		}
		return val{}, false
	case *ast.SelectorExpr:
		s := in.str(x)
		if strings.HasPrefix(s, "state.") {
			return val{kind: "state", s: x.Sel.Name}, true
		}
		if strings.HasSuffix(s, ".search") {
			if env.searchNil {
				return val{kind: "nil"}, true
			}
			return val{kind: "ptr"}, true
		}
		return val{}, false
	case *ast.CallExpr:
		s := in.str(x.Fun)
		if strings.HasSuffix(s, ".state.Get") {
			return val{kind: "state", s: env.state}, true
		}
		if fd := in.localCallee(x); fd != nil && len(x.Args) == 0 {
			return in.evalFunc(fd.Body.List, env, map[string]ast.Expr{}, depth+1)
		}
		return val{}, false
	case *ast.UnaryExpr:
		if x.Op == token.NOT {
			v, ok := in.evalVal(x.X, env, locals, depth)
			if !ok || v.kind != "bool" {
				return val{}, false
			}
			return val{kind: "bool", b: !v.b}, true
		}
	case *ast.BinaryExpr:
		a, ok1 := in.evalVal(x.X, env, locals, depth)
		if !ok1 {
			return val{}, false
		}
		switch x.Op {
		case token.LAND:
			if a.kind != "bool" {
				return val{}, false
			}
			if !a.b {
				return a, true
			}
			return in.evalVal(x.Y, env, locals, depth)
		case token.LOR:
			if a.kind != "bool" {
				return val{}, false
			}
			if a.b {
				return a, true
			}
			return in.evalVal(x.Y, env, locals, depth)
		case token.EQL, token.NEQ:
			b, ok2 := in.evalVal(x.Y, env, locals, depth)
			if !ok2 {
				return val{}, false
			}
			eq := false
			switch {
			case a.kind == "state" && b.kind == "state":
				eq = a.s == b.s
			case (a.kind == "nil" || a.kind == "ptr") && (b.kind == "nil" || b.kind == "ptr"):
				eq = a.kind == b.kind
			case a.kind == "bool" && b.kind == "bool":
				eq = a.b == b.b
			default:
				return val{}, false
			}
			if x.Op == token.NEQ {
				eq = !eq
			}
			return val{kind: "bool", b: eq}, true
		}
	}
	return val{}, false
}

// evalFunc: a parameterless helper made of local definitions, `if c { return e }` and `return e`
func (in *interp) evalFunc(list []ast.Stmt, env absEnv, locals map[string]ast.Expr, depth int) (val, bool) {
	for _, st := range list {
		switch x := st.(type) {
		case *ast.AssignStmt:
			if len(x.Lhs) == 1 && len(x.Rhs) == 1 {
				if id, ok := x.Lhs[0].(*ast.Ident); ok {
					locals[id.Name] = x.Rhs[0]
					continue
				}
			}
			return val{}, false
		case *ast.IfStmt:
			if x.Init != nil {
				return val{}, false
			}
			c, ok := in.evalVal(x.Cond, env, locals, depth)
			if !ok || c.kind != "bool" {
				return val{}, false
			}
			if c.b {
				return in.evalFunc(x.Body.List, env, locals, depth)
			}
			if x.Else != nil {
				if eb, ok := x.Else.(*ast.BlockStmt); ok {
					return in.evalFunc(eb.List, env, locals, depth)
				}
				return in.evalFunc([]ast.Stmt{x.Else}, env, locals, depth)
			}
		case *ast.ReturnStmt:
			if len(x.Results) != 1 {
				return val{}, false
			}
			return in.evalVal(x.Results[0], env, locals, depth)
		case *ast.SwitchStmt:
			if x.Init != nil {
				return val{}, false
			}
			matched := false
			var def []ast.Stmt
			for _, c := range x.Body.List {
				cc := c.(*ast.CaseClause)
				if cc.List == nil {
					def = cc.Body
					continue
				}
				for _, ce := range cc.List {
					var cond ast.Expr = ce
					if x.Tag != nil {
						cond = &ast.BinaryExpr{X: x.Tag, Op: token.EQL, Y: ce}
					}
					v, ok := in.evalVal(cond, env, locals, depth)
					if !ok || v.kind != "bool" {
						return val{}, false
					}
					if v.b {
						matched = true
					}
				}
				if matched {
					r, ok := in.evalFunc(cc.Body, env, locals, depth)
					if ok {
						return r, true
					}
					return val{}, false
				}
			}
			if def != nil {
				if r, ok := in.evalFunc(def, env, locals, depth); ok {
					return r, true
				}
			}
		default:
			return val{}, false
		}
	}
	return val{}, false
}

// switchGuard: a switch all of whose case bodies only print (and possibly return) is a guard: the handler is left in the
// abstract states whose first matching case ends with return.  ok=false when a body touches the protocol state.
func (in *interp) switchGuard(x *ast.SwitchStmt) (string, bool) {
	locals := map[string]ast.Expr{}
	for k, v := range in.locals {
		locals[k] = v
	}
	if x.Init != nil {
		as, ok := x.Init.(*ast.AssignStmt)
		if !ok || len(as.Lhs) != 1 || len(as.Rhs) != 1 {
			return "", false
		}
		id, ok := as.Lhs[0].(*ast.Ident)
		if !ok {
			return "", false
		}
		locals[id.Name] = as.Rhs[0]
	}
	type clause struct {
		conds []ast.Expr
		exits bool
		def   bool
	}
	var cls []clause
	anyExit, touches := false, false
	for _, c := range x.Body.List {
		cc := c.(*ast.CaseClause)
		body := in.walk(cc.Body, false)
		if hasRelevant(body) {
			return "", false
		}
		cl := clause{exits: endsWithReturn(body), def: cc.List == nil}
		for _, e := range cc.List {
			var cond ast.Expr = e
			if x.Tag != nil {
				cond = &ast.BinaryExpr{X: x.Tag, Op: token.EQL, Y: e}
			}
			cl.conds = append(cl.conds, cond)
			saved := in.locals
			in.locals = locals
			if in.condTouchesState(cond) {
				touches = true
			}
			in.locals = saved
		}
		anyExit = anyExit || cl.exits
		cls = append(cls, cl)
	}
	if !anyExit || !touches {
		return "", true // prints only, or a guard on something else than the protocol state (argument checks)
	}
	var parts []string
	for _, s := range in.states {
		for _, sn := range []bool{false, true} {
			res, decided := false, false
			var def *clause
			for i := range cls {
				if cls[i].def {
					def = &cls[i]
					continue
				}
				for _, cond := range cls[i].conds {
					v, ok := in.evalVal(cond, absEnv{s, sn}, locals, 0)
					if !ok || v.kind != "bool" {
						return "?" + in.str(cond), true
					}
					if v.b && !decided {
						res, decided = cls[i].exits, true
					}
				}
			}
			if !decided && def != nil {
				res = def.exits
			}
			parts = append(parts, fmt.Sprintf("%s/%v:%v", s, sn, res))
		}
	}
	return strings.Join(parts, ","), true
}

// truthTable: for which abstract states the guard leaves the handler ("1" = returns early)
func (in *interp) truthTable(cond ast.Expr, negate bool) string {
	var parts []string
	for _, s := range in.states {
		for _, sn := range []bool{false, true} {
			v, ok := in.evalVal(cond, absEnv{s, sn}, in.locals, 0)
			if !ok || v.kind != "bool" {
				return "?" + in.str(cond)
			}
			b := v.b != negate
			parts = append(parts, fmt.Sprintf("%s/%v:%v", s, sn, b))
		}
	}
	return strings.Join(parts, ",")
}

func (in *interp) table(f func(state string, searchNil bool) bool) string {
	var parts []string
	for _, s := range in.states {
		for _, sn := range []bool{false, true} {
			parts = append(parts, fmt.Sprintf("%s/%v:%v", s, sn, f(s, sn)))
		}
	}
	return strings.Join(parts, ",")
}

func newInterp(p *pkgSrc, states []string) *interp {
	return &interp{p: p, states: states, cancels: map[string]bool{"g.searchCancel": true}, ctxs: map[string]bool{}, locals: map[string]ast.Expr{},
		searchObjs: map[string]bool{}, bestLines: map[string]bool{}}
}

func (in *interp) handler(name string) ([]ev, bool) {
	fd := in.p.funcs[name]
	if fd == nil {
		return nil, false
	}
	in.cancels = map[string]bool{"g.searchCancel": true}
	in.ctxs = map[string]bool{}
	in.locals = map[string]ast.Expr{}
	in.searchObjs = map[string]bool{}
	in.bestLines = map[string]bool{}
	return in.walk(fd.Body.List, true), true
}

func kinds(evs []ev) []string {
	var out []string
	for _, e := range evs {
		if e.kind == "print" || e.kind == "ret" {
			continue
		}
		out = append(out, e.kind)
	}
	return out
}

func find(evs []ev, kind, arg string) int {
	for i, e := range evs {
		if e.kind == kind && (arg == "" || e.arg == arg) {
			return i
		}
	}
	return -1
}

func count(evs []ev, kind string) int {
	n := 0
	for _, e := range evs {
		if e.kind == kind {
			n++
		}
		n += count(e.sub, kind)
	}
	return n
}

func noneOf(evs []ev, kinds ...string) bool {
	for _, e := range evs {
		for _, k := range kinds {
			if e.kind == k {
				return false
			}
		}
	}
	return true
}

func evsStr(evs []ev) string {
	var parts []string
	for _, e := range evs {
		parts = append(parts, e.String())
	}
	return strings.Join(parts, " ")
}

func uciFacts() ([]string, []bool, string) {
	fset := token.NewFileSet()
	states := stateNames(fset)
	uci := loadPkg(fset, "pkg/uci")
	gm := loadPkg(fset, "pkg/uci/game")
	sr := loadPkg(fset, "pkg/search")
	var names []string
	var vals []bool
	var src strings.Builder
	add := func(n string, v bool) { names = append(names, n); vals = append(vals, v) }

	// 1. `go` is handled synchronously by the reader: handleInput (with its helpers inlined) calls g.StartSearch outside any
	// go statement / function literal, exactly once
	goSync := false
	if hi := uci.funcs["handleInput"]; hi != nil {
		var visit func(n ast.Node, async bool, depth int) (syncCalls, asyncCalls int)
		visit = func(n ast.Node, async bool, depth int) (int, int) {
			sc, ac := 0, 0
			ast.Inspect(n, func(m ast.Node) bool {
				switch y := m.(type) {
				case *ast.GoStmt:
					a, b := visit(y.Call, true, depth)
					sc, ac = sc+a, ac+b
					return false
				case *ast.FuncLit:
					a, b := visit(y.Body, true, depth)
					sc, ac = sc+a, ac+b
					return false
				case *ast.CallExpr:
					f := nodeStr(fset, y.Fun)
					if strings.HasSuffix(f, ".StartSearch") {
						if async {
							ac++
						} else {
							sc++
						}
					} else if id, ok := y.Fun.(*ast.Ident); ok && depth < 4 {
						if fd := uci.funcs[id.Name]; fd != nil && id.Name != "handleInput" {
							a, b := visit(fd.Body, async, depth+1)
							sc, ac = sc+a, ac+b
						}
					}
				}
				return true
			})
			return sc, ac
		}
		s, a := visit(hi.Body, false, 0)
		goSync = s >= 1 && a == 0
		src.WriteString(fmt.Sprintf("handleInput: sync StartSearch calls %d, async %d\n", s, a))
	}
	add("goHandledSynchronously", goSync)

	in := newInterp(gm, states)
	lockOK := func(evs []ev) bool {
		k := kinds(evs)
		return len(k) >= 2 && k[0] == "lock" && k[1] == "deferUnlock" && count(evs, "lock") == 1 && count(evs, "unlock") == 0 && count(evs, "deferUnlock") == 1
	}
	strip := func(evs []ev) []ev { // without prints and returns
		var out []ev
		for _, e := range evs {
			if e.kind != "print" && e.kind != "ret" {
				out = append(out, e)
			}
		}
		return out
	}

	ssAll, _ := in.handler("StartSearch")
	ss := strip(ssAll)
	src.WriteString("StartSearch: " + evsStr(ss) + "\n")
	add("startSearchHoldsLock", lockOK(ss))
	wantStart := in.table(func(s string, sn bool) bool { return s != "POSITION_SET" || sn })
	add("startSearchGuard", len(ss) > 2 && ss[2].kind == "guard" && ss[2].arg == wantStart)
	iRun, iGo, iCancel, iCtx := find(ss, "set", "RUNNING"), find(ss, "spawn", ""), find(ss, "storeCancel", ""), find(ss, "mkctx", "")
	structured := noneOf(ss, "other", "nested") && count(ss, "spawn") == 1
	add("runningSetBeforeSpawn", structured && iRun >= 0 && iGo >= 0 && iRun < iGo && iRun > 2)
	add("cancelStoredBeforeSpawn", structured && iCtx >= 0 && iCancel > iCtx && iGo > iCancel && ss[iCtx].arg == "context.Background()")
	idleBeforePrint, deferCancel, searchUsesCtx := false, false, false
	if iGo >= 0 {
		bs := strip(ss[iGo].sub)
		iIdle, iPrint, iSearch := find(bs, "set", "IDLE"), find(bs, "printBest", ""), find(bs, "search", "")
		idleBeforePrint = noneOf(bs, "other", "nested", "spawn", "guard") && iIdle >= 0 && iPrint >= 0 && iIdle < iPrint && iSearch >= 0 && iSearch < iIdle &&
			count(bs, "set") == 1 && count(bs, "printBest") == 1
		deferCancel = len(bs) > 0 && bs[0].kind == "deferCancel"
		searchUsesCtx = iSearch >= 0 && bs[iSearch].arg == "ctx"
	}
	add("idleSetBeforeBestmovePrinted", idleBeforePrint)
	add("goroutineDefersCancel", deferCancel)
	add("searchGetsCancellableCtx", searchUsesCtx)
	nSet := 0
	for _, e := range ss {
		if e.kind == "set" {
			nSet++
		}
		if e.kind == "nested" || e.kind == "guard" {
			nSet += count(e.sub, "set")
		}
	}
	add("startSearchSetsFlagOnce", nSet == 1)

	tsAll, _ := in.handler("StopSearch")
	ts := strip(tsAll)
	src.WriteString("StopSearch: " + evsStr(ts) + "\n")
	wantStop := in.table(func(s string, sn bool) bool { return s != "RUNNING" })
	add("stopSearchExact", len(ts) == 4 && lockOK(ts) && ts[2].kind == "guard" && ts[2].arg == wantStop && ts[3].kind == "callCancel")

	rsAll, _ := in.handler("IsReady")
	rs := strip(rsAll)
	src.WriteString("IsReady: " + evsStr(rs) + "\n")
	add("isReadyExact", len(rs) == 3 && lockOK(rs) && rs[2].kind == "printReady")

	nsAll, _ := in.handler("NewPosition")
	ns := strip(nsAll)
	src.WriteString("NewPosition: " + evsStr(ns) + "\n")
	add("newPositionHoldsLock", lockOK(ns))
	wantPos := in.table(func(s string, sn bool) bool { return s == "RUNNING" })
	add("newPositionGuard", len(ns) > 2 && ns[2].kind == "guard" && ns[2].arg == wantPos)
	okSets := true
	var chk func(evs []ev)
	chk = func(evs []ev) {
		for _, e := range evs {
			if (e.kind == "set" && e.arg != "POSITION_SET") || e.kind == "other" || e.kind == "spawn" || e.kind == "callCancel" || e.kind == "storeCancel" {
				okSets = false
			}
			chk(e.sub)
		}
	}
	chk(ns)
	add("newPositionOnlySetsPositionSet", okSets && len(ns) > 0)

	// search side: the context polled by the search is the caller's (or a child of it)
	infThrough, child := false, false
	if cf := sr.funcs["contextFromSearchParameter"]; cf != nil {
		ctxName := ""
		for _, fl := range cf.Type.Params.List {
			if nodeStr(fset, fl.Type) == "context.Context" && len(fl.Names) > 0 {
				ctxName = fl.Names[0].Name
			}
		}
		allDerived, nRet := true, 0
		var scan func(list []ast.Stmt, underInfinite bool)
		scan = func(list []ast.Stmt, underInfinite bool) {
			for _, st := range list {
				switch x := st.(type) {
				case *ast.ReturnStmt:
					nRet++
					if len(x.Results) < 1 {
						allDerived = false
						continue
					}
					r := nodeStr(fset, x.Results[0])
					if c, ok := x.Results[0].(*ast.CallExpr); ok {
						f := nodeStr(fset, c.Fun)
						if strings.HasPrefix(f, "context.With") && len(c.Args) > 0 && nodeStr(fset, c.Args[0]) == ctxName {
							if strings.HasPrefix(f, "context.WithTimeout") || strings.HasPrefix(f, "context.WithDeadline") {
								child = true
							}
							continue
						}
						allDerived = false
						continue
					}
					if r == ctxName {
						if underInfinite {
							infThrough = true
						}
						continue
					}
					allDerived = false
				case *ast.IfStmt:
					inf := underInfinite || strings.Contains(nodeStr(fset, x.Cond), ".Infinite")
					scan(x.Body.List, inf)
					if x.Else != nil {
						if eb, ok := x.Else.(*ast.BlockStmt); ok {
							scan(eb.List, underInfinite)
						} else {
							scan([]ast.Stmt{x.Else}, underInfinite)
						}
					}
				case *ast.BlockStmt:
					scan(x.List, underInfinite)
				case *ast.SwitchStmt:
					for _, c := range x.Body.List {
						cc := c.(*ast.CaseClause)
						inf := underInfinite
						for _, e := range cc.List {
							if strings.Contains(nodeStr(fset, e), ".Infinite") {
								inf = true
							}
						}
						scan(cc.Body, inf)
					}
				case *ast.AssignStmt:
					for _, l := range x.Lhs {
						if nodeStr(fset, l) == ctxName {
							allDerived = false // the parameter is reassigned
						}
					}
				}
			}
		}
		scan(cf.Body.List, false)
		infThrough = infThrough && allDerived
		child = child && allDerived && nRet > 0
		src.WriteString(fmt.Sprintf("contextFromSearchParameter: returns %d allDerived %v\n", nRet, allDerived))
	}
	add("infinitePassesCtxThrough", infThrough)
	add("timeoutIsChildOfCallerCtx", child)
	installs := false
	if sf := sr.funcs["Search"]; sf != nil {
		derived := map[string]bool{}
		for _, st := range sf.Body.List {
			as, ok := st.(*ast.AssignStmt)
			if !ok || len(as.Rhs) != 1 {
				continue
			}
			if c, ok := as.Rhs[0].(*ast.CallExpr); ok && strings.HasSuffix(nodeStr(fset, c.Fun), ".contextFromSearchParameter") &&
				len(c.Args) > 0 && nodeStr(fset, c.Args[0]) == "ctx" && len(as.Lhs) >= 1 {
				derived[nodeStr(fset, as.Lhs[0])] = true
			}
			if len(as.Lhs) == 1 && strings.HasSuffix(nodeStr(fset, as.Lhs[0]), ".ctx") && derived[nodeStr(fset, as.Rhs[0])] {
				installs = true
			}
		}
	}
	add("searchInstallsDerivedCtx", installs)
	// output lines are single writes: no print statement of the UCI handlers or of the search emits a definite line fragment (a `fmt.Printf`
	// whose format literal, or a `fmt.Print` whose last literal argument, does not end in a newline).  The model treats a line as one atomic
	// write; a line assembled from two writes outside the lock can be cut in two by a concurrent `readyok` or `info`.
	partial := partialLineWrites(fset, []string{"pkg/uci", "pkg/uci/game", "pkg/search"})
	for _, w := range partial {
		src.WriteString("partial-line write: " + w + "\n")
	}
	add("outputLinesAreSingleWrites", len(partial) == 0)
	return names, vals, src.String()
}

// partialLineWrites lists the print calls that definitely emit a line fragment
func partialLineWrites(fset *token.FileSet, rels []string) []string {
	var out []string
	for _, rel := range rels {
		files, _ := filepath.Glob(filepath.Join(repoRoot(), rel, "*.go"))
		sort.Strings(files)
		for _, f := range files {
			if strings.HasSuffix(f, "_test.go") || strings.HasSuffix(f, "_verif.go") {
				continue
			}
			af, err := parser.ParseFile(fset, f, nil, 0)
			if err != nil {
				continue
			}
			ast.Inspect(af, func(n ast.Node) bool {
				c, ok := n.(*ast.CallExpr)
				if !ok || len(c.Args) == 0 {
					return true
				}
				fn := nodeStr(fset, c.Fun)
				var lit ast.Expr
				switch fn {
				case "fmt.Printf":
					lit = c.Args[0]
				case "fmt.Print":
					lit = c.Args[len(c.Args)-1]
				default:
					return true
				}
				if bl, ok := lit.(*ast.BasicLit); ok && bl.Kind == token.STRING {
					if v, err := strconv.Unquote(bl.Value); err == nil && !strings.HasSuffix(v, "\n") {
						out = append(out, fmt.Sprintf("%s %s", fset.Position(c.Pos()), fn))
					}
				}
				return true
			})
		}
	}
	return out
}

func dumpFacts(dir string) {
	names, vals, _ := uciFacts()
	var sb strings.Builder
	sb.WriteString("-- GENERATED by tools/harness (go/ast facts about pkg/uci and pkg/search). Do not edit.\nnamespace Clemens.Gen\n\n")
	sb.WriteString("/-- order-of-events and lock-discipline facts read off the source text -/\ndef uciFacts : List (String × Bool) := [\n")
	for i, n := range names {
		sep := ","
		if i == len(names)-1 {
			sep = ""
		}
		fmt.Fprintf(&sb, "  (%q, %v)%s\n", n, vals[i], sep)
	}
	sb.WriteString("]\n\nend Clemens.Gen\n")
	writeIfChanged(filepath.Join(dir, "UciFacts.lean"), sb.String())
}
