package main

// Search operations: run real searches with a deterministic cancellation context and compare
// with the Lean search model (`search`); let the Lean spec judge the answers (`judge`).

import (
	"context"
	"fmt"
	"regexp"
	"strconv"
	"strings"
	"time"

	"github.com/shaardie/clemens/pkg/move"
	"github.com/shaardie/clemens/pkg/position"
	"github.com/shaardie/clemens/pkg/search"
	"github.com/shaardie/clemens/pkg/search/transpositiontable"
	"github.com/shaardie/clemens/pkg/types"
)

// countCtx reports done from the `at`-th poll on (0-based); at < 0: never.
type countCtx struct {
	nodesFn  func() uint64 // node counter of the search, read at every poll
	lastN    uint64
	maxGap   uint64 // largest number of nodes counted between two consecutive polls
	n        int
	at       int
	open     chan struct{}
	closed   chan struct{}
	onCancel func()
	fired    bool
}

func newCountCtx(at int) *countCtx {
	c := &countCtx{at: at, open: make(chan struct{}), closed: make(chan struct{})}
	close(c.closed)
	return c
}
func (c *countCtx) Deadline() (time.Time, bool) { return time.Time{}, false }
func (c *countCtx) Done() <-chan struct{} {
	if c.nodesFn != nil {
		cur := c.nodesFn()
		if cur-c.lastN > c.maxGap {
			c.maxGap = cur - c.lastN
		}
		c.lastN = cur
	}
	k := c.n
	c.n++
	if c.at >= 0 && k >= c.at {
		if !c.fired && c.onCancel != nil {
			c.fired = true
			c.onCancel()
		}
		return c.closed
	}
	return c.open
}
func (c *countCtx) Err() error    { return context.Canceled }
func (c *countCtx) Value(any) any { return nil }

var infoRe = regexp.MustCompile(`^info depth (\d+) score cp (-?\d+) time \d+ nodes (\d+) nps -?\d+ hashfull \d+ pv ?(.*)$`)
var windowRe = regexp.MustCompile(`^info string windows \[(-?\d+),(-?\d+)\] too small for value (-?\d+)\. Re-run search\.$`)

type searchResult struct {
	best       move.Move
	nodes      uint64
	polls      int
	lines      []string // normalised info lines
	pvs        []string // pv of every info line (uci, comma separated)
	maxDepth   int
	nodesAtCut uint64
	cut        bool
	completed  int // info depth lines printed before the cancellation was noticed
	timedOut   bool
	panicked   bool
	maxGap     uint64
}

func setupSearch(posArg string, moves []string) (*search.Search, bool) {
	p, ok := posFromArg(posArg)
	if !ok {
		return nil, false
	}
	s := search.NewSearch(*p)
	for _, m := range moves {
		var err error
		if guard(func() { err = s.MakeMoveFromString(m) }) || err != nil {
			return nil, false
		}
	}
	return s, true
}

func runSearch(s *search.Search, depth, cancelAt int) searchResult {
	var r searchResult
	ctx := newCountCtx(cancelAt)
	ctx.nodesFn = s.VerifNodes
	ctx.lastN = s.VerifNodes()
	ctx.onCancel = func() {
		r.cut = true
		r.nodesAtCut = s.VerifNodes()
		if s.PV.GetBestMove() != move.NullMove {
			r.completed = 1 // an iteration has completed and left an answer: no fallback search may follow
		}
	}
	done := make(chan struct{})
	var out string
	go func() {
		defer close(done)
		o, pan := captureStdout(func() {
			r.best = s.Search(ctx, search.SearchParameter{Depth: uint8(depth), Infinite: true})
		})
		out = o
		r.panicked = pan
	}()
	select {
	case <-done:
	case <-time.After(60 * time.Second):
		r.timedOut = true
		return r
	}
	r.nodes = s.VerifNodes()
	r.polls = ctx.n
	r.maxGap = ctx.maxGap
	for _, l := range strings.Split(out, "\n") {
		l = strings.TrimRight(l, "\r ")
		if m := infoRe.FindStringSubmatch(l); m != nil {
			d, _ := strconv.Atoi(m[1])
			if d > r.maxDepth {
				r.maxDepth = d
			}
			pv := strings.TrimSpace(m[4])
			r.lines = append(r.lines, strings.ReplaceAll(strings.TrimSpace(fmt.Sprintf("info depth %s score cp %s nodes %s pv %s", m[1], m[2], m[3], pv)), " ", "_"))
			if pv == "" {
				r.lines[len(r.lines)-1] = strings.ReplaceAll(fmt.Sprintf("info depth %s score cp %s nodes %s pv ", m[1], m[2], m[3]), " ", "_")
			}
			r.pvs = append(r.pvs, strings.Join(strings.Fields(pv), ","))
		} else if m := windowRe.FindStringSubmatch(l); m != nil {
			r.lines = append(r.lines, strings.ReplaceAll(fmt.Sprintf("info string windows [%s,%s] too small for value %s", m[1], m[2], m[3]), " ", "_"))
		}
	}
	return r
}

func execSearch(args []string) string {
	switch args[0] {
	case "search":
		k, _ := strconv.Atoi(args[1])
		rest := args[2:]
		transpositiontable.Reset()
		var outs []string
		for i := 0; i < k; i++ {
			if len(rest) < 2 {
				return "out=badargs"
			}
			posArg := rest[0]
			nm, _ := strconv.Atoi(rest[1])
			moves := rest[2 : 2+nm]
			rest = rest[2+nm:]
			depth, _ := strconv.Atoi(rest[0])
			cancelAt, _ := strconv.Atoi(rest[1])
			rest = rest[2:]
			s, ok := setupSearch(posArg, moves)
			if !ok {
				outs = append(outs, "badgame")
				break
			}
			r := runSearch(s, depth, cancelAt)
			if r.timedOut {
				outs = append(outs, "timeout")
				break
			}
			if r.panicked {
				outs = append(outs, "panic")
				break
			}
			outs = append(outs, fmt.Sprintf("best=%d:%s|nodes=%d|polls=%d|%s", uint32(r.best)&0xFFFF, r.best.String(), r.nodes, r.polls, strings.Join(r.lines, "/")))
		}
		return "out=" + strings.Join(outs, ";")
	case "deep":
		// deep <pos> <nmoves> <moves…> <depth>: Go-only search; answer and PVs replayed with the engine's own legal move generator
		nm, _ := strconv.Atoi(args[2])
		moves := args[3 : 3+nm]
		depth, _ := strconv.Atoi(args[3+nm])
		transpositiontable.Reset()
		s, ok := setupSearch(args[1], moves)
		if !ok {
			return "res=badgame"
		}
		root := s.Pos
		r := runSearch(s, depth, -1)
		if r.timedOut || r.panicked {
			return "p.terminated=" + b2s(!r.timedOut) + " p.nopanic=" + b2s(!r.panicked)
		}
		return judgeByEngine(&root, r, depth)
	case "deepseq":
		// deepseq <k> {<pos> <nmoves> <moves…> <depth> <cancelAt>}^k: Go-only searches sharing the tables; the LAST answer is judged with the engine's own generator
		k, _ := strconv.Atoi(args[1])
		rest := args[2:]
		transpositiontable.Reset()
		var last searchResult
		var lastRoot position.Position
		lastDepth := 0
		for i := 0; i < k; i++ {
			posArg := rest[0]
			nm, _ := strconv.Atoi(rest[1])
			moves := rest[2 : 2+nm]
			rest = rest[2+nm:]
			depth, _ := strconv.Atoi(rest[0])
			cancelAt, _ := strconv.Atoi(rest[1])
			rest = rest[2:]
			s, ok := setupSearch(posArg, moves)
			if !ok {
				return "res=badgame"
			}
			lastRoot = s.Pos
			lastDepth = depth
			last = runSearch(s, depth, cancelAt)
			if last.timedOut || last.panicked {
				return "p.terminated=" + b2s(!last.timedOut) + " p.nopanic=" + b2s(!last.panicked)
			}
		}
		return judgeByEngine(&lastRoot, last, lastDepth)
	case "judge":
		// the facts are in the operation itself (they were produced by the Go run that generated it); constant expectations
		return "bestlegal=1 pvlegal=1 bestfirst=1 mateok=1"
	}
	return "bad-op"
}

// searchOps: sequences of searches (sharing the global tables) on generated games, with cancellation at chosen polls.
func searchOps(o *Out, seed uint64, n int, tier string, corpus string) {
	rng := NewRng(seed)
	ps := &posSource{rng: rng, corpus: readLines(corpus)}
	type game struct {
		pos   string
		moves []string
	}
	var games []game
	// roots: corpus positions (no moves), and playouts with their move lists (history matters for repetitions)
	for _, fen := range ps.corpus {
		if p, err := position.NewFromFen(fen); err == nil && p.Ply/2+1 <= 120 {
			games = append(games, game{hexOf(fen), nil})
		}
	}
	for len(games) < n+len(ps.corpus) {
		start := "startpos"
		p := *position.New()
		if rng.Intn(3) == 0 {
			fen := ps.randomMaterial()
			q, err := position.NewFromFen(fen)
			if err != nil || !checkShape(q) || inCheckSafe(q, types.SwitchColor(q.SideToMove)) || len(legalMoves(q)) == 0 {
				continue
			}
			p = *q
			start = hexOf(fen)
		}
		var last []string
		ps.playout(start, p, 4+rng.Intn(60), func(q *position.Position, st string, mv []string) bool {
			last = append([]string{}, mv...)
			return true
		})
		games = append(games, game{start, last})
	}
	// positions in which the side to move can mate at once (for C13), found among corpus and playout positions
	var matePool []game
	isMateInOne := func(p *position.Position) (res bool) {
		defer func() {
			if recover() != nil {
				res = false
			}
		}()
		if inCheckSafe(p, types.SwitchColor(p.SideToMove)) {
			return false
		}
		for _, lm := range legalMoves(p) {
			q := lm.pos
			if q.IsInCheck(q.SideToMove) && len(legalMoves(&q)) == 0 {
				return true
			}
		}
		return false
	}
	for _, g := range games {
		s, ok := setupSearch(g.pos, g.moves)
		if ok && isMateInOne(&s.Pos) {
			matePool = append(matePool, g)
		}
	}
	for tries := 0; len(matePool) < 12 && tries < 400; tries++ {
		fen := ps.randomMaterial()
		q, err := position.NewFromFen(fen)
		if err != nil || !checkShape(q) || inCheckSafe(q, types.SwitchColor(q.SideToMove)) {
			continue
		}
		ps.playout(fen, *q, 8, func(r *position.Position, _ string, mv []string) bool {
			if isMateInOne(r) {
				matePool = append(matePool, game{hexOf(fen), append([]string{}, mv...)})
				return false
			}
			return true
		})
	}
	o.StatN("mate_in_one_pool", len(matePool))
	// Go-only sequences on the mate-in-one pool: deeper predecessor searches first (their tables are what the mate search finds),
	// then the mate position at depths 1..4 with the cancellation landing at many different polls
	nseq := n
	if nseq > 4000 {
		nseq = 4000
	}
	for i := 0; i < nseq && len(matePool) > 0; i++ {
		g := matePool[rng.Intn(len(matePool))]
		var segs []string
		if len(g.moves) >= 2 && rng.Intn(3) != 0 {
			back := 1 + rng.Intn(2)
			segs = append(segs, fmt.Sprintf("%s %d %s %d -1", g.pos, len(g.moves)-back, strings.Join(g.moves[:len(g.moves)-back], " "), 2+rng.Intn(4)))
		} else if rng.Intn(2) == 0 {
			segs = append(segs, fmt.Sprintf("%s %d %s %d -1", g.pos, len(g.moves), strings.Join(g.moves, " "), 1+rng.Intn(4)))
		}
		cancel := -1
		switch rng.Intn(6) {
		case 0, 1:
			cancel = rng.Intn(6) // an immediate timeout / a stop right after go: the fallback answers
		case 2, 3:
			cancel = rng.Intn(600) // inside the second or third iteration
		case 4:
			cancel = rng.Intn(5000)
		}
		segs = append(segs, fmt.Sprintf("%s %d %s %d %d", g.pos, len(g.moves), strings.Join(g.moves, " "), 1+rng.Intn(4), cancel))
		o.Run(strings.Join(strings.Fields(fmt.Sprintf("deepseq %d %s", len(segs), strings.Join(segs, " "))), " "))
		o.Stat("mate_sequences_go_only")
	}
	count := 0
	unit := 0
	for count < n {
		unit++
		k := 1 + rng.Intn(3)
		var parts []string
		var judges []string
		transpositiontable.Reset()
		mateUnit := unit%3 == 0 && len(matePool) > 0
		deepUnit := unit%4 == 1 // Go-only searches to depth 4..5, judged by the spec
		for i := 0; i < k; i++ {
			g := games[rng.Intn(len(games))]
			depth := 1 + rng.Intn(3)
			cancelAt := -1
			if rng.Intn(2) == 0 {
				cancelAt = rng.Intn(400)
				if rng.Intn(3) == 0 {
					cancelAt = rng.Intn(4)
				}
			}
			if mateUnit {
				g = matePool[rng.Intn(len(matePool))]
				if i < k-1 && len(g.moves) > 0 {
					// first search the position one move earlier: its tables are what the mate search then finds
					g = game{g.pos, g.moves[:len(g.moves)-1]}
					depth = 2 + rng.Intn(3)
					cancelAt = -1
				} else {
					cancelAt = []int{-1, 0, 0, 1, 2, 3, 7, 40}[rng.Intn(8)]
					if len(g.moves) == 0 && rng.Intn(2) == 0 {
						// half-move clock at the fifty-move boundary
						b, _ := hexDecode(g.pos)
						g = game{hexOf(withField(string(b), 4, []string{"98", "99", "100"}[rng.Intn(3)])), nil}
					}
				}
				o.Stat("mate_in_one_searches")
			} else if deepUnit {
				depth = 4 + rng.Intn(2)
				cancelAt = -1
				if rng.Intn(3) == 0 {
					cancelAt = 500 + rng.Intn(20000)
				}
			} else if tier == "thorough" && rng.Intn(6) == 0 {
				depth = 4
			}
			s, ok := setupSearch(g.pos, g.moves)
			if !ok {
				continue
			}
			r := runSearch(s, depth, cancelAt)
			if r.timedOut || r.panicked {
				o.Stat("search_timeout_or_panic")
			}
			parts = append(parts, fmt.Sprintf("%s %d %s %d %d", g.pos, len(g.moves), strings.Join(g.moves, " "), depth, cancelAt))
			pvs := "-"
			if len(r.pvs) > 0 {
				pvs = strings.Join(r.pvs, ";")
			}
			judges = append(judges, strings.Join(strings.Fields(fmt.Sprintf("judge %s %d %s %s %s", g.pos, len(g.moves), strings.Join(g.moves, " "), r.best.String(), pvs)), " "))
			// once the cancellation has been noticed no further node may be visited, except for the single
			// depth-1 fallback search when no iteration had produced an answer yet
			stopnow := !r.cut || r.completed == 0 || r.nodes == r.nodesAtCut
			o.Emit(fmt.Sprintf("facts search depth=%d cancel=%d", depth, cancelAt),
				fmt.Sprintf("p.terminated=%s p.depthok=%s p.stopnow=%s p.nopanic=%s p.nextnode=%s", b2s(!r.timedOut), b2s(r.maxDepth <= depth), b2s(stopnow), b2s(!r.panicked), b2s(r.maxGap <= 1)))
			if r.cut {
				o.Stat("cancelled_searches")
			}
			o.Stat(fmt.Sprintf("depth_%d", depth))
			count++
		}
		if len(parts) == 0 {
			continue
		}
		if !deepUnit {
			o.Run(fmt.Sprintf("search %d %s", len(parts), strings.Join(strings.Fields(strings.Join(parts, " ")), " ")))
		}
		for _, j := range judges {
			o.Run(j)
		}
		o.Stat("search_sequences")
	}
}

// deepOps: Go-only searches to depth 4..5 over corpus and generated games.
func deepOps(o *Out, seed uint64, n int, corpus string) {
	rng := NewRng(seed)
	ps := &posSource{rng: rng, corpus: readLines(corpus)}
	count := 0
	for count < n {
		start := "startpos"
		p := *position.New()
		switch rng.Intn(4) {
		case 0:
			fen := ps.corpus[rng.Intn(len(ps.corpus))]
			q, err := position.NewFromFen(fen)
			if err != nil || inCheckSafe(q, types.SwitchColor(q.SideToMove)) {
				continue
			}
			p, start = *q, hexOf(fen)
		case 1:
			fen := ps.randomMaterial()
			q, err := position.NewFromFen(fen)
			if err != nil || !checkShape(q) || inCheckSafe(q, types.SwitchColor(q.SideToMove)) {
				continue
			}
			p, start = *q, hexOf(fen)
		}
		var last []string
		ps.playout(start, p, rng.Intn(70), func(q *position.Position, st string, mv []string) bool {
			last = append([]string{}, mv...)
			return true
		})
		depth := 4
		if rng.Intn(5) == 0 {
			depth = 5
		}
		o.Run(strings.Join(strings.Fields(fmt.Sprintf("deep %s %d %s %d", start, len(last), strings.Join(last, " "), depth)), " "))
		o.Stat(fmt.Sprintf("deep_depth_%d", depth))
		count++
	}
}

// judgeByEngine replays the answer and every printed PV with the engine's own legal move generator.
func judgeByEngine(rootp *position.Position, r searchResult, depth int) string {
	root := *rootp
	find := func(p *position.Position, u string) (*position.Position, bool) {
		for _, lm := range legalMoves(p) {
			if lm.m.String() == u {
				q := lm.pos
				return &q, true
			}
		}
		return nil, false
	}
	lms := legalMoves(&root)
	bestLegal := false
	if len(lms) == 0 {
		bestLegal = r.best == move.NullMove
	} else {
		_, bestLegal = find(&root, r.best.String())
	}
	pvLegal := true
	for _, pv := range r.pvs {
		p := root
		for _, u := range strings.Split(pv, ",") {
			if u == "" {
				continue
			}
			q, ok := find(&p, u)
			if !ok {
				pvLegal = false
				break
			}
			p = *q
		}
	}
	bestFirst := true
	if len(r.pvs) > 0 {
		last := strings.Split(r.pvs[len(r.pvs)-1], ",")
		if last[0] != "" {
			bestFirst = last[0] == r.best.String()
		}
	}
	mateOk := true
	hasMate := false
	for _, lm := range lms {
		q := lm.pos
		if q.IsInCheck(q.SideToMove) && len(legalMoves(&q)) == 0 {
			hasMate = true
		}
	}
	if hasMate {
		q, ok := find(&root, r.best.String())
		mateOk = ok && q.IsInCheck(q.SideToMove) && len(legalMoves(q)) == 0
	}
	return fmt.Sprintf("p.terminated=1 p.nopanic=1 p.bestlegal=%s p.pvlegal=%s p.bestfirst=%s p.mateok=%s p.depthok=%s",
		b2s(bestLegal), b2s(pvLegal), b2s(bestFirst), b2s(mateOk), b2s(r.maxDepth <= depth))
}
