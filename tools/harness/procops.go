package main

// Operations that run the repository's own binaries (built by `bin/check` prepare from the working tree):
// cmd/perft (its own Perft/Divided loops) and cmd/uci (the real reader loop over stdin/stdout).

import (
	"bufio"
	"fmt"
	"io"
	"os"
	"os/exec"
	"regexp"
	"strconv"
	"strings"
	"sync"
	"time"
)

var leafsRe = regexp.MustCompile(`(?m)^Leafs: (\d+)`)

func binPath(name string) string {
	d := os.Getenv("VERIF_BIN")
	if d == "" {
		d = "/verif/work"
	}
	return d + "/" + name
}

func execProc(args []string) string {
	switch args[0] {
	case "perftbin":
		// perftbin <fenhex> <depth> <divide:0|1>
		b, _ := hexDecode(args[1])
		cmdArgs := []string{"-position", string(b), "-depth", args[2]}
		if args[3] == "1" {
			cmdArgs = append(cmdArgs, "-divide")
		}
		cmd := exec.Command(binPath("perftbin"), cmdArgs...)
		out, err := runWithTimeout(cmd, 120*time.Second)
		if err != nil {
			return "perft=error"
		}
		m := leafsRe.FindStringSubmatch(out)
		if m == nil {
			return "perft=none"
		}
		return "perft=" + m[1]
	case "procuci":
		return execProcUci(args[1:])
	}
	return "bad-op"
}

func runWithTimeout(cmd *exec.Cmd, d time.Duration) (string, error) {
	var sb strings.Builder
	cmd.Stdout = &sb
	cmd.Stderr = &sb
	if err := cmd.Start(); err != nil {
		return "", err
	}
	done := make(chan error, 1)
	go func() { done <- cmd.Wait() }()
	select {
	case err := <-done:
		return sb.String(), err
	case <-time.After(d):
		cmd.Process.Kill()
		return sb.String(), fmt.Errorf("timeout")
	}
}

// execProcUci drives the real UCI binary. Script tokens as in `conc`:
// P/Q position, Gi/Gg/Gd/Gm/Gt go variants, S stop, R isready, W<k> wait k*100µs, B wait for the outstanding bestmove,
// X<hex> send an arbitrary line, "|" flush what was queued in ONE write (back-to-back commands).
func execProcUci(script []string) string {
	cmd := exec.Command(binPath("ucibin"))
	stdin, _ := cmd.StdinPipe()
	stdout, _ := cmd.StdoutPipe()
	if err := cmd.Start(); err != nil {
		return "out=startfail p.live=0"
	}
	var mu sync.Mutex
	best, ready, odd := 0, 0, 0
	go func() {
		sc := bufio.NewScanner(stdout)
		sc.Buffer(make([]byte, 1<<20), 1<<20)
		for sc.Scan() {
			l := sc.Text()
			mu.Lock()
			switch {
			case strings.HasPrefix(l, "bestmove "):
				if !bestmoveLine(l) {
					odd++
				}
				best++
			case l == "readyok":
				ready++
			case wholeLine(l):
			default:
				odd++
			}
			mu.Unlock()
		}
	}()
	get := func() (int, int) { mu.Lock(); defer mu.Unlock(); return best, ready }
	waitFor := func(f func() bool, d time.Duration) bool {
		dl := time.Now().Add(d)
		for !f() {
			if time.Now().After(dl) {
				return false
			}
			time.Sleep(200 * time.Microsecond)
		}
		return true
	}
	// start-up: the engine builds its tables for about a second
	io.WriteString(stdin, "isready\n")
	if !waitFor(func() bool { _, r := get(); return r >= 1 }, 20*time.Second) {
		cmd.Process.Kill()
		return "out=nostart p.live=0"
	}
	gos, readys := 0, 1
	live, prompt := true, true
	var queue strings.Builder
	flush := func() {
		if queue.Len() > 0 {
			io.WriteString(stdin, queue.String())
			queue.Reset()
		}
	}
	var stopAt time.Time
	for _, t := range script {
		if !live {
			break
		}
		switch {
		case t == "P":
			queue.WriteString("position startpos moves e2e4 e7e5\n")
		case t == "Q":
			queue.WriteString("position fen r3k2r/p1ppqpb1/bn2pnp1/3PN3/1p2P3/2N2Q1p/PPPBBPPP/R3K2R w KQkq - 0 1\n")
		case t == "Gi":
			gos++
			queue.WriteString("go infinite\n")
		case t == "Gg":
			gos++
			queue.WriteString("go\n")
		case t == "Gd":
			gos++
			queue.WriteString("go depth 2\n")
		case t == "Ge":
			gos++
			queue.WriteString("position fen 8/8/8/4k3/8/8/4P3/4K3 w - - 0 1\ngo depth 14\n")
		case strings.HasPrefix(t, "RR"):
			k, _ := strconv.Atoi(t[2:])
			for i := 0; i < k; i++ {
				readys++
				queue.WriteString("isready\n")
				if i%8 == 7 {
					flush()
				}
			}
		case t == "Gm":
			gos++
			queue.WriteString("go movetime 20000\n")
		case t == "Gt":
			gos++
			queue.WriteString("go wtime 3000000 btime 3000000\n")
		case t == "S":
			queue.WriteString("stop\n")
			stopAt = time.Now()
		case t == "R":
			readys++
			queue.WriteString("isready\n")
		case strings.HasPrefix(t, "X"):
			b, _ := hexDecode(t[1:])
			queue.WriteString(string(b) + "\n")
		case t == "|":
			flush()
		case strings.HasPrefix(t, "W"):
			flush()
			k, _ := strconv.Atoi(t[1:])
			time.Sleep(time.Duration(k) * 100 * time.Microsecond)
		case t == "B":
			flush()
			if !waitFor(func() bool { b, _ := get(); return b >= gos }, 4*time.Second) {
				live = false
			}
			if live && !stopAt.IsZero() && time.Since(stopAt) > 2*time.Second {
				prompt = false
			}
			stopAt = time.Time{}
		}
	}
	flush()
	if live && !waitFor(func() bool { _, r := get(); return r >= readys }, 3*time.Second) {
		live = false
	}
	// the process must still be alive and answer
	if live {
		io.WriteString(stdin, "isready\n")
		readys++
		if !waitFor(func() bool { _, r := get(); return r >= readys }, 3*time.Second) {
			live = false
		}
	}
	io.WriteString(stdin, "quit\n")
	exited := make(chan struct{})
	go func() { cmd.Wait(); close(exited) }()
	select {
	case <-exited:
	case <-time.After(2 * time.Second):
		cmd.Process.Kill()
	}
	b, r := get()
	mu.Lock()
	o := odd
	mu.Unlock()
	rr := r - 2 // without the start-up and the final liveness isready
	if !live {
		rr = r - 1
	}
	return fmt.Sprintf("out=b%d,r%d p.live=%s p.prompt=%s p.whole=%s", b, rr, b2s(live), b2s(prompt), b2s(o == 0))
}

func procOps(o *Out, seed uint64, n int, corpus string) {
	rng := NewRng(seed)
	fens := readLines(corpus)
	// perft through the repository's own perft program
	for i := 0; i < n && i < 12; i++ {
		fen := fens[i]
		if i >= 7 {
			fen = fens[rng.Intn(len(fens))]
		}
		o.Run(fmt.Sprintf("perftbin %s %d %d", hexOf(fen), 2+rng.Intn(2), rng.Intn(2)))
		o.Stat("perft_binary_runs")
	}
	garbageLines := []string{"", "xyzzy", "go", "stop", "position", "go depth 1", "joho go depth 1", "debug on", "setoption name Hash value 1", "ponderhit", "go wtime abc", "go nodes", "go mate 3 depth 1", "ucinewgame", "uci", "\t", "go infinite infinite depth 1 movetime 5"}
	for i := 0; i < n; i++ {
		var toks []string
		rounds := 1 + rng.Intn(2)
		if i%5 == 4 {
			toks = append(toks, "Ge", fmt.Sprintf("RR%d", 300+rng.Intn(300)), "S", "B")
			rounds = 0
		}
		for j := 0; j < rounds; j++ {
			if rng.Intn(3) == 0 {
				toks = append(toks, "X"+hexOfNonEmpty(garbageLines[rng.Intn(len(garbageLines))]))
				// a garbage line may itself start a short search or print something: let it settle
				toks = append(toks, "W3000")
				toks = append(toks, "X"+hexOfNonEmpty("stop"), "W200")
				continue
			}
			toks = append(toks, []string{"P", "Q"}[rng.Intn(2)])
			kind := []string{"Gi", "Gg", "Gd", "Gm", "Gt"}[rng.Intn(5)]
			toks = append(toks, kind)
			if kind != "Gd" {
				if rng.Intn(2) == 0 {
					toks = append(toks, fmt.Sprintf("W%d", rng.Intn(30)))
				}
				toks = append(toks, "S")
			}
			if rng.Intn(3) == 0 {
				toks = append(toks, "R")
			}
			toks = append(toks, "B")
			if rng.Intn(3) == 0 {
				toks = append(toks, "S", "R")
			}
		}
		o.Run("procuci " + strings.Join(toks, " "))
		o.Stat("process_dialogues")
	}
}

func hexOfNonEmpty(s string) string {
	if s == "" {
		return "20"
	}
	return hexOf(s)
}
