package main

// Chess-core operation families: positions from the corpus, from random legal playouts and
// from a random-material constructor; per position the generator, attack, make-move,
// null-move, FEN and perft operations are emitted together with what the Go code answers.

import (
	"fmt"
	"sort"
	"strconv"
	"strings"

	"github.com/shaardie/clemens/pkg/bitboard"
	"github.com/shaardie/clemens/pkg/move"
	"github.com/shaardie/clemens/pkg/pieces/bishop"
	"github.com/shaardie/clemens/pkg/pieces/king"
	"github.com/shaardie/clemens/pkg/pieces/knight"
	"github.com/shaardie/clemens/pkg/pieces/pawn"
	"github.com/shaardie/clemens/pkg/pieces/queen"
	"github.com/shaardie/clemens/pkg/pieces/rook"
	"github.com/shaardie/clemens/pkg/position"
	"github.com/shaardie/clemens/pkg/types"
)

type legalMove struct {
	m   move.Move
	pos position.Position
}

func pseudoMoves(p *position.Position) (res []move.Move) {
	defer func() {
		if recover() != nil {
			res = nil
		}
	}()
	ml := move.NewMoveList()
	p.GeneratePseudoLegalMoves(ml)
	out := make([]move.Move, 0, ml.Length())
	for i := uint8(0); i < ml.Length(); i++ {
		out = append(out, *ml.Get(i))
	}
	return out
}

func captureMoves(p *position.Position) (res []move.Move) {
	defer func() {
		if recover() != nil {
			res = nil
		}
	}()
	ml := move.NewMoveList()
	p.GeneratePseudoLegalCaptures(ml)
	out := make([]move.Move, 0, ml.Length())
	for i := uint8(0); i < ml.Length(); i++ {
		out = append(out, *ml.Get(i))
	}
	return out
}

// legalMoves is the engine's notion of playable moves (generate, make, IsLegal), as perft and search use it.
func legalMoves(p *position.Position) (out []legalMove) {
	// a changed engine may let a king be captured and then panic in IsInCheck: the generators must survive that
	defer func() {
		if recover() != nil {
			out = nil
		}
	}()
	for _, m := range pseudoMoves(p) {
		q := *p
		q.MakeMove(m)
		if q.IsLegal() {
			out = append(out, legalMove{m, q})
		}
	}
	return out
}

func wordsOf(ms []move.Move) string {
	if len(ms) == 0 {
		return "-"
	}
	ss := make([]string, len(ms))
	for i, m := range ms {
		ss[i] = fmt.Sprint(uint32(m))
	}
	return strings.Join(ss, ",")
}

func perftGo(p *position.Position, d int) int {
	if d == 0 {
		return 1
	}
	n := 0
	for _, m := range pseudoMoves(p) {
		prev := *p
		p.MakeMove(m)
		if p.IsLegal() {
			n += perftGo(p, d-1)
		}
		*p = prev
	}
	return n
}

// checkShape is an independent (mailbox-loop) statement of the C10 consistency clauses
// that do not need attack computation.
func checkShape(p *position.Position) bool {
	var bbs [2][6]uint64
	kings := [2]int{}
	for s := 0; s < 64; s++ {
		pc := uint8(p.PiecesBoard[s])
		if pc == 0 {
			continue
		}
		c := int(pc >> 3)
		t := int(pc&7) - 1
		if c > 1 || t < 0 || t > 5 {
			return false
		}
		bbs[c][t] |= 1 << uint(s)
		if t == 5 {
			kings[c]++
		}
		if t == 0 && (s < 8 || s >= 56) {
			return false
		}
	}
	var all, byc [2]uint64
	_ = all
	for c := 0; c < 2; c++ {
		for t := 0; t < 6; t++ {
			if uint64(p.PiecesBitboard[c][t]) != bbs[c][t] {
				return false
			}
			byc[c] |= bbs[c][t]
		}
		if uint64(p.AllPiecesByColor[c]) != byc[c] {
			return false
		}
	}
	if uint64(p.AllPieces) != byc[0]|byc[1] || byc[0]&byc[1] != 0 {
		return false
	}
	if kings[0] != 1 || kings[1] != 1 {
		return false
	}
	cs := int(p.Castling)
	at := func(s int) uint8 { return uint8(p.PiecesBoard[s]) }
	if cs&1 != 0 && !(at(4) == 6 && at(7) == 4) {
		return false
	}
	if cs&2 != 0 && !(at(4) == 6 && at(0) == 4) {
		return false
	}
	if cs&4 != 0 && !(at(60) == 14 && at(63) == 12) {
		return false
	}
	if cs&8 != 0 && !(at(60) == 14 && at(56) == 12) {
		return false
	}
	if cs < 0 || cs > 15 {
		return false
	}
	if p.EnPassant != 64 {
		e := int(p.EnPassant)
		if e > 63 {
			return false
		}
		if p.SideToMove == types.WHITE {
			if e/8 != 5 || at(e) != 0 || at(e-8) != 9 || at(e+8) != 0 {
				return false
			}
		} else {
			if e/8 != 2 || at(e) != 0 || at(e+8) != 1 || at(e-8) != 0 {
				return false
			}
		}
	}
	if int(p.Ply)%2 != int(p.SideToMove) {
		return false
	}
	return true
}

// inCheckSafe: IsInCheck that reports "in check" when the engine panics (no king of that colour)
func inCheckSafe(p *position.Position, c types.Color) (res bool) {
	defer func() {
		if recover() != nil {
			res = true
		}
	}()
	return p.IsInCheck(c)
}

type posSource struct {
	rng    *Rng
	corpus []string
}

// randomMaterial builds a random placement; legality is decided later by the spec (s.wf).
func (ps *posSource) randomMaterial() string {
	r := ps.rng
	var board [64]byte
	wk := r.Intn(64)
	bk := r.Intn(64)
	for bk == wk || (abs(bk%8-wk%8) <= 1 && abs(bk/8-wk/8) <= 1) {
		bk = r.Intn(64)
	}
	board[wk] = 'K'
	board[bk] = 'k'
	n := r.Intn(14)
	if r.Intn(4) == 0 {
		n = r.Intn(30)
	}
	pieces := "PPPNBRQpppnbrq"
	if r.Intn(5) == 0 {
		pieces = "QQRRNBqqrrnbPp" // promotion heavy
	}
	if r.Intn(12) == 0 {
		// maximal legal material for one side (nine queens, two rooks, bishops, knights) against little
		side := r.Bool()
		skip := []int{1000, 16, 8}[r.Intn(3)]
		for _, pc := range "QQQQQQQQQRRBBNN" {
			if r.Intn(skip) == 0 {
				continue
			}
			for tries := 0; tries < 20; tries++ {
				s := r.Intn(64)
				if board[s] == 0 {
					c := byte(pc)
					if side {
						c += 32
					}
					board[s] = c
					break
				}
			}
		}
		n = r.Intn(3)
	}
	for i := 0; i < n; i++ {
		s := r.Intn(64)
		if board[s] != 0 {
			continue
		}
		pc := pieces[r.Intn(len(pieces))]
		if (pc == 'P' || pc == 'p') && (s < 8 || s >= 56) {
			continue
		}
		board[s] = pc
	}
	var sb strings.Builder
	for rank := 7; rank >= 0; rank-- {
		empty := 0
		for file := 0; file < 8; file++ {
			c := board[rank*8+file]
			if c == 0 {
				empty++
				continue
			}
			if empty > 0 {
				fmt.Fprintf(&sb, "%d", empty)
				empty = 0
			}
			sb.WriteByte(c)
		}
		if empty > 0 {
			fmt.Fprintf(&sb, "%d", empty)
		}
		if rank > 0 {
			sb.WriteByte('/')
		}
	}
	side := "w"
	if r.Bool() {
		side = "b"
	}
	hmc := r.Intn(100)
	if r.Intn(6) == 0 {
		hmc = 95 + r.Intn(20)
	}
	return fmt.Sprintf("%s %s - - %d %d", sb.String(), side, hmc, 1+r.Intn(120))
}

func abs(i int) int {
	if i < 0 {
		return -i
	}
	return i
}

func moveWeight(p *position.Position, m move.Move) int {
	w := 1
	if p.IsCapture(m) {
		w += 2
	}
	if m.GetMoveType() != move.NORMAL {
		w += 4
	}
	if p.PiecesBoard[m.GetSourceSquare()].Type() == types.PAWN {
		w += 1
	}
	if p.PiecesBoard[m.GetSourceSquare()].Type() == types.KING || p.PiecesBoard[m.GetSourceSquare()].Type() == types.ROOK {
		w += 1
	}
	return w
}

// playout plays a random legal game from p and calls visit on every position (with the move list so far).
func (ps *posSource) playout(start string, p position.Position, maxPlies int, visit func(p *position.Position, start string, moves []string) bool) {
	var moves []string
	if !visit(&p, start, moves) {
		return
	}
	for ply := 0; ply < maxPlies; ply++ {
		lms := legalMoves(&p)
		if len(lms) == 0 || p.Ply >= 250 {
			return
		}
		total := 0
		for _, lm := range lms {
			total += moveWeight(&p, lm.m)
		}
		k := ps.rng.Intn(total)
		var pick legalMove
		for _, lm := range lms {
			k -= moveWeight(&p, lm.m)
			if k < 0 {
				pick = lm
				break
			}
		}
		moves = append(moves, pick.m.String())
		p = pick.pos
		if !visit(&p, start, moves) {
			return
		}
	}
}

func sortedUci(lms []legalMove) string {
	if len(lms) == 0 {
		return "-"
	}
	ss := make([]string, len(lms))
	for i, lm := range lms {
		ss[i] = lm.m.String()
	}
	sort.Strings(ss)
	return strings.Join(ss, ",")
}

func multisetEqual(a, b []move.Move) bool {
	if len(a) != len(b) {
		return false
	}
	x := append([]move.Move{}, a...)
	y := append([]move.Move{}, b...)
	sort.Slice(x, func(i, j int) bool { return x[i] < x[j] })
	sort.Slice(y, func(i, j int) bool { return y[i] < y[j] })
	for i := range x {
		if x[i] != y[i] {
			return false
		}
	}
	return true
}

func deepEqual(a, b *position.Position) bool { return *a == *b }

// posFromArg parses the position argument of an operation ("startpos" or hex of a FEN).
func posFromArg(a string) (*position.Position, bool) {
	if a == "startpos" {
		return position.New(), true
	}
	b, err := hexDecode(a)
	if err != nil {
		return nil, false
	}
	var p *position.Position
	if guard(func() { p, err = position.NewFromFen(string(b)) }) || err != nil {
		return nil, false
	}
	return p, true
}

// execChess runs one chess-core operation against the real code and returns the canonical answer.
func execChess(args []string) string {
	switch args[0] {
	case "fen":
		b, err := hexDecode(args[1])
		if err != nil {
			return "bad-op"
		}
		fen := string(b)
		var q *position.Position
		pan := guard(func() { q, err = position.NewFromFen(fen) })
		if pan {
			return "res=panic p.total=0"
		}
		if err != nil {
			return "res=error p.total=1"
		}
		line := fmt.Sprintf("res=ok fen=%s dump=%s p.total=1", fenField(q.ToFen()), dumpPos(q))
		if checkShape(q) && q.Ply < 255 {
			// legal-looking position: printing and parsing again must reproduce every field
			r, err2 := position.NewFromFen(q.ToFen())
			line += fmt.Sprintf(" p.roundtrip=%s", b2s(err2 == nil && deepEqual(r, q)))
			if err2 == nil {
				line += fmt.Sprintf(" p.canon=%s", b2s(r.ToFen() == q.ToFen()))
			}
		}
		return line
	case "gen":
		p, ok := posFromArg(args[1])
		if !ok {
			return "res=badpos"
		}
		pseudo := pseudoMoves(p)
		caps := captureMoves(p)
		lms := legalMoves(p)
		var legalWords, filtered []move.Move
		for _, lm := range lms {
			legalWords = append(legalWords, lm.m)
		}
		for _, m := range pseudo {
			if p.IsCapture(m) {
				filtered = append(filtered, m)
			}
		}
		return fmt.Sprintf("pseudo=%s caps=%s legal=%s legaluci=%s check=%s capsfilter=%s p.c17=%s p.shape=%s",
			wordsOf(pseudo), wordsOf(caps), wordsOf(legalWords), sortedUci(lms), b2s(p.IsInCheck(p.SideToMove)), wordsOf(filtered),
			b2s(multisetEqual(caps, filtered)), b2s(checkShape(p)))
	case "attby":
		p, ok := posFromArg(args[1])
		if !ok {
			return "res=badpos"
		}
		ss := make([]string, 64)
		for s := 0; s < 64; s++ {
			ss[s] = fmt.Sprintf("%016x", uint64(p.SquareAttackedBy(uint8(s))))
		}
		return "attby=" + strings.Join(ss, ",")
	case "mv":
		p, ok := posFromArg(args[1])
		if !ok {
			return "res=badpos"
		}
		w, _ := strconv.ParseUint(args[2], 10, 32)
		m := move.Move(w)
		q := *p
		prev := *p
		if guard(func() { q.MakeMove(m) }) {
			return "res=panic"
		}
		full := q.VerifFullHash()
		line := fmt.Sprintf("res=ok dump=%s fen=%s legal=%s fullhash=%016x str=%s p.hash=%s p.copy=%s",
			dumpPos(&q), fenField(q.ToFen()), b2s(q.IsLegal()), full, m.String(), b2s(full == q.ZobristHash), b2s(deepEqual(&prev, p)))
		if q.IsLegal() {
			r, err := position.NewFromFen(q.ToFen())
			okr := err == nil && (deepEqual(r, &q) || q.Ply == 255)
			line += fmt.Sprintf(" p.reload=%s p.shape=%s", b2s(okr), b2s(checkShape(&q)))
			if err == nil {
				// C12 on positions reached by a move: the attack answers of the successor object are those of the same
				// position set up afresh (whose answers the attby/gen operations compare with the geometric definition)
				same := true
				if guard(func() {
					for sq := 0; sq < 64; sq++ {
						if q.SquareAttackedBy(uint8(sq)) != r.SquareAttackedBy(uint8(sq)) {
							same = false
						}
					}
					for _, c := range []types.Color{types.WHITE, types.BLACK} {
						if q.IsInCheck(c) != r.IsInCheck(c) {
							same = false
						}
					}
				}) {
					same = false
				}
				line += " p.attsame=" + b2s(same)
			}
			back := *p
			var e2 error
			pan2 := guard(func() { e2 = back.MakeMoveFromString(m.String()) })
			line += fmt.Sprintf(" p.strback=%s p.strshape=%s", b2s(!pan2 && e2 == nil && deepEqual(&back, &q)), b2s(pan2 || e2 != nil || checkShape(&back)))
		}
		return line
	case "mvs":
		p, ok := posFromArg(args[1])
		if !ok {
			return "res=badpos"
		}
		b, err := hexDecode(args[2])
		if err != nil {
			return "bad-op"
		}
		q := *p
		var e2 error
		if guard(func() { e2 = q.MakeMoveFromString(string(b)) }) {
			return "res=panic"
		}
		if e2 != nil {
			return "res=error"
		}
		return "res=ok dump=" + dumpPos(&q)
	case "play":
		q, ok := posFromArg(args[1])
		if !ok {
			return "res=badpos"
		}
		hist := []string{}
		for _, m := range args[2:] {
			var err error
			if guard(func() { err = q.MakeMoveFromString(m) }) {
				return "res=panic p.replayable=0"
			}
			if err != nil {
				return "res=error p.replayable=0"
			}
			hist = append(hist, fmt.Sprintf("%016x", q.ZobristHash))
		}
		board := strings.Join(strings.Fields(q.ToFen())[:4], "_")
		// the object reached by the moves generates the same moves and captures, and sees the same attacks, as the same position set up afresh
		same := true
		if r, err := position.NewFromFen(q.ToFen()); err == nil {
			if guard(func() {
				var a1, a2, c1, c2 move.MoveList
				q.GeneratePseudoLegalMoves(&a1)
				r.GeneratePseudoLegalMoves(&a2)
				q.GeneratePseudoLegalCaptures(&c1)
				r.GeneratePseudoLegalCaptures(&c2)
				if a1.String() != a2.String() || c1.String() != c2.String() {
					same = false
				}
				for sq := 0; sq < 64; sq++ {
					if q.SquareAttackedBy(uint8(sq)) != r.SquareAttackedBy(uint8(sq)) {
						same = false
					}
				}
			}) {
				same = false
			}
		}
		return fmt.Sprintf("res=ok dump=%s fen=%s board=%s hist=%s fullhash=%016x p.hash=%s p.shape=%s p.gensame=%s",
			dumpPos(q), fenField(q.ToFen()), board, strings.Join(hist, ","), q.VerifFullHash(), b2s(q.VerifFullHash() == q.ZobristHash), b2s(checkShape(q)), b2s(same))
	case "null":
		p, ok := posFromArg(args[1])
		if !ok {
			return "res=badpos"
		}
		q := *p
		ep := q.MakeNullMove()
		d1 := dumpPos(&q)
		f1 := q.VerifFullHash()
		h1 := q.ZobristHash
		q.UnMakeNullMove(ep)
		return fmt.Sprintf("null=%s nullfull=%016x back=%s same=%s p.nullhash=%s p.nullback=%s",
			d1, f1, dumpPos(&q), b2s(deepEqual(&q, p)), b2s(f1 == h1), b2s(deepEqual(&q, p)))
	case "perft":
		p, ok := posFromArg(args[1])
		if !ok {
			return "res=badpos"
		}
		d, _ := strconv.Atoi(args[2])
		return fmt.Sprintf("perft=%d", perftGo(p, d))
	case "att":
		s64, _ := strconv.Atoi(args[2])
		s := uint8(s64)
		occ, _ := strconv.ParseUint(args[3], 16, 64)
		ob := bitboard.Bitboard(occ)
		var r bitboard.Bitboard
		switch args[1] {
		case "R":
			r = rook.AttacksBySquare(s, ob)
		case "B":
			r = bishop.AttacksBySquare(s, ob)
		case "Q":
			r = queen.AttacksBySquare(s, ob)
		case "WR":
			r = bitboard.Bitboard(rook.VerifWalker(s, occ))
		case "WB":
			r = bitboard.Bitboard(bishop.VerifWalker(s, occ))
		case "N":
			r = knight.AttacksBySquare(s)
		case "K":
			r = king.AttacksBySquare(s)
		case "P0":
			r = pawn.AttacksBySquare(types.WHITE, s)
		case "P1":
			r = pawn.AttacksBySquare(types.BLACK, s)
		case "U0":
			r = pawn.PushesBySquare(types.WHITE, s, ob)
		case "U1":
			r = pawn.PushesBySquare(types.BLACK, s, ob)
		default:
			return "bad-op"
		}
		return fmt.Sprintf("att=%016x", uint64(r))
	case "magic":
		s, _ := strconv.Atoi(args[2])
		ms := rook.VerifMagics()
		if args[1] == "B" {
			ms = bishop.VerifMagics()
		}
		return fmt.Sprintf("mask=%016x shift=%d size=%d dmask=%016x dshift=%d",
			uint64(ms[s].Mask), ms[s].Shift, len(ms[s].Attacks), uint64(ms[s].Mask), ms[s].Shift)
	}
	return "bad-op"
}

// emitPosition writes all per-position operations.
func emitPosition(o *Out, p *position.Position, rng *Rng, heavy bool) {
	fen := p.ToFen()
	h := hexOf(fen)
	o.Stat(fmt.Sprintf("pieces_%02d", bitboard.Bitboard(p.AllPieces).PopulationCount()))
	if p.EnPassant != 64 {
		o.Stat("with_ep")
	}
	if p.Castling != 0 {
		o.Stat("with_castling_rights")
	}
	o.Run("fen " + h)
	// the same placement again with fewer castling rights / without the en passant square / with other counters: each text must be
	// parsed on its own, whatever was parsed before it
	if f := strings.Fields(fen); len(f) == 6 && (f[2] != "-" || f[3] != "-") && (heavy || rng.Intn(2) == 0) {
		g := append([]string{}, f...)
		if g[2] != "-" {
			drop := rng.Intn(len(g[2]))
			g[2] = g[2][:drop] + g[2][drop+1:]
			if g[2] == "" || rng.Intn(3) == 0 {
				g[2] = "-"
			}
		}
		if rng.Intn(2) == 0 {
			g[3] = "-"
		}
		o.Run("fen " + hexOf(strings.Join(g, " ")))
		o.Run("fen " + h)
	}
	o.Run("gen " + h)
	lms := legalMoves(p)
	inCheck := inCheckSafe(p, p.SideToMove)
	if inCheck {
		o.Stat("in_check")
	}
	if len(lms) == 0 {
		o.Stat("terminal")
	}
	for _, lm := range lms {
		switch lm.m.GetMoveType() {
		case move.CASTLING:
			o.Stat("mv_castling")
		case move.EN_PASSANT:
			o.Stat("mv_enpassant")
		case move.PROMOTION:
			o.Stat("mv_promotion")
		}
	}
	o.StatN("legal_moves", len(lms))
	if heavy || rng.Intn(4) == 0 {
		o.Run("attby " + h)
	}
	for _, m := range pseudoMoves(p) {
		if !heavy && rng.Intn(3) != 0 && m.GetMoveType() == move.NORMAL {
			continue
		}
		o.Run(fmt.Sprintf("mv %s %d", h, uint32(m)))
	}
	if !inCheck {
		o.Run("null " + h)
	}
	// a castling move followed by two more plies, played on one position object: what the object answers afterwards must be what a
	// freshly set up position answers (C17/C10/C12 on positions reached by special moves)
	for _, lm := range lms {
		if lm.m.GetMoveType() != move.CASTLING && lm.m.GetMoveType() != move.EN_PASSANT && !(lm.m.GetMoveType() == move.PROMOTION && rng.Intn(4) == 0) {
			continue
		}
		seq := []string{lm.m.String()}
		q := lm.pos
		for k := 0; k < 2; k++ {
			nx := legalMoves(&q)
			if len(nx) == 0 {
				break
			}
			pick := nx[rng.Intn(len(nx))]
			seq = append(seq, pick.m.String())
			q = pick.pos
		}
		o.Run("play " + h + " " + strings.Join(seq, " "))
		o.Stat("special_move_sequences")
	}
}

func attOps(o *Out, rng *Rng, n int) {
	for s := 0; s < 64; s++ {
		for _, k := range []string{"N", "K", "P0", "P1"} {
			o.Run(fmt.Sprintf("att %s %d 0", k, s))
		}
		o.Stat("att_leaper_square")
		o.Run(fmt.Sprintf("magic R %d", s))
		o.Run(fmt.Sprintf("magic B %d", s))
	}
	for i := 0; i < n; i++ {
		s := rng.Intn(64)
		var occ uint64
		switch rng.Intn(4) {
		case 0:
			occ = rng.U64() & rng.U64() & rng.U64()
		case 1:
			occ = rng.U64() & rng.U64()
		case 2:
			occ = rng.U64()
		default:
			occ = rng.U64() & (rook.VerifWalker(uint8(s), 0) | bishop.VerifWalker(uint8(s), 0))
		}
		for _, k := range []string{"R", "B", "Q", "WR", "WB", "U0", "U1"} {
			oc := occ
			if k == "WR" || k == "WB" {
				oc &^= 1 << uint(s) // the walker is only ever called with the origin empty
			}
			o.Run(fmt.Sprintf("att %s %d %016x", k, s, oc))
		}
		o.Stat("att_random_occupancy")
	}
}

// sliderTableOps: every (square, relevant subset) table entry of the running code
// (exhaustive over the occupancy bits that can matter when stride is 1).
func sliderTableOps(o *Out, stride int) {
	for _, k := range []string{"R", "B"} {
		ms := rook.VerifMagics()
		if k == "B" {
			ms = bishop.VerifMagics()
		}
		for s := 0; s < 64; s++ {
			subs := bitboard.AllSubnetsOf(ms[s].Mask)
			for i := 0; i < len(subs); i += stride {
				o.Run(fmt.Sprintf("att %s %d %016x", k, s, uint64(subs[i])))
				o.Stat("att_table_entry")
			}
		}
	}
}

func chessOps(o *Out, seed uint64, n int, tier string, corpusPath string) {
	rng := NewRng(seed)
	ps := &posSource{rng: rng, corpus: readLines(corpusPath)}
	heavy := tier == "thorough"
	for _, fen := range ps.corpus {
		p, err := position.NewFromFen(fen)
		if err != nil {
			continue
		}
		emitPosition(o, p, rng, true)
		o.Stat("src_corpus")
		if len(legalMoves(p)) <= 60 {
			o.Run(fmt.Sprintf("perft %s 2", hexOf(fen)))
		}
	}
	count := 0
	for count < n {
		switch rng.Intn(10) {
		case 0, 1, 2:
			fen := ps.randomMaterial()
			p, err := position.NewFromFen(fen)
			if err != nil {
				continue
			}
			if inCheckSafe(p, types.SwitchColor(p.SideToMove)) {
				continue // cheap pre-filter; the spec decides finally (s.wf)
			}
			o.Stat("src_random_material")
			ps.playout(fen, *p, rng.Intn(12), func(q *position.Position, _ string, _ []string) bool {
				emitPosition(o, q, rng, heavy)
				count++
				return count < n
			})
		default:
			start := "startpos"
			var p position.Position
			if rng.Intn(3) == 0 && len(ps.corpus) > 0 {
				fen := ps.corpus[rng.Intn(len(ps.corpus))]
				q, err := position.NewFromFen(fen)
				if err != nil {
					continue
				}
				p = *q
				start = fen
			} else {
				p = *position.New()
			}
			o.Stat("src_playout")
			var lastMoves []string
			ps.playout(start, p, 20+rng.Intn(120), func(q *position.Position, st string, mv []string) bool {
				lastMoves = mv
				if rng.Intn(3) == 0 || heavy {
					emitPosition(o, q, rng, heavy)
					count++
				}
				return count < n
			})
			if len(lastMoves) > 0 {
				st := "startpos"
				if start != "startpos" {
					st = hexOf(start)
				}
				o.Run("play " + st + " " + strings.Join(lastMoves, " "))
				o.Stat("games")
				o.StatN("game_plies", len(lastMoves))
			}
		}
	}
	// long games (C03 quantifies over games up to 600 plies): beyond the width of the uint8 move counters, far inside the
	// history array; the board part of the state is compared with the spec, the counters with the model (they wrap)
	nlong := 2
	if heavy {
		nlong = 4 // per chunk of the thorough tier (16 chunks)
	}
	for g, tries := 0, 0; g < nlong && tries < 10*nlong; tries++ {
		moves := longGame(rng)
		if g == 0 && tries < 5 {
			moves = longGameOf(rng, 600) // the full length C03 names
			if len(moves) < 600 {
				continue
			}
		}
		if len(moves) > 255 {
			o.Run("play startpos " + strings.Join(moves, " "))
			o.Stat("long_games")
			o.StatN("game_plies", len(moves))
			g++
		}
	}
	depth, np := 3, 4
	if heavy {
		depth, np = 4, 12
	}
	for i := 0; i < np && i < len(ps.corpus); i++ {
		d := depth
		if i == 0 && heavy {
			d = 5
		}
		o.Run(fmt.Sprintf("perft %s %d", hexOf(ps.corpus[i]), d))
		o.Stat("perft")
	}
}

// edgeOps: for every square of the black (resp. white) king and every enemy piece kind on every square from which that kind
// geometrically attacks or nearly attacks it, one `gen` operation: check detection and legal moves against the spec.
// Exhaustive over (king square, attacker kind, attacker square, colour) for lone attackers.
func edgeOps(o *Out, seed uint64, n int) {
	rng := NewRng(seed)
	kinds := "PNBRQK"
	count := 0
	for ks := 0; ks < 64; ks++ {
		for ki, kc := range kinds {
			for as := 0; as < 64; as++ {
				if as == ks {
					continue
				}
				df, dr := abs(as%8-ks%8), abs(as/8-ks/8)
				near := false
				switch kc {
				case 'P':
					near = df == 1 && dr == 1
					if as/8 == 0 || as/8 == 7 {
						near = false
					}
				case 'N':
					near = (df == 1 && dr == 2) || (df == 2 && dr == 1)
				case 'K':
					near = df <= 2 && dr <= 2 && (df == 2 || dr == 2) // kings two apart: opposition
				case 'B':
					near = df == dr
				case 'R':
					near = df == 0 || dr == 0
				case 'Q':
					near = df == dr || df == 0 || dr == 0
				}
				if !near {
					continue
				}
				// thin out the sliders in the quick tier
				if (kc == 'B' || kc == 'R' || kc == 'Q') && n < 100000 && rng.Intn(4) != 0 {
					continue
				}
				for col := 0; col < 2; col++ {
					var board [64]byte
					kingCh, attCh, okingCh := byte('k'), byte(kc), byte('K')
					if col == 1 {
						kingCh, attCh, okingCh = 'K', byte(kc)+32, 'k'
					}
					board[ks] = kingCh
					if kc == 'K' {
						board[as] = okingCh
					} else {
						board[as] = attCh
						// the attacker's king far away from both
						placed := false
						for _, c := range []int{0, 7, 56, 63, 27, 36} {
							if c != ks && c != as && abs(c%8-ks%8) > 1 || abs(c/8-ks/8) > 1 {
								if board[c] == 0 {
									board[c] = okingCh
									placed = true
									break
								}
							}
						}
						if !placed {
							continue
						}
					}
					var sb strings.Builder
					for rank := 7; rank >= 0; rank-- {
						empty := 0
						for file := 0; file < 8; file++ {
							c := board[rank*8+file]
							if c == 0 {
								empty++
								continue
							}
							if empty > 0 {
								fmt.Fprintf(&sb, "%d", empty)
								empty = 0
							}
							sb.WriteByte(c)
						}
						if empty > 0 {
							fmt.Fprintf(&sb, "%d", empty)
						}
						if rank > 0 {
							sb.WriteByte('/')
						}
					}
					side := "b"
					if col == 1 {
						side = "w"
					}
					fen := fmt.Sprintf("%s %s - - 0 1", sb.String(), side)
					o.Run("gen " + hexOf(fen))
					o.Stat("edge_positions_" + string(kinds[ki]))
					count++
				}
			}
		}
	}
	_ = count
}

// longGame: a random legal game from the start position of 260..600 plies (shorter if it ends), preferring quiet piece moves so that it lasts
func longGame(rng *Rng) []string {
	return longGameOf(rng, 260+rng.Intn(341))
}

// longGameOf: the same with a given target length (600 = the upper end of the range C03 quantifies over)
func longGameOf(rng *Rng, target int) []string {
	p := *position.New()
	var moves []string
	for len(moves) < target {
		lms := legalMoves(&p)
		if len(lms) == 0 {
			break
		}
		pick := lms[rng.Intn(len(lms))]
		for try := 0; try < 3 && (p.PiecesBoard[pick.m.GetTargetSquare()] != types.NO_PIECE || p.PiecesBoard[pick.m.GetSourceSquare()].Type() == types.PAWN); try++ {
			pick = lms[rng.Intn(len(lms))]
		}
		moves = append(moves, pick.m.String())
		p = pick.pos
	}
	return moves
}
