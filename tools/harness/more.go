package main

// Further operation families added after the first round of seeded changes:
// malformed FEN stream, hash distinctness pairs, evaluation cache table driven directly,
// sequential UCI dialogues, timed searches.

import (
	"bufio"
	"context"
	"fmt"
	"os"
	"strconv"
	"strings"
	"sync/atomic"
	"time"

	"github.com/shaardie/clemens/pkg/evaluation"
	"github.com/shaardie/clemens/pkg/position"
	"github.com/shaardie/clemens/pkg/search"
	"github.com/shaardie/clemens/pkg/types"
	"github.com/shaardie/clemens/pkg/uci"
	"github.com/shaardie/clemens/pkg/uci/game"
)

func execMore(args []string) string {
	switch args[0] {
	case "hashdiff":
		p, ok := posFromArg(args[1])
		q, ok2 := posFromArg(args[2])
		if !ok || !ok2 {
			return "res=badpos"
		}
		return fmt.Sprintf("h1=%016x h2=%016x p.distinct=%s", p.ZobristHash, q.ZobristHash, b2s(p.ZobristHash != q.ZobristHash))
	case "ecache":
		evaluation.VerifResetCache()
		var outs []string
		exact := true
		saved := map[uint64]int{}
		for _, a := range args[1:] {
			f := strings.Split(a, ":")
			h, _ := strconv.ParseUint(f[1], 16, 64)
			if f[0] == "s" {
				sc, _ := strconv.Atoi(f[2])
				evaluation.VerifCacheSave(h, int16(sc))
				saved[h] = sc
			} else {
				sc, found := evaluation.VerifCacheGet(h)
				outs = append(outs, fmt.Sprintf("%d/%s", sc, b2s(found)))
				// a hit may only ever return what was saved under exactly this hash
				if found {
					if v, ok := saved[h]; !ok || v != int(sc) {
						if !(h == 0 && sc == 0) {
							exact = false
						}
					}
				}
			}
		}
		o := "-"
		if len(outs) > 0 {
			o = strings.Join(outs, ";")
		}
		return fmt.Sprintf("out=%s p.keyexact=%s", o, b2s(exact))
	case "dialog":
		return execDialog(args[1:])
	case "timed":
		// timed <pos> <kind> <ms>: wall-clock of a search with a movetime / clock limit
		p, ok := posFromArg(args[1])
		if !ok {
			return "res=badpos"
		}
		ms, _ := strconv.Atoi(args[3])
		sp := search.SearchParameter{}
		switch args[2] {
		case "movetime":
			sp.MoveTime = ms
		case "clock":
			sp.WTime, sp.BTime = ms, ms
		case "line":
			// the limits as the go-line parser delivers them (depth and time limits combined, in either order)
			if len(args) < 5 {
				return "bad-op"
			}
			b, _ := hexDecode(args[4])
			var pn bool
			pn = guard(func() { captureStdout(func() { sp = game.VerifParseGo(strings.Fields(string(b))) }) })
			if pn {
				return "p.intime=0"
			}
		}
		// a genuine overrun repeats; a scheduling hiccup of a loaded machine does not: up to three attempts
		ok2 := false
		for attempt := 0; attempt < 3 && !ok2; attempt++ {
			// reference: what the one unavoidable depth-1 search costs on this position
			s0 := search.NewSearch(*p)
			t0 := time.Now()
			captureStdout(func() { s0.Search(newCountCtx(0), search.SearchParameter{Depth: 1, Infinite: true}) })
			ref := time.Since(t0)
			s := search.NewSearch(*p)
			t1 := time.Now()
			// watchdog: a search that ignores its limit is cancelled (well after the limit) and, should it ignore even that, abandoned
			wctx, wcancel := context.WithTimeout(context.Background(), time.Duration(ms)*time.Millisecond+3*time.Second)
			fin := make(chan struct{})
			go func() {
				captureStdout(func() { s.Search(wctx, sp) })
				close(fin)
			}()
			select {
			case <-fin:
			case <-time.After(time.Duration(ms)*time.Millisecond + 8*time.Second):
			}
			wcancel()
			el := time.Since(t1)
			slack := 60*time.Millisecond + 3*ref
			ok2 = el <= time.Duration(ms)*time.Millisecond+slack
		}
		return fmt.Sprintf("p.intime=%s", b2s(ok2))
	}
	return "bad-op"
}

// legalUciSet: the legal moves of the position a `position …` line sets up (by the engine's own generator), nil if it sets none
// posFromCommand replays a `position` command with the library functions on a fresh position; complete=false when a move of
// the list was rejected (the engine then keeps the moves made so far)
func posFromCommand(line string) (p *position.Position, complete bool) {
	p, complete, _ = posAndHistoryFromCommand(line)
	return
}

// posAndHistoryFromCommand: also the hash after each move of the list (the game history the engine keeps for repetition detection)
func posAndHistoryFromCommand(line string) (p *position.Position, complete bool, hist []uint64) {
	toks := uci.VerifPrepareInput(line)
	if len(toks) < 2 || toks[0] != "position" {
		return nil, false, nil
	}
	rest := toks[1:]
	switch rest[0] {
	case "startpos":
		p = position.New()
		rest = rest[1:]
	case "fen":
		if len(rest) < 7 {
			return nil, false, nil
		}
		q, err := position.NewFromFen(strings.Join(rest[1:7], " "))
		if err != nil {
			return nil, false, nil
		}
		p = q
		rest = rest[7:]
	default:
		return nil, false, nil
	}
	complete = true
	if len(rest) > 1 && rest[0] == "moves" {
		for _, mv := range rest[1:] {
			var err error
			if guard(func() { err = p.MakeMoveFromString(mv) }) || err != nil {
				complete = false
				break
			}
			hist = append(hist, p.ZobristHash)
		}
	}
	return p, complete, hist
}

func legalUciSet(line string) map[string]bool {
	p, _ := posFromCommand(line)
	if p == nil {
		return nil
	}
	set := map[string]bool{}
	lms := legalMoves(p)
	for _, lm := range lms {
		set[lm.m.String()] = true
	}
	if len(lms) == 0 {
		set["a1a1"] = true
	}
	return set
}

func classifyOut(out string) string {
	var sb strings.Builder
	for _, l := range strings.Split(out, "\n") {
		l = strings.TrimSpace(l)
		switch {
		case l == "":
		case l == "readyok":
			sb.WriteByte('R')
		case l == "uciok":
			sb.WriteByte('U')
		case strings.HasPrefix(l, "bestmove"):
			sb.WriteByte('B')
		case strings.HasPrefix(l, "info string no position is set"):
			sb.WriteByte('N')
		case strings.HasPrefix(l, "info string wrong idle state"):
			sb.WriteByte('W')
		case strings.HasPrefix(l, "info string no new position set"):
			sb.WriteByte('E')
		case strings.HasPrefix(l, "info string fen string to short"):
			sb.WriteByte('S')
		case strings.HasPrefix(l, "info string broken fen"):
			sb.WriteByte('F')
		case strings.HasPrefix(l, "info string error while making move"):
			sb.WriteByte('M')
		case strings.HasPrefix(l, "info string calculated timeout"), strings.HasPrefix(l, "info depth"), strings.HasPrefix(l, "info string windows"),
			strings.HasPrefix(l, "id "):
		case strings.HasPrefix(l, "info string"):
			sb.WriteByte('G')
		default:
			sb.WriteByte('?')
		}
	}
	if sb.Len() == 0 {
		return "-"
	}
	return sb.String()
}

// execDialog feeds the lines to the real line handler; after every line it waits until no search is running.
func execDialog(lines []string) string {
	old := os.Stdout
	r, w, _ := os.Pipe()
	os.Stdout = w
	done := make(chan string)
	var bestSeen int64
	go func() {
		var sb strings.Builder
		sc := bufio.NewScanner(r)
		sc.Buffer(make([]byte, 1<<20), 1<<20)
		for sc.Scan() {
			l := sc.Text()
			sb.WriteString(l)
			sb.WriteByte('\n')
			if strings.HasPrefix(l, "bestmove") {
				atomic.AddInt64(&bestSeen, 1)
			}
		}
		done <- sb.String()
	}()
	panicked := false
	hung := false
	uci.VerifNewGame()
	// which answers are legal for the k-th accepted go (by the position set before it)
	var curLegal map[string]bool
	var expectLegal []map[string]bool
	posExact := true
	for _, lh := range lines {
		b, _ := hexDecode(lh)
		line := string(b)
		var wantPos *position.Position
		var wantHist []uint64
		if t := uci.VerifPrepareInput(line); len(t) > 0 {
			if t[0] == "position" && game.VerifState(uci.VerifGame()) != 2 {
				if q, complete, h := posAndHistoryFromCommand(line); q != nil && complete {
					wantPos, wantHist = q, h
				}
			}
			if t[0] == "position" && game.VerifState(uci.VerifGame()) != 2 {
				if set := legalUciSet(line); set != nil {
					curLegal = set
				}
			} else if t[0] == "ucinewgame" {
				curLegal = nil
			} else if t[0] == "go" && game.VerifState(uci.VerifGame()) == 1 {
				expectLegal = append(expectLegal, curLegal)
			}
		}
		// the handler runs in its own goroutine so that a handler that never returns (a lock that is never
		// released) is noticed instead of hanging the harness
		res := make(chan bool, 1)
		go func() { res <- guard(func() { uci.VerifHandleInput(line) }) }()
		select {
		case pn := <-res:
			if pn {
				panicked = true
			}
		case <-time.After(5 * time.Second):
			hung = true
		}
		if panicked || hung {
			break
		}
		if wantPos != nil {
			// C03: the position the engine will search is exactly the one the command describes
			if sr := game.VerifSearch(uci.VerifGame()); sr == nil || sr.Pos.ToFen() != wantPos.ToFen() || sr.Pos.ZobristHash != wantPos.ZobristHash {
				posExact = false
			} else {
				// the game so far (what repetition detection sees): the position after each move of the list, in order
				got := sr.VerifHistory()
				if len(got) != len(wantHist) {
					posExact = false
				}
				for i := range wantHist {
					if i < len(got) && got[i] != wantHist[i] {
						posExact = false
					}
				}
			}
		}
		// let a started search finish (sequential mode)
		deadline := time.Now().Add(8 * time.Second)
		for game.VerifState(uci.VerifGame()) == 2 {
			if time.Now().After(deadline) {
				hung = true
				break
			}
			time.Sleep(200 * time.Microsecond)
		}
		if hung {
			break
		}
		// the bestmove line is printed right after the flag went back to idle: wait for it (the GUI does the same)
		dl2 := time.Now().Add(3 * time.Second)
		for atomic.LoadInt64(&bestSeen) < int64(len(expectLegal)) && time.Now().Before(dl2) {
			time.Sleep(100 * time.Microsecond)
		}
	}
	time.Sleep(2 * time.Millisecond)
	os.Stdout = old
	w.Close()
	out := <-done
	r.Close()
	if panicked {
		return "out=PANIC p.nopanic=0"
	}
	if hung {
		uci.VerifNewGame() // leave the stuck game object behind
		return "out=HUNG p.nopanic=1 p.answered=0"
	}
	bestLegal := true
	k := 0
	for _, l := range strings.Split(out, "\n") {
		f := strings.Fields(l)
		if len(f) >= 2 && f[0] == "bestmove" {
			if k < len(expectLegal) && expectLegal[k] != nil && !expectLegal[k][f[1]] {
				bestLegal = false
			}
			k++
		}
	}
	// every accepted go is answered by exactly one bestmove
	return "out=" + classifyOut(out) + " p.nopanic=1 p.answered=1 p.bestlegal=" + b2s(bestLegal) + " p.onebest=" + b2s(k == len(expectLegal)) + " p.posexact=" + b2s(posExact)
}

// ---------- generators ----------

func fenFuzzOps(o *Out, seed uint64, n int, corpus string) {
	rng := NewRng(seed)
	base := readLines(corpus)
	var pool []string
	forEachPosition(rng, 200, corpus, o, func(p *position.Position) { pool = append(pool, p.ToFen()) })
	pool = append(pool, base...)
	inserts := []string{" ", "  ", "/", "//", "9", "8", "0", "1", "K", "k", "P", "p", "x", "-", "w", "b", "KQkq", "e3", "e9", "i3", "a", "\xff", "\xc3", "٣", "１", "½", "99999999999999999999", "-1", "+1", "256", "300", "\t"}
	for i := 0; i < n; i++ {
		s := pool[rng.Intn(len(pool))]
		k := 1 + rng.Intn(3)
		for j := 0; j < k; j++ {
			b := []byte(s)
			switch rng.Intn(7) {
			case 0: // delete a byte
				if len(b) > 0 {
					d := rng.Intn(len(b))
					b = append(b[:d:d], b[d+1:]...)
				}
			case 1: // insert something
				d := rng.Intn(len(b) + 1)
				ins := inserts[rng.Intn(len(inserts))]
				b = append(b[:d:d], append([]byte(ins), b[d:]...)...)
			case 2: // replace a field
				f := strings.Split(string(b), " ")
				if len(f) > 0 {
					f[rng.Intn(len(f))] = inserts[rng.Intn(len(inserts))]
				}
				b = []byte(strings.Join(f, " "))
			case 3: // drop a field (keeping or not keeping the blank)
				f := strings.Split(string(b), " ")
				if len(f) > 1 {
					d := rng.Intn(len(f))
					if rng.Bool() {
						f[d] = ""
					} else {
						f = append(f[:d:d], f[d+1:]...)
					}
				}
				b = []byte(strings.Join(f, " "))
			case 4: // change a byte
				if len(b) > 0 {
					b[rng.Intn(len(b))] = byte(rng.Intn(256))
				}
			case 5: // duplicate a rank / add ranks
				f := strings.Split(string(b), " ")
				f[0] = f[0] + "/" + strings.Split(f[0], "/")[0]
				b = []byte(strings.Join(f, " "))
			case 6: // counters at their limits
				f := strings.Split(string(b), " ")
				if len(f) == 6 {
					f[4] = []string{"0", "99", "100", "255", "256", "-1"}[rng.Intn(6)]
					f[5] = []string{"0", "1", "127", "128", "129", "255", "9999"}[rng.Intn(7)]
				}
				b = []byte(strings.Join(f, " "))
			}
			s = string(b)
		}
		if strings.ContainsAny(s, "\n\r") {
			continue
		}
		o.Run("fen " + hexOf(s))
		o.Stat("fuzzed_fen")
	}
	for _, s := range []string{"", " ", "     ", "      ", "w", "8/8/8/8/8/8/8/8 w - - 0 1", "9P w - - 0 1", "8/8/8/8/8/8/8/8/P w - - 0 1", "4k3/8/8/8/8/8/8/4K3  - - 0 1"} {
		o.Run("fen " + hexOf(s))
	}
}

func hashdiffOps(o *Out, seed uint64, n int, corpus string) {
	rng := NewRng(seed)
	// every en passant file and every castling right, on fixed skeletons
	for f := 0; f < 8; f++ {
		file := string(rune('a' + f))
		o.Run("hashdiff " + hexOf("4k3/8/8/pppppppp/8/8/8/4K3 w - - 0 1") + " " + hexOf("4k3/8/8/pppppppp/8/8/8/4K3 w - "+file+"6 0 1"))
		o.Run("hashdiff " + hexOf("4k3/8/8/8/PPPPPPPP/8/8/4K3 b - - 0 1") + " " + hexOf("4k3/8/8/8/PPPPPPPP/8/8/4K3 b - "+file+"3 0 1"))
		for g := f + 1; g < 8; g++ {
			o.Run("hashdiff " + hexOf("4k3/8/8/pppppppp/8/8/8/4K3 w - "+file+"6 0 1") + " " + hexOf("4k3/8/8/pppppppp/8/8/8/4K3 w - "+string(rune('a'+g))+"6 0 1"))
		}
	}
	rights := []string{"-", "K", "Q", "k", "q", "KQ", "Kk", "Kq", "Qk", "Qq", "kq", "KQk", "KQq", "Kkq", "Qkq", "KQkq"}
	for i, a := range rights {
		for _, b := range rights[i+1:] {
			o.Run("hashdiff " + hexOf("r3k2r/8/8/8/8/8/8/R3K2R w "+a+" - 0 1") + " " + hexOf("r3k2r/8/8/8/8/8/8/R3K2R w "+b+" - 0 1"))
		}
	}
	forEachPosition(rng, n, corpus, o, func(p *position.Position) {
		fen := p.ToFen()
		f := strings.Split(fen, " ")
		// side
		other := "w"
		if f[1] == "w" {
			other = "b"
		}
		if f[3] == "-" {
			o.Run("hashdiff " + hexOf(fen) + " " + hexOf(withField(fen, 1, other)))
		} else {
			o.Run("hashdiff " + hexOf(fen) + " " + hexOf(withField(fen, 3, "-")))
		}
		if f[2] != "-" {
			o.Run("hashdiff " + hexOf(fen) + " " + hexOf(withField(fen, 2, "-")))
			if len(f[2]) > 1 {
				o.Run("hashdiff " + hexOf(fen) + " " + hexOf(withField(fen, 2, f[2][1:])))
			}
		}
		// one piece removed (not a king)
		for tries := 0; tries < 5; tries++ {
			s := rng.Intn(64)
			pc := p.PiecesBoard[s]
			if pc == types.NO_PIECE || pc.Type() == types.KING {
				continue
			}
			q := *p
			q.DeletePiece(uint8(s))
			o.Run("hashdiff " + hexOf(fen) + " " + hexOf(withField(withField(q.ToFen(), 2, "-"), 3, "-")))
			break
		}
		o.Stat("positions")
	})
}

func ecacheOps(o *Out, seed uint64, n int) {
	rng := NewRng(seed)
	size := evaluation.VerifCacheSize()
	for i := 0; i < n; i++ {
		base := rng.U64()
		// hashes that share the slot, the low 48 / low 32 bits, or nothing
		variants := []uint64{base, base + size, base + size*uint64(1+rng.Intn(1000)), base ^ (1 << 63), base ^ (1 << 48), base ^ (uint64(rng.Intn(65535)+1) << 48),
			base ^ (1 << 32), base ^ (uint64(rng.Intn(1<<16)+1) << 40), rng.U64(), base + 1}
		var ops []string
		for k := 3 + rng.Intn(12); k > 0; k-- {
			h := variants[rng.Intn(len(variants))]
			if rng.Intn(2) == 0 {
				ops = append(ops, fmt.Sprintf("s:%016x:%d", h, rng.Intn(4000)-2000))
			} else {
				ops = append(ops, fmt.Sprintf("g:%016x", h))
			}
		}
		o.Run("ecache " + strings.Join(ops, " "))
		o.Stat("cache_histories")
	}
}

func dialogOps(o *Out, seed uint64, n int, corpus string) {
	rng := NewRng(seed)
	fens := readLines(corpus)
	// finished games: exactly one answer (the null move) also when the side to move is checkmated or stalemated
	for _, fen := range fens {
		p, err := position.NewFromFen(fen)
		if err != nil || inCheckSafe(p, types.SwitchColor(p.SideToMove)) || len(legalMoves(p)) > 0 {
			continue
		}
		for _, g := range []string{"go depth 2", "go movetime 30", "go wtime 100 btime 100"} {
			o.Run("dialog " + hexOf("position fen "+fen) + " " + hexOf(g) + " " + hexOf("isready"))
			o.Stat("terminal_root_dialogues")
		}
	}
	// a second position on the same game object, searched with an immediate timeout (the answer must come from the new position)
	for i := 0; i < 6; i++ {
		a, b := fens[rng.Intn(len(fens))], fens[rng.Intn(len(fens))]
		o.Run("dialog " + hexOf("position fen "+a) + " " + hexOf("go depth 3") + " " + hexOf("position fen "+b) + " " + hexOf([]string{"go movetime 1", "go wtime 1 btime 1", "go wtime 30 btime 30"}[rng.Intn(3)]))
	}
	// game dialogues: successive `position` commands on one game object describing prefixes of one legal game — growing,
	// shrinking (take back), repeated, without the move list — with searches in between; and games whose current position
	// occurred before (the root is a repetition)
	ps := &posSource{rng: rng, corpus: fens}
	for i := 0; i < n/2; i++ {
		start := "startpos"
		p := *position.New()
		if rng.Intn(3) == 0 {
			fen := fens[rng.Intn(len(fens))]
			q, err := position.NewFromFen(fen)
			if err != nil || inCheckSafe(q, types.SwitchColor(q.SideToMove)) {
				continue
			}
			start, p = "fen "+fen, *q
		}
		var game []string
		if rng.Intn(4) == 0 {
			// shuffle pieces out and back so that positions repeat
			for _, cyc := range [][]string{{"g1f3", "g8f6", "f3g1", "f6g8"}, {"b1c3", "b8c6", "c3b1", "c6b8"}} {
				q := p
				ok := true
				for _, mv := range cyc {
					found := false
					for _, lm := range legalMoves(&q) {
						if lm.m.String() == mv {
							q, found = lm.pos, true
							break
						}
					}
					if !found {
						ok = false
						break
					}
				}
				if ok {
					game = append(game, cyc...)
					game = append(game, cyc[:rng.Intn(3)*2]...)
					break
				}
			}
		}
		if len(game) == 0 {
			ps.playout("", p, 2+rng.Intn(10), func(_ *position.Position, _ string, moves []string) bool {
				game = append([]string{}, moves...)
				return true
			})
		}
		if len(game) == 0 {
			continue
		}
		cmd := func(k int) string {
			if k <= 0 {
				return "position " + start
			}
			return "position " + start + " moves " + strings.Join(game[:k], " ")
		}
		var lines []string
		k := 1 + rng.Intn(len(game))
		for j := 2 + rng.Intn(5); j > 0; j-- {
			lines = append(lines, hexOf(cmd(k)))
			switch rng.Intn(5) {
			case 0:
				lines = append(lines, hexOf([]string{"go depth 1", "go depth 2", "go depth 3", "go movetime 1"}[rng.Intn(4)]))
			case 1:
				lines = append(lines, hexOf("isready"))
			}
			switch rng.Intn(4) {
			case 0:
				k = 0
			case 1:
				k = rng.Intn(len(game) + 1)
			default:
				k = min(len(game), k+1+rng.Intn(2))
			}
		}
		lines = append(lines, hexOf(cmd(len(game))), hexOf([]string{"go depth 2", "go depth 3"}[rng.Intn(2)]))
		o.Run("dialog " + strings.Join(lines, " "))
		o.Stat("game_dialogues")
	}
	// a long game (more plies than the uint8 counters hold) through the real position handler
	for i, tries := 0, 0; i < 1+n/300 && tries < 20; tries++ {
		moves := longGame(rng)
		if i == 0 {
			// the first one has the full length the property names (600 plies): every per-game array of the handler is exercised to that bound
			moves = longGameOf(rng, 600)
			if len(moves) < 600 {
				continue
			}
		}
		if len(moves) <= 255 {
			continue
		}
		i++
		cut := 200 + rng.Intn(len(moves)-200)
		o.Run("dialog " + hexOf("position startpos moves "+strings.Join(moves[:cut], " ")) + " " + hexOf("go depth 1") + " " +
			hexOf("position startpos moves "+strings.Join(moves, " ")) + " " + hexOf("go depth 2") + " " + hexOf("isready"))
		o.Stat("long_game_dialogues")
	}
	garbage := []string{"xyzzy", "joho", "1234", "Go", "POSITION"}
	for i := 0; i < n; i++ {
		var lines []string
		k := 2 + rng.Intn(7)
		for j := 0; j < k; j++ {
			var l string
			switch rng.Intn(12) {
			case 0:
				l = "isready"
			case 1:
				l = "uci"
			case 2:
				l = "ucinewgame"
			case 3, 4:
				l = "position startpos"
				if rng.Bool() {
					l += " moves e2e4 e7e5"
				}
			case 5:
				l = "position fen " + fens[rng.Intn(len(fens))]
			case 6:
				l = []string{"position", "position fen 8/8/8 w", "position fen x/8/8/8/8/8/8/8 w - - 0 1", "position startpos moves", "position startpos moves e2e5x",
					"position startpos moves e2", "position startpos moves z9z9 e2e4", "position startpos moves e2e4 i1i2", "position startpos moves e2e4 e7", "position startpos moves e2e"}[rng.Intn(10)]
			case 7, 8:
				l = []string{"go depth 1", "go depth 2", "go movetime 1", "go wtime 1 btime 1", "go depth 1 nodes 5", "go depth 1 mate 2 wtime abc", "go depth"}[rng.Intn(7)]
			case 9:
				l = "stop"
			case 10:
				l = []string{"debug on", "setoption name Hash value 32", "ponderhit", "foo bar", "", "   ", "stopp", "register later"}[rng.Intn(8)]
			case 11:
				l = garbage[rng.Intn(len(garbage))] + " " + []string{"isready", "stop", "position startpos", "go depth 1"}[rng.Intn(4)]
			}
			lines = append(lines, hexOf(l))
		}
		o.Run("dialog " + strings.Join(lines, " "))
		o.Stat("dialogues")
	}
}

func timedOps(o *Out, seed uint64, n int, corpus string) {
	rng := NewRng(seed)
	fens := readLines(corpus)
	for i := 0; i < n; i++ {
		fen := fens[rng.Intn(len(fens))]
		kind := []string{"movetime", "clock", "line"}[rng.Intn(3)]
		ms := []int{1, 3, 5, 8, 12, 20, 30, 45, 60, 90, 150}[rng.Intn(11)]
		if kind == "line" {
			l := []string{"depth 40 movetime %d", "movetime %d depth 40", "depth 40 wtime %d btime %d", "wtime %d btime %d depth 40",
				"winc 0 movetime %d", "wtime %d btime %d movestogo 3", "depth 200 winc 1 binc 1 wtime %d btime %d", "nodes 5 movetime %d", "mate 3 depth 50 movetime %d"}[rng.Intn(9)]
			l = strings.ReplaceAll(l, "%d", strconv.Itoa(ms))
			o.Run(fmt.Sprintf("timed %s line %d %s", hexOf(fen), ms, hexOf(l)))
			continue
		}
		o.Run(fmt.Sprintf("timed %s %s %d", hexOf(fen), kind, ms))
	}
}
