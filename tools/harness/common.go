package main

import (
	"bufio"
	"encoding/hex"
	"fmt"
	"os"
	"strings"

	"github.com/shaardie/clemens/pkg/position"
)

// Rng is a splitmix64 generator; every random choice of the harness comes from one of these.
type Rng struct{ s uint64 }

func NewRng(seed uint64) *Rng { return &Rng{s: seed*0x9E3779B97F4A7C15 + 0x1234567} }
func (r *Rng) U64() uint64 {
	r.s += 0x9E3779B97F4A7C15
	z := r.s
	z = (z ^ (z >> 30)) * 0xBF58476D1CE4E5B9
	z = (z ^ (z >> 27)) * 0x94D049BB133111EB
	return z ^ (z >> 31)
}
func (r *Rng) Intn(n int) int {
	if n <= 0 {
		return 0
	}
	return int(r.U64() % uint64(n))
}
func (r *Rng) Bool() bool { return r.U64()&1 == 1 }

// Out collects the two aligned streams: operations for the Lean driver and what the Go code answered.
type Out struct {
	ops, gof *bufio.Writer
	n        int
	stats    map[string]int
	cur      *os.File // the operation being executed, for the post-mortem when the engine kills the process
}

func NewOut(opsPath, goPath string) *Out {
	fo, err := os.Create(opsPath)
	if err != nil {
		panic(err)
	}
	fg, err := os.Create(goPath)
	if err != nil {
		panic(err)
	}
	cur, _ := os.Create(opsPath + ".cur")
	return &Out{ops: bufio.NewWriterSize(fo, 1<<20), gof: bufio.NewWriterSize(fg, 1<<20), stats: map[string]int{}, cur: cur}
}

func (o *Out) Emit(op string, goOut string) {
	if strings.ContainsAny(op, "\n\r") || strings.ContainsAny(goOut, "\n\r") {
		panic("newline in protocol line")
	}
	fmt.Fprintln(o.ops, op)
	fmt.Fprintln(o.gof, goOut)
	o.n++
}

// Run executes op against the real code and records both lines.
func (o *Out) Run(op string) {
	// a panic in a goroutine the engine started itself cannot be recovered: leave the operation where the check finds it
	if o.cur != nil {
		o.cur.Truncate(0)
		o.cur.WriteAt([]byte(op+"\n"), 0)
	}
	o.Emit(op, execOp(op))
	o.stats["op_"+strings.SplitN(op, " ", 2)[0]]++
}
func (o *Out) Stat(k string)         { o.stats[k]++ }
func (o *Out) StatN(k string, n int) { o.stats[k] += n }
func (o *Out) Close(statsPath string) {
	o.ops.Flush()
	o.gof.Flush()
	if o.cur != nil {
		o.cur.Truncate(0)
		o.cur.Close()
	}
	if statsPath != "" {
		f, _ := os.Create(statsPath)
		defer f.Close()
		for k, v := range o.stats {
			fmt.Fprintf(f, "%s %d\n", k, v)
		}
	}
}

func hexOf(s string) string {
	if s == "" {
		return "-"
	}
	return hex.EncodeToString([]byte(s))
}

func fenField(s string) string { return strings.ReplaceAll(s, " ", "_") }

// dumpPos is the canonical dump of every field of a Position (same format as the Lean driver).
func dumpPos(p *position.Position) string {
	var sb strings.Builder
	for c := 0; c < 2; c++ {
		for t := 0; t < 6; t++ {
			if c+t > 0 {
				sb.WriteByte(',')
			}
			fmt.Fprintf(&sb, "%016x", uint64(p.PiecesBitboard[c][t]))
		}
	}
	fmt.Fprintf(&sb, ";%016x,%016x,%016x;", uint64(p.AllPieces), uint64(p.AllPiecesByColor[0]), uint64(p.AllPiecesByColor[1]))
	for s := 0; s < 64; s++ {
		fmt.Fprintf(&sb, "%x", uint8(p.PiecesBoard[s])&15)
	}
	fmt.Fprintf(&sb, ";%d,%d,%d,%d,%d;%016x", int(p.SideToMove), int(p.Castling), p.EnPassant, p.HalfMoveClock, p.Ply, p.ZobristHash)
	return sb.String()
}

// guard runs f and reports whether it panicked.
func guard(f func()) (panicked bool) {
	defer func() {
		if r := recover(); r != nil {
			panicked = true
		}
	}()
	f()
	return false
}

func b2s(b bool) string {
	if b {
		return "1"
	}
	return "0"
}

func readLines(path string) []string {
	data, err := os.ReadFile(path)
	if err != nil {
		return nil
	}
	var out []string
	for _, l := range strings.Split(string(data), "\n") {
		l = strings.TrimSpace(l)
		if l == "" || strings.HasPrefix(l, "#") {
			continue
		}
		out = append(out, l)
	}
	return out
}

func hexDecode(s string) ([]byte, error) {
	if s == "-" {
		return []byte{}, nil
	}
	return hex.DecodeString(s)
}

// execOp interprets one operation line against the real code; a panic inside the engine is
// reported as such instead of killing the harness.
func execOp(op string) (out string) {
	args := strings.Fields(op)
	if len(args) == 0 {
		return "empty"
	}
	defer func() {
		if r := recover(); r != nil {
			out = "res=panic harness_recovered=1"
		}
	}()
	switch args[0] {
	case "fen", "gen", "attby", "mv", "mvs", "play", "null", "perft", "att", "magic":
		return execChess(args)
	case "search", "judge", "deep", "deepseq":
		return execSearch(args)
	case "hashdiff", "ecache", "dialog", "timed":
		return execMore(args)
	case "conc":
		return execConc(args[1:])
	case "perftbin", "procuci":
		return execProc(args)
	case "facts":
		return "facts=1"
	case "eval", "evalc", "see", "tt", "order", "time", "go", "gof", "gotime", "prep":
		return execEngine(args)
	}
	return "bad-op"
}
