package main

import (
	"fmt"
	"os"
)

func usage() {
	fmt.Fprintln(os.Stderr, "usage: harness dump <dir> | ops <family> <seed> <n> <opsfile> <gofile> | ...")
	os.Exit(2)
}

func main() {
	if len(os.Args) < 2 {
		usage()
	}
	switch os.Args[1] {
	case "dump":
		if len(os.Args) < 3 {
			usage()
		}
		dumpLean(os.Args[2])
	default:
		usage()
	}
}
