package main

import (
	"fmt"
	"os"
	"strconv"
)

func usage() {
	fmt.Fprintln(os.Stderr, "usage: harness dump <dir> | ops <family> <seed> <n> <tier> <opsfile> <gofile> <statsfile>")
	os.Exit(2)
}

func main() {
	if len(os.Args) < 2 {
		usage()
	}
	switch os.Args[1] {
	case "dump":
		if len(os.Args) < 3 {
			usage()
		}
		dumpLean(os.Args[2])
	case "facts":
		// the source facts of tie T2 with the event sequences they were read from (VERIF_REPO selects the tree)
		names, vals, src := uciFacts()
		for i, n := range names {
			fmt.Printf("%-34s %v\n", n, vals[i])
		}
		fmt.Print(src)
	case "ops":
		if len(os.Args) < 9 {
			usage()
		}
		family := os.Args[2]
		seed, _ := strconv.ParseUint(os.Args[3], 10, 64)
		n, _ := strconv.Atoi(os.Args[4])
		tier := os.Args[5]
		o := NewOut(os.Args[6], os.Args[7])
		corpus := os.Getenv("VERIF_CORPUS")
		if corpus == "" {
			corpus = "/verif/corpus"
		}
		switch family {
		case "chess":
			chessOps(o, seed, n, tier, corpus+"/fens.txt")
		case "attacks":
			attOps(o, NewRng(seed), n)
			stride := 53
			if tier == "thorough" {
				stride = 1
			}
			sliderTableOps(o, stride)
		case "eval":
			evalOps(o, seed, n, corpus+"/fens.txt")
		case "evalc":
			evalcOps(o, seed, n, corpus+"/fens.txt")
		case "see":
			seeOps(o, seed, n, corpus+"/fens.txt")
		case "tt":
			ttOps(o, seed, n)
		case "order":
			orderOps(o, seed, n, corpus+"/fens.txt")
		case "time":
			timeOps(o, seed, n)
		case "go":
			goOps(o, seed, n)
		case "gotime":
			goTimeOps(o, seed, n)
		case "fenfuzz":
			fenFuzzOps(o, seed, n, corpus+"/fens.txt")
		case "hashdiff":
			hashdiffOps(o, seed, n, corpus+"/fens.txt")
		case "ecache":
			ecacheOps(o, seed, n)
		case "dialog":
			dialogOps(o, seed, n, corpus+"/fens.txt")
		case "timed":
			timedOps(o, seed, n, corpus+"/fens.txt")
		case "conc":
			concOps(o, seed, n)
		case "edges":
			edgeOps(o, seed, n)
		case "seebat":
			seeBatteryOps(o, seed, n)
		case "proc":
			procOps(o, seed, n, corpus+"/fens.txt")
		case "deep":
			deepOps(o, seed, n, corpus+"/fens.txt")
		case "search":
			searchOps(o, seed, n, tier, corpus+"/fens.txt")
		default:
			usage()
		}
		o.Close(os.Args[8])
	case "exec":
		// exec <opsfile> <gofile>: run the given operation lines (replay / corpus of past failures)
		if len(os.Args) < 4 {
			usage()
		}
		o := NewOut(os.Args[2]+".echo", os.Args[3])
		for _, l := range readLines(os.Args[2]) {
			o.Run(l)
		}
		o.Close("")
		os.Remove(os.Args[2] + ".echo")
	default:
		usage()
	}
}
