package main

// Evaluation, SEE, transposition table, move ordering, time budget and go-parser operations.

import (
	"fmt"
	"io"
	"os"
	"sort"
	"strconv"
	"strings"

	"github.com/shaardie/clemens/pkg/evaluation"
	"github.com/shaardie/clemens/pkg/move"
	"github.com/shaardie/clemens/pkg/position"
	"github.com/shaardie/clemens/pkg/search"
	"github.com/shaardie/clemens/pkg/search/transpositiontable"
	"github.com/shaardie/clemens/pkg/types"
	"github.com/shaardie/clemens/pkg/uci"
	"github.com/shaardie/clemens/pkg/uci/game"
)

// mirrorFen: board flipped top to bottom, colours and side to move swapped (harness-side statement of the C15 mirror).
func mirrorFen(fen string) string {
	f := strings.Split(fen, " ")
	ranks := strings.Split(f[0], "/")
	for i, j := 0, len(ranks)-1; i < j; i, j = i+1, j-1 {
		ranks[i], ranks[j] = ranks[j], ranks[i]
	}
	swap := func(s string) string {
		b := []byte(s)
		for i, c := range b {
			if c >= 'a' && c <= 'z' {
				b[i] = c - 32
			} else if c >= 'A' && c <= 'Z' {
				b[i] = c + 32
			}
		}
		return string(b)
	}
	side := "w"
	if f[1] == "w" {
		side = "b"
	}
	cast := "-"
	if f[2] != "-" {
		sw := swap(f[2])
		c := ""
		for _, ch := range "KQkq" {
			if strings.ContainsRune(sw, ch) {
				c += string(ch)
			}
		}
		cast = c
	}
	ep := f[3]
	if ep != "-" {
		ep = string(ep[0]) + string('1'+('8'-ep[1]))
	}
	return strings.Join([]string{swap(strings.Join(ranks, "/")), side, cast, ep, f[4], f[5]}, " ")
}

func signOf(v int) int {
	if v < 0 {
		return -1
	}
	if v > 0 {
		return 1
	}
	return 0
}

// captureStdout runs f with os.Stdout redirected and returns what was printed.
func captureStdout(f func()) (out string, panicked bool) {
	old := os.Stdout
	r, w, err := os.Pipe()
	if err != nil {
		panic(err)
	}
	os.Stdout = w
	done := make(chan string)
	go func() {
		b, _ := io.ReadAll(r)
		done <- string(b)
	}()
	panicked = guard(f)
	os.Stdout = old
	w.Close()
	out = <-done
	r.Close()
	return
}

var goMsgTable = []struct{ text, canon string }{
	{"info string searchmoves not implemented", "notimpl:searchmoves"},
	{"info string white time missing", "missing:wtime"}, {"info string white time broken", "broken:wtime"},
	{"info string black time missing", "missing:btime"}, {"info string black time broken", "broken:btime"},
	{"info string white increment time missing", "missing:winc"}, {"info string white increment time broken", "broken:winc"},
	{"info string black increment time missing", "missing:binc"}, {"info string black increment time broken", "broken:binc"},
	{"info string moves to go missing", "missing:movestogo"}, {"info string moves to go broken", "broken:movestogo"},
	{"info string movetime missing", "missing:movetime"}, {"info string movetime broken", "broken:movetime"},
	{"info string depth missing", "missing:depth"}, {"info string depth broken", "broken:depth"},
	{"info string nodes missing", "missing:nodes"}, {"info string nodes broken", "broken:nodes"},
	{"info string nodes limit not implemented", "notimpl:nodes"},
	{"info string mate missing", "missing:mate"}, {"info string mate broken", "broken:mate"},
	{"info string mate not implemented", "notimpl:mate"},
	{"info string unknown go command", "unknown"},
}

func canonGoMsgs(out string) string {
	var ms []string
	for _, l := range strings.Split(out, "\n") {
		l = strings.TrimSpace(l)
		if l == "" {
			continue
		}
		c := "other"
		for _, e := range goMsgTable {
			if strings.HasPrefix(l, e.text) {
				c = e.canon
				break
			}
		}
		ms = append(ms, c)
	}
	if len(ms) == 0 {
		return "-"
	}
	return strings.Join(ms, ";")
}

func spStr(sp search.SearchParameter) string {
	return fmt.Sprintf("%d,%d,%d,%d,%d,%d,%d,%s", sp.WTime, sp.BTime, sp.WInc, sp.BInc, sp.MovesToGo, sp.Depth, sp.MoveTime, b2s(sp.Infinite))
}

var ttDirty = true

func execEngine(args []string) string {
	switch args[0] {
	case "eval":
		p, ok := posFromArg(args[1])
		q, ok2 := posFromArg(args[2])
		if !ok || !ok2 {
			return "res=badpos"
		}
		if len(args) > 3 {
			// evaluate another position first through the public entry point (fills the cache)
			if pre, ok3 := posFromArg(args[3]); ok3 {
				evaluation.Evaluation(pre)
			}
		}
		var raw, mir int16
		if guard(func() { raw = evaluation.VerifEvalUncached(p); mir = evaluation.VerifEvalUncached(q) }) {
			return "raw=panic mirror=panic"
		}
		mf, _ := hexDecode(args[2])
		bound := int(raw) < int(evaluation.INF)-100 && int(raw) > -int(evaluation.INF)+100
		// the public entry point (with whatever the cache holds from earlier operations) must be symmetric too
		pub, pubm := evaluation.Evaluation(p), evaluation.Evaluation(q)
		return fmt.Sprintf("raw=%d mirror=%d mirrorfen=%s p.mirror=%s p.bound=%s p.mirrorpub=%s", raw, mir, fenField(string(mf)), b2s(raw == mir), b2s(bound), b2s(pub == pubm))
	case "evalc":
		// "depends only on the position": the history is evaluated in the given order and, from a cleared cache again, in the
		// reverse order; every position must get the same score at each of its occurrences in both passes, and that score
		// must be the uncached one
		var poss []*position.Position
		for _, a := range args[1:] {
			p, ok := posFromArg(a)
			if !ok {
				return "res=badpos"
			}
			poss = append(poss, p)
		}
		evaluation.VerifResetCache()
		var scores, raws []string
		transparent := true
		seenScore := map[string]int16{}
		note := func(a string, v int16) {
			if old, ok := seenScore[a]; ok && old != v {
				transparent = false
			}
			seenScore[a] = v
		}
		for i, a := range args[1:] {
			s := evaluation.Evaluation(poss[i])
			r := evaluation.VerifEvalUncached(poss[i])
			scores = append(scores, fmt.Sprint(s))
			raws = append(raws, fmt.Sprint(r))
			if s != r {
				transparent = false
			}
			note(a, s)
		}
		evaluation.VerifResetCache()
		for i := len(poss) - 1; i >= 0; i-- {
			note(args[1+i], evaluation.Evaluation(poss[i]))
		}
		// the same on one position object that is used the way the search uses it: evaluate, null move, evaluate, take the
		// null move back, evaluate; make a move on a copy, evaluate — every score must be the score a freshly set up object
		// of that position gets
		object := true
		for i := range poss {
			if i >= 4 {
				break
			}
			p, _ := posFromArg(args[1+i])
			if inCheckSafe(p, p.SideToMove) || inCheckSafe(p, types.SwitchColor(p.SideToMove)) {
				continue
			}
			type obs struct {
				fen string
				v   int16
			}
			var seen []obs
			if guard(func() {
				seen = append(seen, obs{p.ToFen(), evaluation.Evaluation(p)})
				ep := p.MakeNullMove()
				seen = append(seen, obs{p.ToFen(), evaluation.Evaluation(p)})
				p.UnMakeNullMove(ep)
				seen = append(seen, obs{p.ToFen(), evaluation.Evaluation(p)})
				if lms := legalMoves(p); len(lms) > 0 {
					q := *p
					q.MakeMove(lms[len(lms)/2].m)
					seen = append(seen, obs{q.ToFen(), evaluation.Evaluation(&q)})
					seen = append(seen, obs{p.ToFen(), evaluation.Evaluation(p)})
				}
			}) {
				object = false
			}
			for _, o := range seen {
				if q, err := position.NewFromFen(o.fen); err == nil && evaluation.Evaluation(q) != o.v {
					object = false
				}
			}
		}
		return fmt.Sprintf("scores=%s raws=%s p.transparent=%s p.object=%s", strings.Join(scores, ","), strings.Join(raws, ","), b2s(transparent), b2s(object))
	case "see":
		p, ok := posFromArg(args[1])
		if !ok {
			return "res=badpos"
		}
		w, _ := strconv.ParseUint(args[2], 10, 32)
		m := move.Move(w)
		var v int16
		if guard(func() { v = evaluation.StaticExchangeEvaluation(p, &m) }) {
			return "see=panic seesign=panic"
		}
		return fmt.Sprintf("see=%d seesign=%d", v, signOf(int(v)))
	case "tt":
		return execTT(args[1:])
	case "order":
		return execOrder(args[1:])
	case "time":
		iv := make([]int, 8)
		for i := 0; i < 8; i++ {
			iv[i], _ = strconv.Atoi(args[1+i])
		}
		sp := search.SearchParameter{WTime: iv[2], BTime: iv[3], WInc: iv[4], BInc: iv[5], MovesToGo: iv[6], MoveTime: iv[7]}
		side := types.Color(iv[0])
		b := search.VerifCalculateTime(side, iv[1], sp)
		clock := sp.WTime
		if side == types.BLACK {
			clock = sp.BTime
		}
		// the opponent's clock and increment must not matter
		sp2 := sp
		if side == types.BLACK {
			sp2.WTime = sp.WTime*7 + 13
			sp2.WInc = sp.WInc*3 + 977
		} else {
			sp2.BTime = sp.BTime*7 + 13
			sp2.BInc = sp.BInc*3 + 977
		}
		b2 := search.VerifCalculateTime(side, iv[1], sp2)
		return fmt.Sprintf("budget=%d p.ltclock=%s p.ltmovetime=%s p.indep=%s", b,
			b2s(!(clock > 0) || b < clock), b2s(!(sp.MoveTime > 0) || b < sp.MoveTime), b2s(b == b2))
	case "gotime":
		// gotime <side> <plys> <intended movetime|0> <intended clock of the mover|0> <tokens…>: parse the go line, then compute the budget from it
		side, _ := strconv.Atoi(args[1])
		plys, _ := strconv.Atoi(args[2])
		wantMt, _ := strconv.Atoi(args[3])
		wantClock, _ := strconv.Atoi(args[4])
		toks := make([]string, 0, len(args)-5)
		for _, a := range args[5:] {
			b, _ := hexDecode(a)
			toks = append(toks, string(b))
		}
		var sp search.SearchParameter
		_, pan := captureStdout(func() { sp = game.VerifParseGo(toks) })
		if pan {
			return "res=panic"
		}
		b := search.VerifCalculateTime(types.Color(side), plys, sp)
		return fmt.Sprintf("budget=%d p.ltclock=%s p.ltmovetime=%s", b, b2s(!(wantClock > 0) || b < wantClock), b2s(!(wantMt > 0) || b < wantMt))
	case "go":
		toks := make([]string, 0, len(args)-1)
		for _, a := range args[1:] {
			b, _ := hexDecode(a)
			toks = append(toks, string(b))
		}
		var sp search.SearchParameter
		out, pan := captureStdout(func() { sp = game.VerifParseGo(toks) })
		if pan {
			return "res=panic p.total=0"
		}
		// "malformed or missing parameter values are reported": reading the standard items left to right, the first value that is
		// missing or not an integer must produce some line of output (judged only up to the first unknown keyword)
		valueKw := map[string]bool{"wtime": true, "btime": true, "winc": true, "binc": true, "movestogo": true, "movetime": true, "depth": true, "nodes": true, "mate": true}
		mustReport := false
		for i := 0; i < len(toks); i++ {
			if toks[i] == "infinite" {
				continue
			}
			if !valueKw[toks[i]] {
				break
			}
			if i+1 >= len(toks) {
				mustReport = true
				break
			}
			if _, err := strconv.Atoi(toks[i+1]); err != nil {
				mustReport = true
				break
			}
			i++
		}
		reported := !mustReport || strings.TrimSpace(out) != ""
		return fmt.Sprintf("res=ok sp=%s msgs=%s p.total=1 p.reported=%s", spStr(sp), canonGoMsgs(out), b2s(reported))
	case "gof":
		// gof <expected sp> <expected notimpl count> <tokens…>: a grammatical go line with the values it must yield
		toks := make([]string, 0, len(args)-3)
		for _, a := range args[3:] {
			b, _ := hexDecode(a)
			toks = append(toks, string(b))
		}
		var sp search.SearchParameter
		out, pan := captureStdout(func() { sp = game.VerifParseGo(toks) })
		if pan {
			return "res=panic p.total=0 p.faithful=0"
		}
		msgs := canonGoMsgs(out)
		ni := strings.Count(msgs, "notimpl:")
		want, _ := strconv.Atoi(args[2])
		clean := strings.Count(msgs, ";")+1 == ni || msgs == "-"
		return fmt.Sprintf("res=ok sp=%s msgs=%s p.total=1 p.faithful=%s", spStr(sp), msgs, b2s(spStr(sp) == args[1] && ni == want && clean))
	case "prep":
		toks := make([]string, 0, len(args)-1)
		for _, a := range args[1:] {
			b, _ := hexDecode(a)
			toks = append(toks, string(b))
		}
		r := uci.VerifPrepareInput(strings.Join(toks, " "))
		hs := make([]string, len(r))
		for i, t := range r {
			hs[i] = hexOf(t)
		}
		// "unknown leading tokens are skipped": a token that is not, letter for letter, one of the UCI command words is garbage;
		// replacing every such token by another garbage word must not change where the command is found
		uciWords := map[string]bool{"uci": true, "debug": true, "isready": true, "setoption": true, "register": true, "ucinewgame": true,
			"position": true, "go": true, "stop": true, "ponderhit": true, "quit": true}
		repl := make([]string, len(toks))
		for i, t := range toks {
			repl[i] = t
			if !uciWords[t] {
				repl[i] = "zzz"
			}
		}
		r2 := uci.VerifPrepareInput(strings.Join(repl, " "))
		garbageOK := len(r) == len(r2)
		out := "tokens=-"
		if len(hs) > 0 {
			out = "tokens=" + strings.Join(hs, ",")
		}
		return out + " p.garbage=" + b2s(garbageOK)
	}
	return "bad-op"
}

type ttSaveRec struct {
	hash  uint64
	mv    uint32
	depth int
	score int
	nt    int
}

func execTT(ops []string) string {
	if ttDirty {
		transpositiontable.Reset()
	}
	ttDirty = true
	var outs []string
	var log []ttSaveRec
	sound := true
	absent := true
	afterSave := true
	var lastSave *ttSaveRec
	for _, a := range ops {
		f := strings.Split(a, ":")
		switch f[0] {
		case "s":
			h, _ := strconv.ParseUint(f[1], 16, 64)
			mv, _ := strconv.ParseUint(f[2], 10, 32)
			d, _ := strconv.Atoi(f[3])
			sc, _ := strconv.Atoi(f[4])
			nt, _ := strconv.Atoi(f[5])
			age, _ := strconv.Atoi(f[6])
			transpositiontable.PotentiallySave(h, move.Move(mv), uint8(d), int16(sc), transpositiontable.VerifNodeType(uint8(nt)), uint8(age))
			log = append(log, ttSaveRec{h, uint32(mv), d, sc, nt})
			lastSave = &log[len(log)-1]
		case "g":
			h, _ := strconv.ParseUint(f[1], 16, 64)
			al, _ := strconv.Atoi(f[2])
			be, _ := strconv.Atoi(f[3])
			d, _ := strconv.Atoi(f[4])
			ply, _ := strconv.Atoi(f[5])
			sc, use, mv := transpositiontable.Get(h, int16(al), int16(be), uint8(d), uint8(ply))
			outs = append(outs, fmt.Sprintf("%d/%s/%d", sc, b2s(use), uint32(mv)))
			// oracle: the log of saves (independent statement of C14)
			stored := false
			for _, r := range log {
				if r.hash == h {
					stored = true
				}
			}
			if !stored && (use || mv != 0 || sc != 0) {
				absent = false
			}
			if use {
				ok := false
				for _, r := range log {
					if r.hash != h || r.depth < d || r.mv != uint32(mv) {
						continue
					}
					rs := r.score
					// mate range (outside the property's score clause): the stored score is shifted by the ply
					if rs > 32767-100 {
						rs -= ply
					} else if rs < -32767+100 {
						rs += ply
					}
					switch r.nt {
					case 0:
						ok = ok || int(sc) == rs
					case 1:
						ok = ok || (rs <= al && int(sc) == al)
					case 2:
						ok = ok || (rs >= be && int(sc) == be)
					}
				}
				if !ok {
					sound = false
				}
			} else if mv != 0 {
				ok := false
				for _, r := range log {
					if r.hash == h && r.mv == uint32(mv) {
						ok = true
					}
				}
				if !ok {
					sound = false
				}
			}
			if lastSave != nil && lastSave.hash == h {
				// an entry just stored is found by the next probe for it: some entry for h answers (move of a logged save of h)
				found := false
				for _, r := range log {
					if r.hash == h && r.mv == uint32(mv) {
						found = true
					}
				}
				if !found {
					afterSave = false
				}
			}
			lastSave = nil
		}
	}
	o := "-"
	if len(outs) > 0 {
		o = strings.Join(outs, ";")
	}
	return fmt.Sprintf("out=%s p.sound=%s p.absent=%s p.aftersave=%s", o, b2s(sound), b2s(absent), b2s(afterSave))
}

func execOrder(args []string) string {
	p, ok := posFromArg(args[0])
	if !ok {
		return "res=badpos"
	}
	caps := args[1] == "1"
	pv, _ := strconv.ParseUint(args[2], 10, 32)
	tt, _ := strconv.ParseUint(args[3], 10, 32)
	ply, _ := strconv.Atoi(args[4])
	s := search.NewSearch(*p)
	hist, counter := s.VerifHeuristics()
	for _, a := range args[5:] {
		f := strings.Split(a, ":")
		iv := make([]int, len(f))
		for i := 1; i < len(f); i++ {
			iv[i], _ = strconv.Atoi(f[i])
		}
		switch f[0] {
		case "k":
			s.KillerMoves[iv[1]][iv[2]] = move.Move(iv[3])
		case "h":
			hist[iv[1]][iv[2]][iv[3]] = uint16(iv[4])
		case "c":
			counter[iv[1]][iv[2]][iv[3]] = move.Move(iv[4])
		}
	}
	ml := move.NewMoveList()
	if caps {
		p.GeneratePseudoLegalCaptures(ml)
	} else {
		p.GeneratePseudoLegalMoves(ml)
	}
	var gen []move.Move
	for i := uint8(0); i < ml.Length(); i++ {
		gen = append(gen, *ml.Get(i))
	}
	if guard(func() { s.VerifScoreMoves(p, ml, move.Move(pv), move.Move(tt), uint8(ply)) }) {
		return "res=panic"
	}
	var scored, visit []move.Move
	for i := uint8(0); i < ml.Length(); i++ {
		scored = append(scored, *ml.Get(i))
	}
	for i := uint8(0); i < ml.Length(); i++ {
		ml.SortIndex(i)
		visit = append(visit, *ml.Get(i))
	}
	// property: the visit order is a permutation of the generated moves (low 16 bits) in non-increasing score order
	low := func(ms []move.Move) []int {
		r := make([]int, len(ms))
		for i, m := range ms {
			r[i] = int(uint32(m) & 0xFFFF)
		}
		sort.Ints(r)
		return r
	}
	a, b := low(gen), low(visit)
	perm := len(a) == len(b)
	for i := range a {
		if perm && a[i] != b[i] {
			perm = false
		}
	}
	sorted := true
	for i := 1; i < len(visit); i++ {
		if visit[i-1].GetScore() < visit[i].GetScore() {
			sorted = false
		}
	}
	// a scored move prints exactly like the generated move (the search prints scored words in bestmove and pv)
	strok := true
	for _, m := range visit {
		if m.String() != move.Move(uint32(m)&0xFFFF).String() {
			strok = false
		}
	}
	return fmt.Sprintf("scored=%s visit=%s p.perm=%s p.sorted=%s p.strscore=%s", wordsOf(scored), wordsOf(visit), b2s(perm), b2s(sorted), b2s(strok))
}

// ---------- generators ----------

// forEachPosition visits n positions from the corpus, random legal playouts and random-material constructions.
func forEachPosition(rng *Rng, n int, corpusPath string, o *Out, visit func(p *position.Position)) {
	ps := &posSource{rng: rng, corpus: readLines(corpusPath)}
	count := 0
	for _, fen := range ps.corpus {
		p, err := position.NewFromFen(fen)
		if err != nil {
			continue
		}
		visit(p)
		count++
		o.Stat("src_corpus")
	}
	for count < n {
		switch rng.Intn(10) {
		case 0, 1, 2, 3:
			fen := ps.randomMaterial()
			p, err := position.NewFromFen(fen)
			if err != nil || inCheckSafe(p, types.SwitchColor(p.SideToMove)) {
				continue
			}
			o.Stat("src_random_material")
			ps.playout(fen, *p, rng.Intn(6), func(q *position.Position, _ string, _ []string) bool {
				visit(q)
				count++
				return count < n
			})
		default:
			p := *position.New()
			if rng.Intn(3) == 0 && len(ps.corpus) > 0 {
				q, err := position.NewFromFen(ps.corpus[rng.Intn(len(ps.corpus))])
				if err != nil {
					continue
				}
				p = *q
			}
			o.Stat("src_playout")
			ps.playout("", p, 20+rng.Intn(120), func(q *position.Position, _ string, _ []string) bool {
				if rng.Intn(4) == 0 {
					visit(q)
					count++
				}
				return count < n
			})
		}
	}
}

func evalOps(o *Out, seed uint64, n int, corpus string) {
	rng := NewRng(seed)
	forEachPosition(rng, n, corpus, o, func(p *position.Position) {
		fen := p.ToFen()
		o.Run("eval " + hexOf(fen) + " " + hexOf(mirrorFen(fen)))
		o.Stat(fmt.Sprintf("pieces_%02d", p.AllPieces.PopulationCount()))
		if rng.Intn(3) == 0 {
			// the same placement with the half-move clock on both sides of the fifty-move boundary, one after the other
			pair := [][2]string{{"100", "99"}, {"99", "100"}, {"100", "0"}, {"101", "100"}, {"0", "100"}, {"100", "42"}}[rng.Intn(6)]
			// first the placement with one clock (only this one, through the public entry point), then position and mirror with the other clock
			f1, f2 := withField(fen, 4, pair[0]), withField(fen, 4, pair[1])
			o.Run("eval " + hexOf(f2) + " " + hexOf(mirrorFen(f2)) + " " + hexOf(f1))
		}
	})
}

// withField replaces one FEN field.
func withField(fen string, idx int, v string) string {
	f := strings.Split(fen, " ")
	f[idx] = v
	return strings.Join(f, " ")
}

func evalcOps(o *Out, seed uint64, n int, corpus string) {
	rng := NewRng(seed)
	var pool []string
	forEachPosition(rng, n, corpus, o, func(p *position.Position) {
		fen := p.ToFen()
		pool = append(pool, fen)
		if len(pool) < 3 {
			return
		}
		// history: the position with clocks on both sides of 100, without castling rights / en passant, and neighbours
		var hist []string
		variants := []string{
			fen, withField(fen, 4, "99"), withField(fen, 4, "100"), withField(fen, 4, "3"), withField(fen, 4, "120"), withField(fen, 4, "0"),
			withField(fen, 2, "-"), withField(withField(fen, 2, "-"), 4, "101"), withField(fen, 3, "-"),
			pool[rng.Intn(len(pool))], pool[rng.Intn(len(pool))],
		}
		// the same position without one of its pieces (differs in exactly one square), including the corner squares
		for _, s := range []int{63, 56, 7, 0, rng.Intn(64), rng.Intn(64)} {
			pc := p.PiecesBoard[s]
			if pc == types.NO_PIECE || pc.Type() == types.KING {
				continue
			}
			q := *p
			q.DeletePiece(uint8(s))
			variants = append(variants, withField(withField(q.ToFen(), 2, "-"), 3, "-"))
		}
		k := 4 + rng.Intn(12)
		for i := 0; i < k; i++ {
			hist = append(hist, hexOf(variants[rng.Intn(len(variants))]))
		}
		o.Run("evalc " + strings.Join(hist, " "))
		o.Stat("histories")
	})
}

func seeOps(o *Out, seed uint64, n int, corpus string) {
	rng := NewRng(seed)
	forEachPosition(rng, n, corpus, o, func(p *position.Position) {
		h := hexOf(p.ToFen())
		for _, lm := range legalMoves(p) {
			if lm.m.GetMoveType() == move.EN_PASSANT || p.PiecesBoard[lm.m.GetTargetSquare()] == types.NO_PIECE {
				continue
			}
			o.Run(fmt.Sprintf("see %s %d", h, uint32(lm.m)))
			o.Stat("captures")
			if p.PiecesBoard[lm.m.GetSourceSquare()].Type() == types.KING {
				o.Stat("king_captures")
			}
		}
	})
}

func ttOps(o *Out, seed uint64, n int) {
	rng := NewRng(seed)
	nb, _ := transpositiontable.VerifNumberOfBuckets()
	transpositiontable.Reset()
	for i := 0; i < n; i++ {
		// every history lives in its own few buckets, so histories do not interfere and no reset is needed
		base := uint64(i%200000)*4 + 1
		nh := 2 + rng.Intn(9)
		hashes := make([]uint64, nh)
		for j := range hashes {
			b := base + uint64(rng.Intn(2))
			hashes[j] = b + nb*uint64(1+rng.Intn(1<<20))
			if j > 0 && rng.Intn(3) == 0 {
				// the same bucket, all but one bit of the key equal: a single bit above the bucket index flipped (any of them, the
				// lowest ones included)
				bit := uint(20 + rng.Intn(44))
				if rng.Intn(3) == 0 {
					bit = uint(20 + rng.Intn(3))
				}
				hashes[j] = hashes[rng.Intn(j)] ^ (1 << bit)
			}
		}
		k := 4 + rng.Intn(28)
		var ops []string
		scores := []int{-30000, -500, -120, -1, 0, 1, 75, 120, 500, 30000}
		for j := 0; j < k; j++ {
			h := hashes[rng.Intn(nh)]
			if rng.Intn(5) < 3 {
				sc := scores[rng.Intn(len(scores))] + rng.Intn(5) - 2
				if rng.Intn(40) == 0 {
					sc = 32767 - rng.Intn(60) // mate range: outside the property's domain for the score clause, still compared with the model
				}
				if rng.Intn(25) == 0 {
					// the two sides of the boundary of the mate range (|score| = INF-100 is the last ordinary score)
					sc = []int{32667, 32666, 32668, -32667, -32666, -32668}[rng.Intn(6)]
				}
				mv := 1 + rng.Intn(4000)
				if rng.Intn(8) == 0 {
					mv = 0 // the search stores the null move when every legal move was futility-pruned
				}
				ops = append(ops, fmt.Sprintf("s:%016x:%d:%d:%d:%d:%d", h, mv, 1+rng.Intn(8), sc, rng.Intn(3), rng.Intn(120)))
			} else {
				al := scores[rng.Intn(len(scores))] + rng.Intn(5) - 2
				be := al + 1 + rng.Intn(3)*rng.Intn(200)
				ops = append(ops, fmt.Sprintf("g:%016x:%d:%d:%d:%d", h, al, be, 1+rng.Intn(8), rng.Intn(30)))
			}
		}
		ttDirty = false
		o.Run("tt " + strings.Join(ops, " "))
		o.Stat("histories")
		o.StatN("tt_ops", k)
	}
	ttDirty = true
}

func orderOps(o *Out, seed uint64, n int, corpus string) {
	rng := NewRng(seed)
	forEachPosition(rng, n, corpus, o, func(p *position.Position) {
		h := hexOf(p.ToFen())
		ms := pseudoMoves(p)
		if len(ms) == 0 {
			return
		}
		pick := func() uint32 {
			m := uint32(ms[rng.Intn(len(ms))])
			switch rng.Intn(3) {
			case 0:
				return m // clean word: matches a generated move exactly
			case 1:
				return m | uint32(rng.Intn(1200))<<16 // as stored by the search: with score bits
			}
			return 0
		}
		ply := rng.Intn(20)
		var heur []string
		for i := 0; i < 2; i++ {
			if rng.Bool() {
				heur = append(heur, fmt.Sprintf("k:%d:%d:%d", ply, i, pick()))
			}
		}
		for i := rng.Intn(12); i > 0; i-- {
			m := ms[rng.Intn(len(ms))]
			hv := rng.Intn(99)
			switch rng.Intn(6) {
			case 0:
				hv = 900 + rng.Intn(200) // around the PV / TT move scores
			case 1:
				hv = 1000 + rng.Intn(7000) // a history counter after a deep search exceeds every fixed move score
			}
			heur = append(heur, fmt.Sprintf("h:%d:%d:%d:%d", int(p.SideToMove), m.GetSourceSquare(), m.GetTargetSquare(), hv))
			if rng.Bool() {
				heur = append(heur, fmt.Sprintf("c:%d:%d:%d:%d", int(p.SideToMove), m.GetSourceSquare(), m.GetTargetSquare(), uint32(m)))
			}
		}
		for _, caps := range []int{0, 1} {
			o.Run(fmt.Sprintf("order %s %d %d %d %d %s", h, caps, pick(), pick(), ply, strings.Join(heur, " ")))
		}
		o.Stat("positions")
	})
}

func timeOps(o *Out, seed uint64, n int) {
	rng := NewRng(seed)
	grid := []int{0, 1, 2, 9, 10, 49, 50, 51, 55, 56, 60, 99, 100, 101, 499, 500, 501, 555, 556, 999, 1000, 1001, 2000, 60000, 180000, 999999, 1000000, 1000001, 1111111, 86400000, 864000000}
	pick := func() int {
		if rng.Intn(3) == 0 {
			return rng.Intn(2000000)
		}
		return grid[rng.Intn(len(grid))]
	}
	for i := 0; i < n; i++ {
		side := rng.Intn(2)
		plys := rng.Intn(300)
		mt := 0
		if rng.Intn(3) == 0 {
			mt = pick()
		}
		wt, bt := pick(), pick()
		if rng.Intn(8) == 0 {
			wt, bt = 0, 0
		}
		o.Run(fmt.Sprintf("time %d %d %d %d %d %d %d %d", side, plys, wt, bt, pick(), pick(), rng.Intn(60), mt))
	}
}

// goTimeOps: the budget as the `go` command path computes it: standard clock parameters in random order, then the budget function
func goTimeOps(o *Out, seed uint64, n int) {
	rng := NewRng(seed)
	pick := func() int { return []int{1, 30, 100, 1000, 60000, 180000, 2000, 5000}[rng.Intn(8)] }
	for i := 0; i < n; i++ {
		side := rng.Intn(2)
		w, b, wi, bi, mtg := pick(), pick(), pick(), pick(), 1+rng.Intn(40)
		mt := 0
		items := [][]string{{"wtime", fmt.Sprint(w)}, {"btime", fmt.Sprint(b)}, {"winc", fmt.Sprint(wi)}, {"binc", fmt.Sprint(bi)}, {"movestogo", fmt.Sprint(mtg)}}
		if rng.Intn(2) == 0 {
			mt = pick()
			items = append(items, []string{"movetime", fmt.Sprint(mt)})
		}
		if rng.Intn(4) == 0 {
			items = append(items, []string{"depth", "12"})
		}
		// random order
		for j := len(items) - 1; j > 0; j-- {
			k := rng.Intn(j + 1)
			items[j], items[k] = items[k], items[j]
		}
		var hs []string
		for _, it := range items {
			for _, t := range it {
				hs = append(hs, hexOf(t))
			}
		}
		clock := w
		if side == 1 {
			clock = b
		}
		o.Run(fmt.Sprintf("gotime %d %d %d %d %s", side, rng.Intn(120), mt, clock, strings.Join(hs, " ")))
		o.Stat("go_time_lines")
	}
}

func goOps(o *Out, seed uint64, n int) {
	rng := NewRng(seed)
	kws := []string{"wtime", "btime", "winc", "binc", "movestogo", "movetime", "depth", "nodes", "mate"}
	vals := []string{"0", "1", "5", "100", "255", "60000", "-5", "+7", "999999999", "9223372036854775807", "0500", "007", "+0", "-0", "0000", "010", "08"}
	garbage := []string{"abc", "", "12a", "9223372036854775808", "--1", "infinite", "ponder", "searchmoves", "e2e4", "wtime", "\xff\xfe", "１２", "0x10", "1_000", " "}
	for i := 0; i < n; i++ {
		var toks []string
		k := rng.Intn(7)
		mode := rng.Intn(10)
		for j := 0; j < k; j++ {
			switch {
			case rng.Intn(8) == 0:
				toks = append(toks, "infinite")
			default:
				toks = append(toks, kws[rng.Intn(len(kws))])
				toks = append(toks, vals[rng.Intn(len(vals))])
			}
		}
		// mutations: drop a token, insert garbage, duplicate
		if mode >= 6 && len(toks) > 0 {
			switch rng.Intn(4) {
			case 0:
				d := rng.Intn(len(toks))
				toks = append(toks[:d:d], toks[d+1:]...)
			case 1:
				d := rng.Intn(len(toks) + 1)
				g := garbage[rng.Intn(len(garbage))]
				toks = append(toks[:d:d], append([]string{g}, toks[d:]...)...)
			case 2:
				toks = append(toks, kws[rng.Intn(len(kws))])
			case 3:
				toks[rng.Intn(len(toks))] = garbage[rng.Intn(len(garbage))]
			}
			o.Stat("mutated")
		} else {
			o.Stat("grammatical")
		}
		hs := make([]string, 0, len(toks))
		for _, t := range toks {
			if strings.ContainsAny(t, " \t\n") || t == "" {
				continue // strings.Fields never produces such tokens
			}
			hs = append(hs, hexOf(t))
		}
		if mode < 6 {
			// grammatical line: interpret the items left to right (independent statement of the expected parameters)
			var w [8]int64
			inf := len(toks) == 0
			ni := 0
			okDomain := true
			for j := 0; j < len(toks); j++ {
				if toks[j] == "infinite" {
					inf = true
					continue
				}
				v, err := strconv.ParseInt(toks[j+1], 10, 64)
				if err != nil {
					okDomain = false
					break
				}
				switch toks[j] {
				case "wtime":
					w[0] = v
				case "btime":
					w[1] = v
				case "winc":
					w[2] = v
				case "binc":
					w[3] = v
				case "movestogo":
					w[4] = v
				case "depth":
					if v < 0 || v > 255 {
						okDomain = false
					}
					w[5] = v
				case "movetime":
					w[6] = v
				case "nodes", "mate":
					ni++
				}
				j++
			}
			if okDomain {
				exp := fmt.Sprintf("%d,%d,%d,%d,%d,%d,%d,%s", w[0], w[1], w[2], w[3], w[4], w[5], w[6], b2s(inf))
				o.Run(strings.TrimSpace(fmt.Sprintf("gof %s %d %s", exp, ni, strings.Join(hs, " "))))
				continue
			}
		}
		o.Run(strings.TrimSpace("go " + strings.Join(hs, " ")))
	}
	// prefix garbage
	cmds := []string{"uci", "debug", "isready", "setoption", "ucinewgame", "position", "go", "stop", "quit", "ponderhit", "foo", "Go", "isreadyy",
		"Stop", "UCI", "POSITION", "IsReady", "gO", "stop.", "register"}
	for i := 0; i < n/4; i++ {
		var toks []string
		for j := rng.Intn(4); j > 0; j-- {
			toks = append(toks, garbage[rng.Intn(len(garbage))])
		}
		for j := rng.Intn(4); j > 0; j-- {
			toks = append(toks, cmds[rng.Intn(len(cmds))])
		}
		hs := []string{}
		for _, t := range toks {
			if strings.ContainsAny(t, " \t\n") || t == "" || strings.ContainsAny(t, "\xff\xfe") {
				continue
			}
			hs = append(hs, hexOf(t))
		}
		o.Run(strings.TrimSpace("prep " + strings.Join(hs, " ")))
	}
}

// seeBatteryOps: constructed exchange positions: a victim on a central target square, and on the lines, diagonals, knight and
// pawn squares around it random stacks of attackers of both colours (batteries, queens in front of rooks/bishops and behind,
// kings next to the square), so that x-rays and the order of recaptures decide the sign.
func seeBatteryOps(o *Out, seed uint64, n int) {
	rng := NewRng(seed)
	dirs := [][2]int{{0, 1}, {0, -1}, {1, 0}, {-1, 0}, {1, 1}, {1, -1}, {-1, 1}, {-1, -1}}
	made := 0
	for tries := 0; made < n && tries < n*30; tries++ {
		var board [64]byte
		t := (2+rng.Intn(4))*8 + 2 + rng.Intn(4)
		victims := "pnbrq"
		vcol := rng.Intn(2) // colour of the victim: 0 black victim (white captures), 1 white victim
		v := victims[rng.Intn(len(victims))]
		if vcol == 1 {
			v -= 32
		}
		board[t] = v
		put := func(s int, c byte) bool {
			if s < 0 || s > 63 || board[s] != 0 {
				return false
			}
			if (c == 'p' || c == 'P') && (s/8 == 0 || s/8 == 7) {
				return false
			}
			board[s] = c
			return true
		}
		// sparse mode: very few attackers, both kings next to the target (king recaptures decide)
		sparse := rng.Intn(3) == 0
		// sliders stacked on rays
		for _, d := range dirs {
			if rng.Intn(3) == 0 || (sparse && rng.Intn(5) != 0) {
				continue
			}
			diag := d[0] != 0 && d[1] != 0
			f, r := t%8+d[0], t/8+d[1]
			k := 0
			for f >= 0 && f < 8 && r >= 0 && r < 8 && k < 3 {
				if rng.Intn(4) != 0 {
					var c byte
					switch rng.Intn(3) {
					case 0:
						c = 'q'
					default:
						if diag {
							c = 'b'
						} else {
							c = 'r'
						}
					}
					if rng.Bool() {
						c -= 32
					}
					put(r*8+f, c)
					k++
				} else if rng.Intn(3) == 0 {
					break
				}
				f += d[0]
				r += d[1]
			}
		}
		// knights and pawns
		for _, o2 := range [][2]int{{1, 2}, {2, 1}, {2, -1}, {1, -2}, {-1, -2}, {-2, -1}, {-2, 1}, {-1, 2}} {
			if rng.Intn(3) == 0 && !(sparse && rng.Intn(4) != 0) {
				f, r := t%8+o2[0], t/8+o2[1]
				if f >= 0 && f < 8 && r >= 0 && r < 8 {
					c := byte('n')
					if rng.Bool() {
						c = 'N'
					}
					put(r*8+f, c)
				}
			}
		}
		for _, df := range []int{-1, 1} {
			f := t%8 + df
			if f < 0 || f > 7 {
				continue
			}
			if rng.Intn(2) == 0 && !(sparse && rng.Intn(3) != 0) && board[(t/8-1)*8+f] == 0 {
				put((t/8-1)*8+f, 'P') // white pawn attacks upwards
			}
			if rng.Intn(2) == 0 && !(sparse && rng.Intn(3) != 0) && board[(t/8+1)*8+f] == 0 {
				put((t/8+1)*8+f, 'p')
			}
		}
		// kings: sometimes next to the target
		var ksq [2]int
		for c := 0; c < 2; c++ {
			placed := false
			for k := 0; k < 40 && !placed; k++ {
				s := rng.Intn(64)
				if rng.Intn(2) == 0 || sparse {
					d := dirs[rng.Intn(8)]
					f, r := t%8+d[0], t/8+d[1]
					if f < 0 || f > 7 || r < 0 || r > 7 {
						continue
					}
					s = r*8 + f
				}
				if board[s] != 0 {
					continue
				}
				if c == 1 && abs(s%8-ksq[0]%8) <= 1 && abs(s/8-ksq[0]/8) <= 1 {
					continue
				}
				ch := byte('K')
				if c == 1 {
					ch = 'k'
				}
				board[s] = ch
				ksq[c] = s
				placed = true
			}
			if !placed {
				board[t] = 0
			}
		}
		if board[t] == 0 {
			continue
		}
		var sb strings.Builder
		for rank := 7; rank >= 0; rank-- {
			empty := 0
			for file := 0; file < 8; file++ {
				c := board[rank*8+file]
				if c == 0 {
					empty++
					continue
				}
				if empty > 0 {
					fmt.Fprintf(&sb, "%d", empty)
					empty = 0
				}
				sb.WriteByte(c)
			}
			if empty > 0 {
				fmt.Fprintf(&sb, "%d", empty)
			}
			if rank > 0 {
				sb.WriteByte('/')
			}
		}
		side := "w"
		if vcol == 1 {
			side = "b"
		}
		fen := fmt.Sprintf("%s %s - - 0 1", sb.String(), side)
		p, err := position.NewFromFen(fen)
		if err != nil || !checkShape(p) || inCheckSafe(p, types.SwitchColor(p.SideToMove)) {
			continue
		}
		h := hexOf(fen)
		any := false
		for _, lm := range legalMoves(p) {
			if int(lm.m.GetTargetSquare()) != t || lm.m.GetMoveType() == move.EN_PASSANT {
				continue
			}
			o.Run(fmt.Sprintf("see %s %d", h, uint32(lm.m)))
			o.Stat("battery_captures")
			any = true
		}
		if any {
			made++
			o.Stat("battery_positions")
		}
	}
}
