module mutgen

go 1.22.0
