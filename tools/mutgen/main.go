// mutgen: enumerates single-point syntactic mutations of the engine's non-test Go code and writes a sample of them as mutated
// source files (development tool for the mutation sweep of DESIGN §10.9; not used by the registered checks).
//
//	mutgen <repo-root> <out-dir> <seed> <count>
//
// Operators: relational (< <= > >= == !=), arithmetic (+ -), logical (&& ||), shift (<< >>), bitwise (& |), integer literal ±1,
// negated if-condition, deleted statement (call or assignment).
package main

import (
	"bytes"
	"fmt"
	"go/ast"
	"go/parser"
	"go/printer"
	"go/token"
	"math/rand"
	"os"
	"path/filepath"
	"strconv"
	"strings"
)

type site struct {
	file string
	desc string
	// apply mutates the AST in place and returns an undo function
	apply func() func()
	line int
}

func main() {
	if len(os.Args) < 5 {
		fmt.Fprintln(os.Stderr, "usage: mutgen <repo-root> <out-dir> <seed> <count>")
		os.Exit(2)
	}
	root, out := os.Args[1], os.Args[2]
	seed, _ := strconv.ParseInt(os.Args[3], 10, 64)
	count, _ := strconv.Atoi(os.Args[4])
	rng := rand.New(rand.NewSource(seed))
	var files []string
	filepath.Walk(filepath.Join(root, "pkg"), func(p string, info os.FileInfo, err error) error {
		if err != nil || info.IsDir() {
			return nil
		}
		if strings.HasSuffix(p, ".go") && !strings.HasSuffix(p, "_test.go") && !strings.Contains(p, "_verif") && !strings.Contains(p, "/openings/") && !strings.Contains(p, "/metadata/") {
			files = append(files, p)
		}
		return nil
	})
	fset := token.NewFileSet()
	type parsedFile struct {
		path string
		af   *ast.File
	}
	var all []site
	var pfs []parsedFile
	for _, f := range files {
		af, err := parser.ParseFile(fset, f, nil, parser.ParseComments)
		if err != nil {
			continue
		}
		pfs = append(pfs, parsedFile{f, af})
		rel, _ := filepath.Rel(root, f)
		swap := map[token.Token][]token.Token{
			token.LSS: {token.LEQ, token.GEQ}, token.LEQ: {token.LSS}, token.GTR: {token.GEQ, token.LEQ}, token.GEQ: {token.GTR},
			token.EQL: {token.NEQ}, token.NEQ: {token.EQL}, token.ADD: {token.SUB}, token.SUB: {token.ADD},
			token.LAND: {token.LOR}, token.LOR: {token.LAND}, token.SHL: {token.SHR}, token.SHR: {token.SHL},
			token.AND: {token.OR}, token.OR: {token.AND},
		}
		ast.Inspect(af, func(n ast.Node) bool {
			switch x := n.(type) {
			case *ast.GenDecl:
				if x.Tok == token.IMPORT {
					return false
				}
			case *ast.BinaryExpr:
				for _, to := range swap[x.Op] {
					be := x
					from := be.Op
					all = append(all, site{rel, fmt.Sprintf("%s -> %s", from, to), func() func() { be.Op = to; return func() { be.Op = from } }, fset.Position(be.OpPos).Line})
				}
			case *ast.BasicLit:
				if x.Kind == token.INT {
					v, err := strconv.ParseInt(x.Value, 0, 64)
					if err == nil && v < 1<<31 {
						lit := x
						old := lit.Value
						for _, d := range []int64{1, -1} {
							nv := v + d
							if nv < 0 {
								continue
							}
							all = append(all, site{rel, fmt.Sprintf("literal %s -> %d", old, nv), func() func() { lit.Value = strconv.FormatInt(nv, 10); return func() { lit.Value = old } }, fset.Position(lit.Pos()).Line})
						}
					}
				}
			case *ast.IfStmt:
				ifs := x
				old := ifs.Cond
				all = append(all, site{rel, "negate if condition", func() func() {
					ifs.Cond = &ast.UnaryExpr{Op: token.NOT, X: &ast.ParenExpr{X: old}}
					return func() { ifs.Cond = old }
				}, fset.Position(ifs.Pos()).Line})
			case *ast.BlockStmt:
				for i, st := range x.List {
					switch st.(type) {
					case *ast.ExprStmt, *ast.AssignStmt, *ast.IncDecStmt:
						if as, ok := st.(*ast.AssignStmt); ok && as.Tok == token.DEFINE {
							continue // deleting a declaration does not compile
						}
						blk := x
						all = append(all, site{rel, "delete statement", func() func() {
							blk.List[i] = &ast.EmptyStmt{Implicit: false}
							return func() { blk.List[i] = st }
						}, fset.Position(st.Pos()).Line})
					}
				}
			}
			return true
		})
	}
	rng.Shuffle(len(all), func(i, j int) { all[i], all[j] = all[j], all[i] })
	if count > len(all) {
		count = len(all)
	}
	os.MkdirAll(out, 0o755)
	byPath := map[string]*ast.File{}
	for _, pf := range pfs {
		rel, _ := filepath.Rel(root, pf.path)
		byPath[rel] = pf.af
	}
	fmt.Fprintf(os.Stderr, "%d mutation sites, writing %d\n", len(all), count)
	for k := 0; k < count; k++ {
		s := all[k]
		undo := s.apply()
		var buf bytes.Buffer
		(&printer.Config{Mode: printer.UseSpaces | printer.TabIndent, Tabwidth: 8}).Fprint(&buf, fset, byPath[s.file])
		undo()
		d := filepath.Join(out, fmt.Sprintf("m%04d", k))
		os.MkdirAll(d, 0o755)
		os.WriteFile(filepath.Join(d, "file.go"), buf.Bytes(), 0o644)
		os.WriteFile(filepath.Join(d, "meta.txt"), []byte(fmt.Sprintf("%s\n%d\n%s\n", s.file, s.line, s.desc)), 0o644)
	}
}
