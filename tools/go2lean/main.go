// go2lean: translates loop-free, pointer-free integer functions of shaardie/clemens into Lean 4 definitions
// (tie T1 of DESIGN.md).  go/parser + go/types with the source importer, standard library only.
//
//	go2lean <repo-root> <out.lean>
//
// Supported: return, if/else, switch on a value, := / = / op= on locals and parameters (and on *receiver),
// var declarations, panic (becomes the zero value; listed in the output), calls of other translated functions,
// conversions between integer types, max/min.  uintN/intN ↦ BitVec N with Go's semantics, int ↦ Int with
// truncating division, bool ↦ Bool, a struct of integers ↦ a Lean structure.  Anything else is reported
// as "untranslatable" (exit status 3), so that a rewrite that leaves the subset is noticed.
package main

import (
	"fmt"
	"go/ast"
	"go/constant"
	"go/importer"
	"go/parser"
	"go/token"
	"go/types"
	"os"
	"path/filepath"
	"sort"
	"strings"
)

type target struct {
	pkgDir string   // relative to repo root
	ns     string   // Lean namespace component
	funcs  []string // function or Type.Method names
}

var targets = []target{
	{"pkg/types", "types", []string{"RankOfSquare", "FileOfSquare", "SquareFromRankAndFile", "SwitchColor", "Piece.Color", "Piece.Type", "NewPiece"}},
	{"pkg/bitboard", "bitboard", []string{"SouthOne", "NorthOne", "EastOne", "NorthEastOne", "SouthEastOne", "WestOne", "SouthWestOne", "NorthWestOne",
		"NorthFill", "SouthFill", "FileFill", "Intersection", "Union", "Complement", "Difference", "Implication", "SymmetricDifference", "Equivalence", "Majority"}},
	{"pkg/pieces/knight", "knight", []string{"attacks"}},
	{"pkg/pieces/king", "king", []string{"attacks"}},
	{"pkg/pieces/pawn", "pawn", []string{"attacks", "singlePushTargets", "doublePushTargets", "Pushes", "Isolanis", "Doubled", "Passed", "Backwards", "Supported", "Phalanx", "Opposed"}},
	{"pkg/move", "move", []string{"Move.GetSourceSquare", "Move.GetTargetSquare", "Move.GetMoveType", "Move.GetPromitionPieceType", "Move.GetScore", "Move.SetScore",
		"Move.SetSourceSquare", "Move.SetTargetSquare", "Move.SetMoveType", "Move.SetPromitionPieceType"}},
	{"pkg/search/transpositiontable", "tt", []string{"ttEntry.getNodeType", "ttEntry.getAge", "ttEntry.setNodeType", "ttEntry.setAge"}},
	{"pkg/evaluation", "evaluation", []string{"IsCheckmateValue"}},
	{"pkg/search", "search", []string{"calculateTime"}},
}

type tr struct {
	fset   *token.FileSet
	info   *types.Info
	pkg    *types.Package
	ns     string
	fail   []string
	panics []string
	cur    string
	recv   string // name of a pointer receiver (treated as a value)
	g      *gen
	decls  map[string]*ast.FuncDecl
	tmp    int
	// results of the function being translated
	resNames []string
	retZero  string
	counts   map[string]int // how often a name is declared in the current function
}

// gen drives the demand-driven translation: the listed targets first, then every same-module function they call
type gen struct {
	fset         *token.FileSet
	imp          types.Importer
	ctx          map[string]*tr // by package directory
	state        map[string]int // "ns.name": 1 in progress, 2 done, 3 failed
	out          []string       // finished declarations, in dependency order
	structs      map[string]bool
	fails        []string
	isTarget     map[string]bool
	helpers      []string
	untranslated []string
}

func (t *tr) bad(n ast.Node, why string) string {
	t.fail = append(t.fail, fmt.Sprintf("%s: %s at %s", t.cur, why, t.fset.Position(n.Pos())))
	return "(sorryUntranslatable)"
}

// width and signedness of a basic integer type; ok=false for int / non-integers
func bvInfo(ty types.Type) (w int, signed bool, ok bool) {
	b, isB := ty.Underlying().(*types.Basic)
	if !isB {
		return 0, false, false
	}
	switch b.Kind() {
	case types.Uint8:
		return 8, false, true
	case types.Uint16:
		return 16, false, true
	case types.Uint32:
		return 32, false, true
	case types.Uint64, types.Uint, types.Uintptr:
		return 64, false, true
	case types.Int8:
		return 8, true, true
	case types.Int16:
		return 16, true, true
	case types.Int32:
		return 32, true, true
	case types.Int64:
		return 64, true, true
	}
	return 0, false, false
}

func isInt(ty types.Type) bool {
	b, ok := ty.Underlying().(*types.Basic)
	return ok && (b.Kind() == types.Int || b.Kind() == types.UntypedInt)
}

func isBool(ty types.Type) bool {
	b, ok := ty.Underlying().(*types.Basic)
	return ok && (b.Kind() == types.Bool || b.Kind() == types.UntypedBool)
}

func (t *tr) leanType(ty types.Type) string {
	if p, ok := ty.(*types.Pointer); ok {
		ty = p.Elem()
	}
	if w, _, ok := bvInfo(ty); ok {
		return fmt.Sprintf("BitVec %d", w)
	}
	if isInt(ty) {
		return "Int"
	}
	if isBool(ty) {
		return "Bool"
	}
	if n, ok := ty.(*types.Named); ok {
		if st, isS := n.Underlying().(*types.Struct); isS {
			return t.g.structure(n, st, t)
		}
	}
	if tp, ok := ty.(*types.Tuple); ok && tp.Len() > 0 {
		var parts []string
		for i := 0; i < tp.Len(); i++ {
			parts = append(parts, t.leanType(tp.At(i).Type()))
		}
		return "(" + strings.Join(parts, " × ") + ")"
	}
	t.fail = append(t.fail, fmt.Sprintf("%s: unsupported type %s", t.cur, ty.String()))
	return "UNSUPPORTED_TYPE"
}

// structure emits (once) the Lean structure for a Go struct of supported fields and returns its qualified name
func (g *gen) structure(n *types.Named, st *types.Struct, from *tr) string {
	ns := from.ns
	if n.Obj().Pkg() != nil {
		ns = nsOf(n.Obj().Pkg().Path())
	}
	q := ns + "." + n.Obj().Name()
	if !g.structs[q] {
		g.structs[q] = true
		var sb strings.Builder
		sb.WriteString("structure " + q + " where\n")
		for j := 0; j < st.NumFields(); j++ {
			sb.WriteString(fmt.Sprintf("  %s : %s\n", lname(st.Field(j).Name()), from.leanType(st.Field(j).Type())))
		}
		sb.WriteString("deriving Inhabited\n") // `var x T` is the all-zero value: BitVec, Int and Bool default to 0 / false
		g.out = append(g.out, sb.String())
	}
	return q
}

func (t *tr) zero(ty types.Type) string {
	if w, _, ok := bvInfo(ty); ok {
		return fmt.Sprintf("0#%d", w)
	}
	if isInt(ty) {
		return "(0 : Int)"
	}
	if isBool(ty) {
		return "false"
	}
	return "default"
}

func (t *tr) constLit(v constant.Value, ty types.Type) string {
	if isBool(ty) {
		if constant.BoolVal(v) {
			return "true"
		}
		return "false"
	}
	if w, _, ok := bvInfo(ty); ok {
		iv := constant.ToInt(v)
		if constant.Sign(iv) >= 0 {
			return fmt.Sprintf("%s#%d", iv.ExactString(), w)
		}
		return fmt.Sprintf("(BitVec.ofInt %d (%s))", w, iv.ExactString())
	}
	return fmt.Sprintf("(%s : Int)", constant.ToInt(v).ExactString())
}

func lname(s string) string {
	switch s {
	case "end", "at", "from", "then", "else", "if", "fun", "let", "do", "have", "show", "open", "in":
		return s + "'"
	}
	return s
}

func (t *tr) expr(e ast.Expr) string {
	tv := t.info.Types[e]
	if tv.Value != nil && tv.Type != nil {
		return t.constLit(tv.Value, tv.Type)
	}
	switch x := e.(type) {
	case *ast.ParenExpr:
		return "(" + t.expr(x.X) + ")"
	case *ast.Ident:
		return lname(x.Name)
	case *ast.StarExpr:
		return t.expr(x.X)
	case *ast.SelectorExpr:
		// struct field access sp.WTime, or te.field through a pointer receiver
		if sel, ok := t.info.Selections[x]; ok && sel.Kind() == types.FieldVal {
			return t.expr(x.X) + "." + lname(x.Sel.Name)
		}
		return t.bad(e, "selector")
	case *ast.UnaryExpr:
		a := t.expr(x.X)
		switch x.Op {
		case token.XOR:
			return "(~~~" + a + ")"
		case token.SUB:
			return "(-" + a + ")"
		case token.NOT:
			return "(!" + a + ")"
		}
		return t.bad(e, "unary "+x.Op.String())
	case *ast.BinaryExpr:
		a, b := t.expr(x.X), t.expr(x.Y)
		lt := t.info.Types[x.X].Type
		_, signed, isBV := bvInfo(lt)
		switch x.Op {
		case token.AND:
			return "(" + a + " &&& " + b + ")"
		case token.OR:
			return "(" + a + " ||| " + b + ")"
		case token.XOR:
			return "(" + a + " ^^^ " + b + ")"
		case token.AND_NOT:
			return "(" + a + " &&& ~~~" + b + ")"
		case token.ADD:
			return "(" + a + " + " + b + ")"
		case token.SUB:
			return "(" + a + " - " + b + ")"
		case token.MUL:
			return "(" + a + " * " + b + ")"
		case token.QUO:
			if isBV {
				if signed {
					return "(BitVec.sdiv " + a + " " + b + ")"
				}
				return "(" + a + " / " + b + ")"
			}
			return "(Int.tdiv " + a + " " + b + ")"
		case token.REM:
			if isBV {
				if signed {
					return "(BitVec.srem " + a + " " + b + ")"
				}
				return "(" + a + " % " + b + ")"
			}
			return "(Int.tmod " + a + " " + b + ")"
		case token.SHL, token.SHR:
			op := " <<< "
			if x.Op == token.SHR {
				op = " >>> "
				if signed {
					return "(BitVec.sshiftRight " + a + " " + t.shiftAmount(x.Y) + ")"
				}
			}
			return "(" + a + op + t.shiftAmount(x.Y) + ")"
		case token.LAND:
			return "(" + a + " && " + b + ")"
		case token.LOR:
			return "(" + a + " || " + b + ")"
		case token.EQL:
			return "(" + a + " == " + b + ")"
		case token.NEQ:
			return "(" + a + " != " + b + ")"
		case token.LSS, token.GTR, token.LEQ, token.GEQ:
			if isBV && signed {
				switch x.Op {
				case token.LSS:
					return "(BitVec.slt " + a + " " + b + ")"
				case token.GTR:
					return "(BitVec.slt " + b + " " + a + ")"
				case token.LEQ:
					return "(BitVec.sle " + a + " " + b + ")"
				default:
					return "(BitVec.sle " + b + " " + a + ")"
				}
			}
			return "(decide (" + a + " " + x.Op.String() + " " + b + "))"
		}
		return t.bad(e, "binary "+x.Op.String())
	case *ast.CompositeLit:
		// a struct literal of supported fields: positional or keyed; missing fields take their zero value
		n, ok := tv.Type.(*types.Named)
		if !ok {
			return t.bad(e, "composite literal")
		}
		st, ok := n.Underlying().(*types.Struct)
		if !ok {
			return t.bad(e, "composite literal")
		}
		q := t.g.structure(n, st, t)
		vals := map[string]string{}
		for i, el := range x.Elts {
			if kv, ok := el.(*ast.KeyValueExpr); ok {
				if id, ok := kv.Key.(*ast.Ident); ok {
					vals[id.Name] = t.expr(kv.Value)
					continue
				}
				return t.bad(e, "composite literal key")
			}
			if i < st.NumFields() {
				vals[st.Field(i).Name()] = t.expr(el)
			}
		}
		var parts []string
		for i := 0; i < st.NumFields(); i++ {
			f := st.Field(i)
			v, ok := vals[f.Name()]
			if !ok {
				v = t.zero(f.Type())
			}
			parts = append(parts, lname(f.Name())+" := "+v)
		}
		return "({ " + strings.Join(parts, ", ") + " } : " + q + ")"
	case *ast.CallExpr:
		// conversion?
		if ftv, ok := t.info.Types[x.Fun]; ok && ftv.IsType() && len(x.Args) == 1 {
			return t.convert(x.Args[0], ftv.Type)
		}
		if id, ok := x.Fun.(*ast.Ident); ok {
			if _, isBuiltin := t.info.Uses[id].(*types.Builtin); isBuiltin && (id.Name == "max" || id.Name == "min") && len(x.Args) >= 1 {
				// min/max of any arity: folded from the left
				acc := t.expr(x.Args[0])
				for _, a := range x.Args[1:] {
					acc = "(" + id.Name + " " + acc + " " + t.expr(a) + ")"
				}
				return acc
			}
			if obj, ok := t.info.Uses[id].(*types.Func); ok && obj.Pkg() != nil {
				if q, ok := t.g.need(obj); ok {
					return "(" + q + t.args(x.Args) + ")"
				}
				return t.bad(e, "call of untranslatable "+obj.Name())
			}
		}
		if se, ok := x.Fun.(*ast.SelectorExpr); ok {
			if obj, ok := t.info.Uses[se.Sel].(*types.Func); ok && obj.Pkg() != nil {
				sig := obj.Type().(*types.Signature)
				q, ok := t.g.need(obj)
				if !ok {
					return t.bad(e, "call of untranslatable "+obj.Name())
				}
				if sig.Recv() == nil {
					return "(" + q + t.args(x.Args) + ")"
				}
				// method call: the receiver is the first argument
				return "(" + q + " " + t.expr(se.X) + t.args(x.Args) + ")"
			}
		}
		return t.bad(e, "call")
	}
	return t.bad(e, fmt.Sprintf("expression %T", e))
}

func nsOf(path string) string {
	for _, tg := range targets {
		if strings.HasSuffix(path, tg.pkgDir) {
			return tg.ns
		}
	}
	// a package that is not listed: its last path element
	if i := strings.LastIndex(path, "/"); i >= 0 {
		return path[i+1:]
	}
	return path
}

const modulePath = "github.com/shaardie/clemens/"

func (t *tr) args(as []ast.Expr) string {
	var sb strings.Builder
	for _, a := range as {
		sb.WriteString(" " + t.expr(a))
	}
	return sb.String()
}

func (t *tr) shiftAmount(e ast.Expr) string {
	tv := t.info.Types[e]
	if tv.Value != nil {
		i, _ := constant.Int64Val(constant.ToInt(tv.Value))
		return fmt.Sprint(i)
	}
	if _, _, ok := bvInfo(tv.Type); ok {
		return "(" + t.expr(e) + ").toNat"
	}
	return "(" + t.expr(e) + ").toNat"
}

func (t *tr) convert(arg ast.Expr, to types.Type) string {
	from := t.info.Types[arg].Type
	a := t.expr(arg)
	if tv := t.info.Types[arg]; tv.Value != nil {
		return t.constLit(tv.Value, to)
	}
	fw, fsigned, fIsBV := bvInfo(from)
	tw, _, tIsBV := bvInfo(to)
	switch {
	case fIsBV && tIsBV:
		if fw == tw {
			return a
		}
		if fsigned && tw > fw {
			return fmt.Sprintf("(BitVec.signExtend %d %s)", tw, a)
		}
		return fmt.Sprintf("(BitVec.setWidth %d %s)", tw, a)
	case fIsBV && isInt(to):
		if fsigned {
			return "(" + a + ").toInt"
		}
		return "((" + a + ").toNat : Int)"
	case isInt(from) && tIsBV:
		return fmt.Sprintf("(BitVec.ofInt %d %s)", tw, a)
	case isInt(from) && isInt(to):
		return a
	}
	return t.bad(arg, "conversion")
}

// assigned collects the names of already declared variables assigned inside a block
func (t *tr) assigned(b []ast.Stmt, out map[string]bool) {
	for _, s := range b {
		switch x := s.(type) {
		case *ast.AssignStmt:
			if x.Tok != token.DEFINE {
				for _, l := range x.Lhs {
					if id, ok := l.(*ast.Ident); ok {
						out[id.Name] = true
					}
					if st, ok := l.(*ast.StarExpr); ok {
						if id, ok := st.X.(*ast.Ident); ok {
							out[id.Name] = true
						}
					}
				}
			}
		case *ast.IfStmt:
			t.assigned(x.Body.List, out)
			if x.Else != nil {
				if eb, ok := x.Else.(*ast.BlockStmt); ok {
					t.assigned(eb.List, out)
				} else {
					t.assigned([]ast.Stmt{x.Else}, out)
				}
			}
		case *ast.BlockStmt:
			t.assigned(x.List, out)
		}
	}
}

func terminates(b []ast.Stmt) bool {
	if len(b) == 0 {
		return false
	}
	switch x := b[len(b)-1].(type) {
	case *ast.ReturnStmt:
		return true
	case *ast.ExprStmt:
		if c, ok := x.X.(*ast.CallExpr); ok {
			if id, ok := c.Fun.(*ast.Ident); ok && id.Name == "panic" {
				return true
			}
		}
	case *ast.IfStmt:
		if x.Else == nil {
			return false
		}
		eb, ok := x.Else.(*ast.BlockStmt)
		if !ok {
			return terminates(x.Body.List) && terminates([]ast.Stmt{x.Else})
		}
		return terminates(x.Body.List) && terminates(eb.List)
	case *ast.SwitchStmt:
		return false
	}
	return false
}

// block translates statements followed by the continuation text `k` (used when control falls off the end)
func (t *tr) block(b []ast.Stmt, k string, ret types.Type, ind string) string {
	if len(b) == 0 {
		return k
	}
	s, rest := b[0], b[1:]
	switch x := s.(type) {
	case *ast.ReturnStmt:
		if len(x.Results) == 1 {
			return t.expr(x.Results[0])
		}
		if len(x.Results) == 0 {
			if len(t.resNames) > 0 {
				return t.tuple(t.resNames)
			}
			return k
		}
		var parts []string
		for _, r := range x.Results {
			parts = append(parts, t.expr(r))
		}
		return "(" + strings.Join(parts, ", ") + ")"
	case *ast.ExprStmt:
		if c, ok := x.X.(*ast.CallExpr); ok {
			if id, ok := c.Fun.(*ast.Ident); ok && id.Name == "panic" {
				t.panics = append(t.panics, t.cur)
				if t.retZero != "" {
					return t.retZero + " /- Go: panic -/"
				}
				return t.zero(ret) + " /- Go: panic -/"
			}
		}
		return t.bad(s, "expression statement")
	case *ast.DeclStmt:
		gd, ok := x.Decl.(*ast.GenDecl)
		if ok && gd.Tok == token.CONST {
			// local constants are folded into their uses by the type checker
			return t.block(rest, k, ret, ind)
		}
		if !ok || gd.Tok != token.VAR {
			return t.bad(s, "declaration")
		}
		out := ""
		for _, sp := range gd.Specs {
			vs := sp.(*ast.ValueSpec)
			for i, n := range vs.Names {
				val := t.zero(t.info.Defs[n].Type())
				if i < len(vs.Values) {
					val = t.expr(vs.Values[i])
				}
				out += fmt.Sprintf("let %s : %s := %s\n%s", lname(n.Name), t.leanType(t.info.Defs[n].Type()), val, ind)
			}
		}
		return out + t.block(rest, k, ret, ind)
	case *ast.AssignStmt:
		if len(x.Lhs) != 1 || len(x.Rhs) != 1 {
			return t.multiAssign(x, rest, k, ret, ind)
		}
		var name string
		switch l := x.Lhs[0].(type) {
		case *ast.Ident:
			name = l.Name
		case *ast.StarExpr:
			if id, ok := l.X.(*ast.Ident); ok {
				name = id.Name
			}
		}
		if sel, ok := x.Lhs[0].(*ast.SelectorExpr); ok && name == "" && x.Tok == token.ASSIGN {
			// `v.f = e` on a struct held by value (or the pointer receiver, which is threaded as a value): functional record update
			if id, ok := sel.X.(*ast.Ident); ok {
				if _, isVar := t.info.Uses[id].(*types.Var); isVar {
					v := lname(id.Name)
					return fmt.Sprintf("let %s := { %s with %s := %s }\n%s", v, v, lname(sel.Sel.Name), t.expr(x.Rhs[0]), ind) + t.block(rest, k, ret, ind)
				}
			}
		}
		if name == "" {
			return t.bad(s, "assignment target")
		}
		rhs := t.expr(x.Rhs[0])
		cur := lname(name)
		switch x.Tok {
		case token.DEFINE, token.ASSIGN:
		case token.OR_ASSIGN:
			rhs = "(" + cur + " ||| " + rhs + ")"
		case token.AND_ASSIGN:
			rhs = "(" + cur + " &&& " + rhs + ")"
		case token.XOR_ASSIGN:
			rhs = "(" + cur + " ^^^ " + rhs + ")"
		case token.ADD_ASSIGN:
			rhs = "(" + cur + " + " + rhs + ")"
		case token.SUB_ASSIGN:
			rhs = "(" + cur + " - " + rhs + ")"
		case token.MUL_ASSIGN:
			rhs = "(" + cur + " * " + rhs + ")"
		case token.AND_NOT_ASSIGN:
			rhs = "(" + cur + " &&& ~~~" + rhs + ")"
		case token.SHL_ASSIGN:
			rhs = "(" + cur + " <<< " + t.shiftAmount(x.Rhs[0]) + ")"
		case token.SHR_ASSIGN:
			rhs = "(" + cur + " >>> " + t.shiftAmount(x.Rhs[0]) + ")"
		default:
			return t.bad(s, "assignment operator "+x.Tok.String())
		}
		return fmt.Sprintf("let %s := %s\n%s", cur, rhs, ind) + t.block(rest, k, ret, ind)
	case *ast.IfStmt:
		if x.Init != nil {
			// `if v := e; cond {…}`: hoist the init when its names are declared only once in the function (no shadowing)
			as, ok := x.Init.(*ast.AssignStmt)
			if !ok || as.Tok != token.DEFINE {
				return t.bad(s, "if with init")
			}
			for _, l := range as.Lhs {
				if id, ok := l.(*ast.Ident); !ok || (id.Name != "_" && t.counts[id.Name] != 1) {
					return t.bad(s, "if with init (shadowing)")
				}
			}
			y := *x
			y.Init = nil
			return t.block(append([]ast.Stmt{x.Init, &y}, rest...), k, ret, ind)
		}
		cond := t.expr(x.Cond)
		var elseList []ast.Stmt
		if x.Else != nil {
			if eb, ok := x.Else.(*ast.BlockStmt); ok {
				elseList = eb.List
			} else {
				elseList = []ast.Stmt{x.Else}
			}
		}
		thenTerm, elseTerm := terminates(x.Body.List), x.Else != nil && terminates(elseList)
		if thenTerm || elseTerm || len(rest) == 0 {
			// at least one branch leaves: the rest is the continuation of the other(s)
			restTxt := t.block(rest, k, ret, ind+"  ")
			return fmt.Sprintf("if %s then\n%s  %s\n%selse\n%s  %s", cond, ind, t.block(x.Body.List, restTxt, ret, ind+"  "), ind, ind, t.block(elseList, restTxt, ret, ind+"  "))
		}
		// both branches fall through: they only assign; join the assigned variables in a tuple
		vars := map[string]bool{}
		t.assigned(x.Body.List, vars)
		t.assigned(elseList, vars)
		var names []string
		for n := range vars {
			names = append(names, lname(n))
		}
		sort.Strings(names)
		tuple := strings.Join(names, ", ")
		if len(names) != 1 {
			tuple = "(" + tuple + ")"
		}
		return fmt.Sprintf("let %s := if %s then\n%s    %s\n%s  else\n%s    %s\n%s", tuple, cond, ind, t.block(x.Body.List, tuple, ret, ind+"    "), ind, ind,
			t.block(elseList, tuple, ret, ind+"    "), ind) + t.block(rest, k, ret, ind)
	case *ast.SwitchStmt:
		if x.Init != nil {
			return t.bad(s, "switch form")
		}
		for _, c := range x.Body.List {
			for _, st := range c.(*ast.CaseClause).Body {
				if br, ok := st.(*ast.BranchStmt); ok {
					return t.bad(br, "branch statement in switch")
				}
			}
		}
		tag := ""
		if x.Tag != nil {
			tag = t.expr(x.Tag)
		}
		restTxt := t.block(rest, k, ret, ind+"  ")
		out := ""
		var def []ast.Stmt
		for _, c := range x.Body.List {
			cc := c.(*ast.CaseClause)
			if cc.List == nil {
				def = cc.Body
				continue
			}
			var conds []string
			for _, v := range cc.List {
				if x.Tag == nil {
					conds = append(conds, t.expr(v))
				} else {
					conds = append(conds, "("+tag+" == "+t.expr(v)+")")
				}
			}
			out += fmt.Sprintf("if %s then\n%s  %s\n%selse ", strings.Join(conds, " || "), ind, t.block(cc.Body, restTxt, ret, ind+"  "), ind)
		}
		return out + "\n" + ind + "  " + t.block(def, restTxt, ret, ind+"  ")
	case *ast.BlockStmt:
		return t.block(append(append([]ast.Stmt{}, x.List...), rest...), k, ret, ind)
	case *ast.IncDecStmt:
		id, ok := x.X.(*ast.Ident)
		if !ok {
			return t.bad(s, "inc/dec target")
		}
		one := t.constLit(constant.MakeInt64(1), t.info.Types[x.X].Type)
		op := " + "
		if x.Tok == token.DEC {
			op = " - "
		}
		return fmt.Sprintf("let %s := (%s%s%s)\n%s", lname(id.Name), lname(id.Name), op, one, ind) + t.block(rest, k, ret, ind)
	case *ast.EmptyStmt:
		return t.block(rest, k, ret, ind)
	}
	return t.bad(s, fmt.Sprintf("statement %T", s))
}

func (t *tr) tuple(names []string) string {
	if len(names) == 1 {
		return lname(names[0])
	}
	var parts []string
	for _, n := range names {
		parts = append(parts, lname(n))
	}
	return "(" + strings.Join(parts, ", ") + ")"
}

// proj is the i-th component of an n-tuple (Lean tuples nest to the right)
func proj(v string, i, n int) string {
	if n == 1 {
		return v
	}
	s := v
	for j := 0; j < i; j++ {
		s += ".2"
	}
	if i < n-1 {
		s += ".1"
	}
	return s
}

// multiAssign: `a, b := f(x)` and the parallel assignment `a, b = e1, e2` (all right-hand sides are evaluated first)
func (t *tr) multiAssign(x *ast.AssignStmt, rest []ast.Stmt, k string, ret types.Type, ind string) string {
	if x.Tok != token.DEFINE && x.Tok != token.ASSIGN {
		return t.bad(x, "multi-assignment operator")
	}
	var names []string
	for _, l := range x.Lhs {
		id, ok := l.(*ast.Ident)
		if !ok {
			return t.bad(x, "multi-assignment target")
		}
		names = append(names, id.Name)
	}
	t.tmp++
	out := ""
	if len(x.Rhs) == 1 {
		tmp := fmt.Sprintf("r_%d", t.tmp)
		out += fmt.Sprintf("let %s := %s\n%s", tmp, t.expr(x.Rhs[0]), ind)
		for i, n := range names {
			if n == "_" {
				continue
			}
			out += fmt.Sprintf("let %s := %s\n%s", lname(n), proj(tmp, i, len(names)), ind)
		}
		return out + t.block(rest, k, ret, ind)
	}
	if len(x.Rhs) != len(names) {
		return t.bad(x, "multi-assignment arity")
	}
	for i := range names {
		out += fmt.Sprintf("let r_%d_%d := %s\n%s", t.tmp, i, t.expr(x.Rhs[i]), ind)
	}
	for i, n := range names {
		if n == "_" {
			continue
		}
		out += fmt.Sprintf("let %s := r_%d_%d\n%s", lname(n), t.tmp, i, ind)
	}
	return out + t.block(rest, k, ret, ind)
}

// load parses and type-checks one package directory of the module (cached)
func (g *gen) load(pkgDir string) *tr {
	if c, ok := g.ctx[pkgDir]; ok {
		return c
	}
	files, _ := filepath.Glob(filepath.Join(pkgDir, "*.go"))
	var parsed []*ast.File
	for _, f := range files {
		if strings.HasSuffix(f, "_test.go") || strings.HasSuffix(f, "_verif.go") || strings.Contains(f, "_verif_") {
			continue
		}
		af, err := parser.ParseFile(g.fset, f, nil, 0)
		if err != nil {
			g.fails = append(g.fails, "parse "+f+": "+err.Error())
			continue
		}
		parsed = append(parsed, af)
	}
	info := &types.Info{Types: map[ast.Expr]types.TypeAndValue{}, Defs: map[*ast.Ident]types.Object{}, Uses: map[*ast.Ident]types.Object{}, Selections: map[*ast.SelectorExpr]*types.Selection{}}
	conf := types.Config{Importer: g.imp, Error: func(error) {}}
	pkg, _ := conf.Check(modulePath+pkgDir, g.fset, parsed, info)
	t := &tr{fset: g.fset, info: info, pkg: pkg, ns: nsOf(modulePath + pkgDir), g: g, decls: map[string]*ast.FuncDecl{}}
	for _, af := range parsed {
		for _, d := range af.Decls {
			f, ok := d.(*ast.FuncDecl)
			if !ok || f.Body == nil {
				continue
			}
			t.decls[declName(f)] = f
		}
	}
	g.ctx[pkgDir] = t
	return t
}

func declName(f *ast.FuncDecl) string {
	name := f.Name.Name
	if f.Recv != nil && len(f.Recv.List) == 1 {
		rt := f.Recv.List[0].Type
		if st, ok := rt.(*ast.StarExpr); ok {
			rt = st.X
		}
		if id, ok := rt.(*ast.Ident); ok {
			name = id.Name + "." + name
		}
	}
	return name
}

// need makes sure the function behind a call is translated and returns its qualified Lean name.
// The object may come from the source importer (another type-checking universe), so it is looked up by package path and name.
func (g *gen) need(obj *types.Func) (string, bool) {
	path := obj.Pkg().Path()
	if !strings.HasPrefix(path, modulePath) {
		return "", false
	}
	name := obj.Name()
	if sig := obj.Type().(*types.Signature); sig.Recv() != nil {
		rt := sig.Recv().Type()
		if p, ok := rt.(*types.Pointer); ok {
			rt = p.Elem()
		}
		if n, ok := rt.(*types.Named); ok {
			name = n.Obj().Name() + "." + name
		} else {
			return "", false
		}
	}
	return g.translate(strings.TrimPrefix(path, modulePath), name)
}

func (g *gen) translate(pkgDir, fname string) (string, bool) {
	c := g.load(pkgDir)
	q := c.ns + "." + lname(strings.ReplaceAll(fname, ".", "_"))
	key := c.ns + "." + fname
	switch g.state[key] {
	case 2:
		return q, true
	case 1:
		g.fails = append(g.fails, key+": recursive function")
		return q, false
	case 3:
		return q, false
	}
	g.state[key] = 1
	fd := c.decls[fname]
	if fd == nil {
		g.fails = append(g.fails, key+": function not found")
		g.state[key] = 3
		return q, false
	}
	// a fresh translator state for this function (shares the package's type information)
	t := &tr{fset: c.fset, info: c.info, pkg: c.pkg, ns: c.ns, g: g, decls: c.decls, cur: key, counts: map[string]int{}}
	ast.Inspect(fd, func(n ast.Node) bool {
		if id, ok := n.(*ast.Ident); ok {
			if _, isDef := c.info.Defs[id]; isDef {
				t.counts[id.Name]++
			}
		}
		return true
	})
	obj := c.info.Defs[fd.Name].(*types.Func)
	sig := obj.Type().(*types.Signature)
	var params []string
	var retT types.Type
	recvName := ""
	if sig.Recv() != nil {
		recvName = sig.Recv().Name()
		params = append(params, fmt.Sprintf("(%s : %s)", lname(recvName), t.leanType(sig.Recv().Type())))
	}
	for i := 0; i < sig.Params().Len(); i++ {
		p := sig.Params().At(i)
		params = append(params, fmt.Sprintf("(%s : %s)", lname(p.Name()), t.leanType(p.Type())))
	}
	k := ""
	pre := ""
	switch {
	case sig.Results().Len() == 1:
		retT = sig.Results().At(0).Type()
		if _, isPtr := retT.(*types.Pointer); isPtr && recvName != "" {
			retT = sig.Recv().Type().(*types.Pointer).Elem()
		}
		if n := sig.Results().At(0).Name(); n != "" && n != "_" {
			t.resNames = []string{n}
			pre = fmt.Sprintf("let %s : %s := %s\n  ", lname(n), t.leanType(retT), t.zero(retT))
		}
	case sig.Results().Len() == 0 && recvName != "":
		// a setter through a pointer receiver: returns the new receiver
		retT = sig.Recv().Type()
		if p, ok := retT.(*types.Pointer); ok {
			retT = p.Elem()
		}
		k = lname(recvName)
	case sig.Results().Len() > 1:
		retT = sig.Results()
		var zs []string
		for i := 0; i < sig.Results().Len(); i++ {
			r := sig.Results().At(i)
			zs = append(zs, t.zero(r.Type()))
			if r.Name() != "" && r.Name() != "_" {
				t.resNames = append(t.resNames, r.Name())
				pre += fmt.Sprintf("let %s : %s := %s\n  ", lname(r.Name()), t.leanType(r.Type()), t.zero(r.Type()))
			}
		}
		if len(t.resNames) != 0 && len(t.resNames) != sig.Results().Len() {
			t.fail = append(t.fail, key+": partly named results")
		}
		t.retZero = "(" + strings.Join(zs, ", ") + ")"
	default:
		g.fails = append(g.fails, key+": result arity")
		g.state[key] = 3
		return q, false
	}
	retTxt := t.leanType(retT)
	body := t.block(fd.Body.List, k, retT, "  ")
	g.fails = append(g.fails, t.fail...)
	for _, p := range t.panics {
		g.panics(p)
	}
	if len(t.fail) > 0 {
		g.state[key] = 3
		if g.isTarget[key] {
			// a listed function that left the translatable subset: a stub keeps the generated file (and the driver) compiling; the
			// function is listed in `untranslated`, the checks that depend on it fall back to the hand-written model and tie T3
			z := t.retZero
			if z == "" {
				z = t.zero(retT)
			}
			g.out = append(g.out, fmt.Sprintf("def %s %s : %s :=\n  %s /- UNTRANSLATABLE: stub -/\n", q, strings.Join(params, " "), retTxt, z))
			g.untranslated = append(g.untranslated, key)
		}
		return q, false
	}
	if !g.isTarget[key] {
		// a helper reached through a call: listed so that the generic proof scripts unfold it together with its caller
		g.helpers = append(g.helpers, q)
	}
	g.out = append(g.out, fmt.Sprintf("def %s %s : %s :=\n  %s%s\n", q, strings.Join(params, " "), retTxt, pre, body))
	g.state[key] = 2
	return q, true
}

var panicList []string

func (g *gen) panics(p string) {
	for _, q := range panicList {
		if q == p {
			return
		}
	}
	panicList = append(panicList, p)
}

func main() {
	if len(os.Args) < 3 {
		fmt.Fprintln(os.Stderr, "usage: go2lean <repo-root> <out.lean>")
		os.Exit(2)
	}
	root := os.Args[1]
	outPath, err := filepath.Abs(os.Args[2])
	if err != nil {
		panic(err)
	}
	if err := os.Chdir(root); err != nil {
		panic(err)
	}
	fset := token.NewFileSet()
	g := &gen{fset: fset, imp: importer.ForCompiler(fset, "source", nil), ctx: map[string]*tr{}, state: map[string]int{}, structs: map[string]bool{}, isTarget: map[string]bool{}}
	for _, tg := range targets {
		for _, f := range tg.funcs {
			g.isTarget[tg.ns+"."+f] = true
		}
	}
	for _, tg := range targets {
		for _, f := range tg.funcs {
			g.translate(tg.pkgDir, f)
		}
	}
	var out strings.Builder
	out.WriteString("-- GENERATED by tools/go2lean from the Go source text of /repo on every run. Do not edit.\n")
	out.WriteString("set_option linter.unusedVariables false\nnamespace Clemens.Src\n\n")
	for _, d := range g.out {
		out.WriteString(d)
	}
	sort.Strings(panicList)
	out.WriteString("\n/-- functions in which a Go `panic` was replaced by the zero value -/\ndef panicsReplaced : List String := [")
	for i, p := range panicList {
		if i > 0 {
			out.WriteString(", ")
		}
		out.WriteString(fmt.Sprintf("%q", p))
	}
	out.WriteString("]\n\n/-- listed functions that could not be translated (a stub returning the zero value stands in their place) -/\ndef untranslated : List String := [")
	for i, p := range g.untranslated {
		if i > 0 {
			out.WriteString(", ")
		}
		out.WriteString(fmt.Sprintf("%q", p))
	}
	out.WriteString("]\n\n/-- unfolds the helper functions that were translated on demand (reached through a call from a listed function) -/\n")
	if len(g.helpers) == 0 {
		out.WriteString("macro \"src_unfold_helpers\" : tactic => `(tactic| skip)\n")
	} else {
		out.WriteString("macro \"src_unfold_helpers\" : tactic => `(tactic| try simp only [" + strings.Join(g.helpers, ", ") + "] at *)\n")
	}
	out.WriteString("\nend Clemens.Src\n")
	old, err := os.ReadFile(outPath)
	if err != nil || string(old) != out.String() {
		os.MkdirAll(filepath.Dir(outPath), 0o755)
		os.WriteFile(outPath, []byte(out.String()), 0o644)
	}
	if len(g.fails) > 0 {
		seen := map[string]bool{}
		for _, f := range g.fails {
			if !seen[f] {
				seen[f] = true
				fmt.Fprintln(os.Stderr, "untranslatable:", f)
			}
		}
		os.Exit(3)
	}
}
