module go2lean

go 1.22.0
