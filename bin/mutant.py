#!/usr/bin/env python3
"""
mutant.py verify <dir>            confirm a seeded change in a scratch worktree: builds, suite passes, demo fails with / passes without
mutant.py try <prop> <dir> [tier] apply the patch to /repo, run the property's check, undo the patch
mutant.py all [tier]              try every kept mutant under /verif/seeded against its property, print a table
"""
import sys, os, subprocess, json, re, glob, shutil, time
ENV = dict(os.environ, GOFLAGS='-mod=mod', GOPROXY='off', GOSUMDB='off', GOTOOLCHAIN='local')
VERIF = os.path.dirname(os.path.dirname(os.path.abspath(__file__)))

def sh(cmd, cwd=None, timeout=1800):
    p = subprocess.run(cmd, cwd=cwd, env=ENV, shell=isinstance(cmd, str), stdout=subprocess.PIPE, stderr=subprocess.STDOUT, timeout=timeout)
    return p.returncode, p.stdout.decode('utf-8', 'replace')

PKGDIRS = None
def pkgdir(wt, pkg):
    global PKGDIRS
    base = pkg[:-5] if pkg.endswith('_test') else pkg
    for root, dirs, files in os.walk(os.path.join(wt, 'pkg')):
        for f in files:
            if f.endswith('.go') and not f.endswith('_test.go'):
                txt = open(os.path.join(root, f)).read()
                m = re.search(r'^package\s+(\w+)', txt, flags=re.M)
                if m and m.group(1) == base:
                    return root
                break
    if base == 'main':
        return os.path.join(wt, 'cmd', 'uci')
    return None

def verify(d):
    d = os.path.abspath(d)
    wt = '/tmp/mv_%d' % os.getpid()
    sh(['git', '-C', '/repo', 'worktree', 'add', '-q', '--detach', wt, 'HEAD'])
    res = {'dir': d}
    try:
        patch = os.path.join(d, 'patch.diff')
        rc, out = sh(['git', 'apply', patch], cwd=wt)
        res['applies'] = rc == 0
        if rc != 0:
            res['error'] = out[-500:]
            return res
        rc, out = sh('go build ./... && go test -vet=off -count=1 ./...', cwd=wt)
        res['suite_passes_with_change'] = rc == 0
        demos = glob.glob(os.path.join(d, '*_test.go'))
        placed = []
        for t in demos:
            m = re.search(r'^package\s+(\w+)', open(t).read(), flags=re.M)
            pd = pkgdir(wt, m.group(1)) if m else None
            if pd:
                shutil.copy(t, pd)
                placed.append((os.path.join(pd, os.path.basename(t)), pd))
        res['demo_files'] = [os.path.basename(t) for t in demos]
        scripts = glob.glob(os.path.join(d, '*.sh')) if not demos else []   # a Go test demo is preferred over scripts
        if not placed and not scripts:
            res['error'] = 'no demonstration found'
            return res
        pkgs = sorted(set('./' + os.path.relpath(pd, wt) for _, pd in placed))
        def run_demo():
            ok = True
            outs = ''
            if pkgs:
                rc, out = sh(['go', 'test', '-vet=off', '-count=1'] + pkgs, cwd=wt, timeout=900)
                ok = ok and rc == 0
                outs += out[-1500:]
            for s in scripts:
                sh('go build -o /tmp/mv_uci_%d ./cmd/uci' % os.getpid(), cwd=wt)
                rc, out = sh(['bash', s, '/tmp/mv_uci_%d' % os.getpid()], cwd=wt, timeout=300)
                ok = ok and rc == 0
                outs += out[-500:]
            return ok, outs
        ok_with, out_with = run_demo()
        res['demo_fails_with_change'] = not ok_with
        sh(['git', 'apply', '-R', patch], cwd=wt)
        ok_without, out_without = run_demo()
        res['demo_passes_without_change'] = ok_without
        if not ok_without:
            res['demo_output_without'] = out_without[-800:]
        res['confirmed'] = bool(res['suite_passes_with_change'] and res['demo_fails_with_change'] and res['demo_passes_without_change'])
        return res
    finally:
        sh(['git', '-C', '/repo', 'worktree', 'remove', '--force', wt])
        if os.path.exists('/tmp/mv_uci_%d' % os.getpid()):
            os.remove('/tmp/mv_uci_%d' % os.getpid())

def try_(prop, d, tier='quick'):
    patch = os.path.join(os.path.abspath(d), 'patch.diff')
    rc, out = sh(['git', '-C', '/repo', 'status', '--porcelain'])
    if out.strip():
        print('refusing: /repo is not clean'); return None
    rc, out = sh(['git', '-C', '/repo', 'apply', patch])
    if rc != 0:
        print('patch does not apply', out); return None
    try:
        t0 = time.time()
        ENV['VERIF_OP_TIMEOUT'] = '600' if tier == 'quick' else '7200'
        rc, out = sh([os.path.join(VERIF, 'bin', 'check'), prop, tier], cwd=VERIF, timeout=1500 if tier == 'quick' else 14400)
        lines = [l for l in out.split('\n') if l.startswith('VIOLATION') or l.startswith('KNOWN')]
        return {'prop': prop, 'exit': rc, 'violations': lines[:3], 'wall': round(time.time() - t0, 1),
                'found_input': any('no-failing-input-found' not in l for l in lines if l.startswith('VIOLATION')), 'tail': out.strip().split('\n')[-1]}
    finally:
        sh(['git', '-C', '/repo', 'checkout', '--', '.'])
        sh(['git', '-C', '/repo', 'clean', '-fdq'])

def main():
    a = sys.argv[1:]
    if a and a[0] == 'verify':
        print(json.dumps(verify(a[1]), indent=1))
    elif a and a[0] == 'try':
        print(json.dumps(try_(a[1], a[2], a[3] if len(a) > 3 else 'quick'), indent=1))
    elif a and a[0] == 'all':
        tier = a[1] if len(a) > 1 else 'quick'
        rows = []
        for meta in sorted(glob.glob(os.path.join(VERIF, 'seeded', '*', 'meta.json'))):
            m = json.load(open(meta))
            r = try_(m['property'], os.path.dirname(meta), tier)
            rows.append((os.path.basename(os.path.dirname(meta)), m['property'], r))
            print(os.path.basename(os.path.dirname(meta)), m['property'], 'exit=%s' % (r or {}).get('exit'), 'input-found=%s' % (r or {}).get('found_input'), (r or {}).get('violations', [])[:1])
        json.dump([(n, p, r) for n, p, r in rows], open(os.path.join(VERIF, 'work', 'mutants_%s.json' % tier), 'w'), indent=1)
    else:
        print(__doc__)

if __name__ == '__main__':
    main()
