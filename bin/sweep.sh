#!/bin/bash
# sweep.sh <tier> <seed…>: all 19 checks for each seed, 3 at a time; prints one line per check
tier=$1; shift
cd "$(dirname "$0")/.."
for seed in "$@"; do
  for p in C01 C02 C03 C04 C05 C06 C07 C08 C09 C10 C11 C12 C13 C14 C15 C16 C17 C18 C19; do
    echo "$seed $p"
  done
done | xargs -P 3 -L 1 bash -c 'VERIF_SEED=$0 bin/check $1 '"$tier"' 2>&1 | grep -E "VIOLATION|KNOWN|quick:|thorough:" | sed "s/^/seed=$0 /"'
