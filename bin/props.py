import os, sys, json, time, re
from concurrent.futures import ThreadPoolExecutor
from checklib import *

# per property: operation families (name, n quick, n thorough, chunks thorough), theorem-module note
PROPS = {
  'C01': {'families': [('chess', 400, 24000), ('edges', 1, 200000), ('proc', 8, 12)]},
  'C02': {'families': [('chess', 400, 24000)]},
  'C03': {'families': [('chess', 400, 24000), ('order', 300, 20000), ('dialog', 60, 3000)]},
  'C09': {'families': [('chess', 400, 24000), ('hashdiff', 300, 30000)]},
  'C10': {'families': [('chess', 400, 24000), ('edges', 1, 200000)]},
  'C11': {'families': [('chess', 300, 12000), ('fenfuzz', 6000, 1000000)]},
  'C12': {'families': [('attacks', 3000, 200000), ('chess', 200, 8000), ('edges', 1, 200000)]},
  'C17': {'families': [('chess', 400, 24000)]},
  'C04': {'families': [('search', 120, 6000), ('deep', 160, 20000), ('dialog', 60, 3000), ('conc', 60, 3000)]},
  'C05': {'families': [('search', 120, 6000), ('time', 3000, 300000), ('timed', 40, 1500), ('dialog', 60, 2000), ('conc', 60, 3000)]},
  'C13': {'families': [('search', 120, 6000), ('deep', 200, 8000)]},
  'C06': {'families': [('conc', 150, 8000), ('dialog', 100, 4000), ('proc', 12, 300)]},
  'C07': {'families': [('go', 4000, 400000), ('dialog', 150, 6000), ('proc', 10, 200)]},
  'C08': {'families': [('time', 5000, 1000000), ('gotime', 1500, 100000)]},
  'C14': {'families': [('tt', 3000, 300000)]},
  'C15': {'families': [('eval', 3000, 300000)]},
  'C16': {'families': [('evalc', 1000, 60000), ('eval', 500, 20000), ('ecache', 2000, 200000)]},
  'C18': {'families': [('see', 1500, 100000), ('seebat', 900, 80000)]},
  'C19': {'families': [('order', 1500, 100000)]},
}

TRUSTED_BASE = [
  "Lean 4.33 kernel (leanchecker re-check in the thorough tier)",
  "axioms propext, Classical.choice, Quot.sound only (audited by #print axioms in the thorough tier)",
  "Lean compiler for the correspondence driver only (plays no part in the theorems)",
  "Go harness + its generators (tools/harness) and the verif-tagged read-only hooks",
  "Go compiler/runtime and math/bits, strings, strconv, unicode as documented",
]


def seed_of():
    try:
        return int(os.environ.get('VERIF_SEED', '1'))
    except ValueError:
        return 1


def chunks_for(n, tier):
    if tier == 'quick' or n <= 2000:
        return [n]
    k = min(NCPU, max(1, n // 1500))
    return [n // k] * k


def run_property(prop, tier):
    t0 = time.time()
    seed = seed_of()
    cfg = PROPS[prop]
    log = []
    wdir = os.path.join(WORK, prop)
    os.makedirs(wdir, exist_ok=True)
    broken = []      # theorem / correspondence names that no longer check
    untranslated, alt_keys, boost = [], {}, 1
    prep = prepare(log)
    obl = {'theorems': [], 'ok': True, 'failed': [], 'axioms': {}}
    results = []     # (family, relevant, distinct, ood, mismatches, stats)
    samples = []
    if not prep['ok']:
        broken.append('prepare:' + prep['stage'])
    else:
        # functions that left the translatable subset (or vanished): their regenerated definitions are stubs; the properties
        # that use them go through their second route / lose a T1 tie (see checklib.obligations)
        untranslated = sorted(set(re.findall(r'untranslatable: ([A-Za-z0-9_.]+):', prep.get('translator') or '')))
        obl = obligations(prop, tier, log, untranslated)
        alt_keys = dict(obl.get('alt_keys') or {})
        if 'search.calculateTime' in untranslated:
            alt_keys['budget'] = 'budgeth'
        boost = 3 if (obl.get('ties_lost') or obl.get('route') == 'fallback') else 1
        if not obl['ok']:
            broken += ['theorem:' + n for n in obl.get('failed', [])] or ['theorem-build:' + prop]
            broken += ['forbidden:%s:%s' % b for b in obl.get('forbidden', [])]
            broken += ['axiom:%s:%s' % b for b in obl.get('bad_axioms', [])]
        # regression corpus of past failures first
        reg = os.path.join(VERIF, 'corpus', 'regress.ops')
        jobs = []
        if os.path.exists(reg):
            lines = [l for l in open(reg).read().split('\n') if l.strip() and not l.startswith('#')]

            def relevant_kind(kind):
                return any(prop in cs or prop in ss for cs, ss in KEYS.get(kind, {}).values()) or any(prop in ps for ps in ASSERT.get(kind, {}).values())
            lines = [l for l in lines if relevant_kind(l.split(' ', 1)[0])]
            if lines:
                jobs.append(('regress', None, lines))
        for fam, nq, nt in cfg['families']:
            n = (nq if tier == 'quick' else nt) * (boost if fam not in ('proc', 'edges', 'timed', 'conc', 'dialog') else 1)
            for ci, cn in enumerate(chunks_for(n if fam != "edges" else 1, tier)):
                jobs.append((fam, [fam, str(seed * 1000 + ci), str(cn), tier], None))

        def do(job):
            fam, gen_args, lines = job
            tag = fam + ('_' + gen_args[1] if gen_args else '')
            ops, go, lean, stats = run_ops(wdir, tag, gen_args=gen_args, ops_lines=lines)
            rel, dist, ood, mism = compare(prop, ops, go, lean, alt_keys)
            smp = []
            for i, op in enumerate(ops):
                kind = op.split(' ', 1)[0]
                if kind in KEYS and any(prop in c or prop in s for c, s in KEYS[kind].values()):
                    smp.append({'op': decode_op(op)[:300], 'go': go[i][:300], 'lean': lean[i][:300]})
                    if len(smp) >= 2:
                        break
            return fam, rel, dist, ood, mism, stats, smp, len(ops)

        crashes = []

        def do_safe(job):
            try:
                return do(job)
            except HarnessCrash as e:
                return e

        try:
            with ThreadPoolExecutor(max_workers=NCPU if tier == 'thorough' else 2) as ex:
                for r in ex.map(do_safe, jobs):
                    if isinstance(r, HarnessCrash):
                        crashes.append(r)
                        continue
                    results.append(r)
                    samples += r[6]
        except Exception as e:  # harness or driver failed otherwise: the correspondence cannot be established
            broken.append('correspondence-run:' + str(e)[:300])
        for c in crashes:
            kind = (c.op or '').split(' ', 1)[0]
            relevant = any(prop in cs or prop in ss for cs, ss in KEYS.get(kind, {}).values()) or any(prop in ps for ps in ASSERT.get(kind, {}).values())
            if c.confirmed and relevant:
                # the engine kills the process on this operation, alone and repeatably: a failing input for every property
                # that is judged on this kind of operation (none of them allows the engine to die)
                results.append((kind, 1, 1, 0, [{'kind': 'assert', 'op': c.op, 'key': 'process-died', 'go': c.output[-1500:], 'lean': ''}], {}, [], 1))
            else:
                broken.append('correspondence-run:' + str(c)[:300])

    mism = [m for r in results for m in r[4]]
    counter = [m for m in mism if m['kind'] in ('spec', 'assert')]
    corr = [m for m in mism if m['kind'] == 'corr']
    if corr:
        broken.append('correspondence:%s:%s' % (corr[0]['op'].split(' ', 1)[0], corr[0]['key']))
    known, _fixed = load_known()
    violations = 0
    exit_code = 0
    nrep = 0
    reported = set()
    for m in counter:
        sig = m['op'] + '|' + m['key']
        if sig in reported:
            continue
        reported.add(sig)
        kf = [k for k in known if k['property'] == prop and k['match'] in m['op']]
        if kf:
            print('KNOWN-FINDING: property=%s %s' % (prop, kf[0]['what']))
            continue
        if nrep >= 5:
            continue
        rec = {'property': prop, 'kind': 'counterexample', 'seed': seed, 'input': m['op'], 'input_decoded': decode_op(m['op']),
               'key': m['key'], 'observed_go': m['go'], 'expected_lean': m['lean'], 'oracle': m['kind'],
               'replay_cmd': 'bin/check --replay <this file>'}
        path = write_replay(prop, seed, nrep, rec)
        print('VIOLATION property=%s replay=%s' % (prop, path))
        nrep += 1
        violations += 1
        exit_code = 1
    if violations == 0 and broken:
        rec = {'property': prop, 'kind': 'unproved', 'seed': seed, 'broken': broken,
               'first_disagreement': (corr[0] if corr else None),
               'obligations_output': obl.get('output', '')[-3000:] if isinstance(obl, dict) else '',
               'prepare': prep if not prep['ok'] else None,
               'note': 'the property is no longer shown to hold; the failing-input search (spec oracle and Go-side assertions over '
                       'all generated operations of this run) found no input on which the implementation violates it'}
        if corr:
            rec['input'] = corr[0]['op']
            rec['input_decoded'] = decode_op(corr[0]['op'])
        if prop == 'C06':
            # name the source facts (T2) that no longer hold: they are what Props/C06.source_facts_hold requires
            try:
                ft = open(os.path.join(LEAN, 'Clemens', 'Gen', 'UciFacts.lean')).read()
                rec['source_facts_false'] = re.findall(r'\("([A-Za-z0-9_]+)", false\)', ft)
            except OSError:
                pass
        path = write_replay(prop, seed, 0, rec)
        print('VIOLATION property=%s replay=%s no-failing-input-found' % (prop, path))
        violations += 1
        exit_code = 1

    evaluations = sum(r[1] for r in results)
    distinct = sum(r[2] for r in results)
    ood = sum(r[3] for r in results)
    stats = {}
    for r in results:
        for k, v in r[5].items():
            stats[k] = stats.get(k, 0) + v
    nthm = len(obl.get('theorems', []))
    ndis = nthm - len([f for f in obl.get('failed', []) if not f.startswith('<')]) if obl.get('ok') is False else nthm
    if obl.get('ok') is False and obl.get('failed') and obl['failed'][0].startswith('<'):
        ndis = 0
    ev = {
      'property_id': prop, 'tier': tier, 'seed': seed, 'level': 'proof',
      'coverage': {
        'obligations': max(nthm, 1) if nthm else 0, 'discharged': ndis,
        'checker_cmd': 'cd /verif/lean && lake build ' + ' '.join(obl.get('modules', [])) + (' && lake env leanchecker <module> && #print axioms audit' if tier == 'thorough' else ''),
        'trusted_base': TRUSTED_BASE,
        'theorems': obl.get('theorems', []),
        'axioms': obl.get('axioms', {}),
        'evaluations': evaluations, 'distinct_nontrivial': distinct,
        'rule': 'correspondence + failing-input search: operation lines generated from one PRNG (VERIF_SEED) over corpus FENs, random legal playouts '
                'and random-material positions; each line is executed by the Go code (in-process, -tags verif) and by the Lean model and spec; '
                'a case counts as distinct non-trivial when its operation line is distinct and its position is a legal chess position by the spec (s.dom=1)',
        'out_of_domain_skipped': ood,
        'input_distribution': stats,
        'samples': samples[:6],
        'broken': broken,
        'route': obl.get('route', 'primary'),
        'primary_route_failed': obl.get('primary_failed', []),
        'ties_lost': [{'module': t['module'], 'theorems': t['theorems']} for t in obl.get('ties_lost', [])],
        'untranslated': untranslated,
      },
      'assumptions': TRUSTED_BASE,
      'wall_s': round(time.time() - t0, 2),
      'violations': violations,
    }
    if nthm == 0:
        # no theorem module yet for this property: do not claim obligations that do not exist
        del ev['coverage']['obligations']; del ev['coverage']['discharged']
    write_evidence(prop, ev)
    with open(os.path.join(wdir, 'log.json'), 'w') as f:
        json.dump(log, f, indent=1)
    print('%s %s: theorems=%d discharged=%d evaluations=%d distinct=%d ood=%d violations=%d wall=%.1fs' % (
        prop, tier, nthm, ndis, evaluations, distinct, ood, violations, time.time() - t0))
    return exit_code


def replay(path):
    rec = json.load(open(path))
    log = []
    prep = prepare(log)
    if not prep['ok']:
        print('prepare failed:', prep)
        return 2
    if 'input' not in rec:
        print(json.dumps(rec, indent=1))
        return 0
    wdir = os.path.join(WORK, 'replay')
    try:
        ops, go, lean, _ = run_ops(wdir, 'replay', ops_lines=[rec['input']])
    except HarnessCrash as e:
        print('input  :', decode_op(rec['input']))
        print('MISMATCH process-died: the engine killed the process on this operation')
        print(e.output[-1500:])
        return 1
    print('input  :', decode_op(ops[0]))
    print('go     :', go[0])
    print('lean   :', lean[0])
    rel, dist, ood, mism = compare(rec['property'], ops, go, lean)
    for m in mism:
        print('MISMATCH', m['kind'], m['key'], 'go=', m['go'], 'lean=', m['lean'])
    return 1 if mism else 0
