#!/usr/bin/env python3
"""
lab.py run <patch.diff> <tier> <Cxx> [<Cxx>…]     run checks against a patched scratch copy of /repo, using a scratch copy of /verif
lab.py batch <tier> <list-file> [jobs]             list-file lines: <label> <patch.diff> <Cxx>[,<Cxx>…] ; prints one line per (label, property)

Development tool (not registered in MANIFEST.json): /repo and /verif themselves are never touched, so it can run while a
background sweep is using /repo.  The scratch copies live under /tmp/lab/<pid>-<n>/ and are removed afterwards.  The registered
checks always run from /verif against /repo; the scratch copy differs only in the two path settings (VERIF_REPO and the
`replace` line of tools/harness/go.mod).
"""
import sys, os, subprocess, shutil, re, json, time
from concurrent.futures import ThreadPoolExecutor
VERIF = os.path.dirname(os.path.dirname(os.path.abspath(__file__)))
ENV = dict(os.environ, GOFLAGS='-mod=mod', GOPROXY='off', GOSUMDB='off', GOTOOLCHAIN='local')


def sh(cmd, cwd=None, env=None, timeout=7200):
    p = subprocess.run(cmd, cwd=cwd, env=env or ENV, shell=isinstance(cmd, str), stdout=subprocess.PIPE, stderr=subprocess.STDOUT, timeout=timeout)
    return p.returncode, p.stdout.decode('utf-8', 'replace')


def make_lab(tag):
    base = '/tmp/lab/%d-%s' % (os.getpid(), tag)
    shutil.rmtree(base, ignore_errors=True)
    os.makedirs(base)
    repo, verif = base + '/repo', base + '/verif'
    sh(['git', '-C', '/repo', 'worktree', 'add', '-q', '--detach', repo, 'HEAD'])
    sh(['rsync', '-a', '--exclude', '.git', '--exclude', 'replays', '--exclude', 'work/C*', '--exclude', 'work/prepared.*', VERIF + '/', verif + '/'])
    gm = verif + '/tools/harness/go.mod'
    s = open(gm).read().replace('=> /repo', '=> ' + repo)
    open(gm, 'w').write(s)
    return base, repo, verif


def drop_lab(base):
    sh(['git', '-C', '/repo', 'worktree', 'remove', '--force', base + '/repo'])
    shutil.rmtree(base, ignore_errors=True)
    sh(['git', '-C', '/repo', 'worktree', 'prune'])


def run(patch, tier, props, tag='x', keep=False):
    base, repo, verif = make_lab(tag)
    out = []
    try:
        if patch and patch != '-':
            rc, o = sh(['git', 'apply', os.path.abspath(patch)], cwd=repo)
            if rc != 0:
                return [(p, 'patch-does-not-apply', o[-300:]) for p in props]
        env = dict(ENV, VERIF_REPO=repo)
        for p in props:
            t0 = time.time()
            rc, o = sh([verif + '/bin/check', p, tier], cwd=verif, env=env)
            lines = [l for l in o.split('\n') if re.search(r'VIOLATION|KNOWN-FINDING|%s (quick|thorough):' % p, l)]
            detail = ''
            m = re.search(r'replay=(\S+)', o)
            if m and os.path.exists(m.group(1)):
                try:
                    r = json.load(open(m.group(1)))
                    if r.get('kind') == 'counterexample' and r.get('input') and os.environ.get('LAB_WITNESS_DIR'):
                        os.makedirs(os.environ['LAB_WITNESS_DIR'], exist_ok=True)
                        with open(os.path.join(os.environ['LAB_WITNESS_DIR'], '%s.%s.op' % (tag, p)), 'w') as wf:
                            wf.write(r['input'] + '\n')
                    fd = r.get('first_disagreement') or r.get('counterexample') or {}
                    detail = 'kind=%s broken=%s op=%s key=%s go=%s lean=%s' % (r.get('kind'), r.get('broken'), str(fd.get('op'))[:160], fd.get('key'), str(fd.get('go'))[:80], str(fd.get('lean'))[:80])
                    if r.get('obligations_output'):
                        detail += ' obligations=' + r['obligations_output'][-400:].replace('\n', ' | ')
                    if r.get('prepare'):
                        detail += ' prepare=' + str(r['prepare'])[-400:].replace('\n', ' | ')
                except Exception as e:
                    detail = 'replay unreadable: %s' % e
            out.append((p, 'rc=%d %.0fs ' % (rc, time.time() - t0) + ' ;; '.join(lines), detail))
        return out
    finally:
        if not keep:
            drop_lab(base)


def main(argv):
    if len(argv) >= 4 and argv[0] == 'run':
        for p, res, detail in run(argv[1], argv[2], argv[3:], keep=bool(os.environ.get('LAB_KEEP'))):
            print(p, res)
            if detail:
                print('   ', detail)
        return 0
    if len(argv) >= 3 and argv[0] == 'batch':
        tier = argv[1]
        jobs = int(argv[3]) if len(argv) > 3 else 3
        items = []
        for l in open(argv[2]):
            l = l.strip()
            if l and not l.startswith('#'):
                label, patch, props = l.split()
                items.append((label, patch, props.split(',')))
        def one(it):
            label, patch, props = it
            try:
                return label, run(patch, tier, props, tag=re.sub(r'\W', '_', label))
            except Exception as e:
                return label, [(p, 'lab-error %s' % e, '') for p in props]
        with ThreadPoolExecutor(max_workers=jobs) as ex:
            for label, res in ex.map(one, items):
                for p, r, detail in res:
                    print(label, p, r, flush=True)
                    if detail:
                        print('    ', detail, flush=True)
        return 0
    print(__doc__)
    return 2


if __name__ == '__main__':
    sys.exit(main(sys.argv[1:]))
