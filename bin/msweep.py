#!/usr/bin/env python3
"""
msweep.py filter <gen-dir> <out-dir> [jobs] [cap-per-file]   keep the generated mutants (tools/mutgen) that compile and pass the repository's test suite, as patches
msweep.py plan <out-dir> <batch-file>                        write a bin/lab.py batch list: each surviving mutant against the checks of the properties anchored in its file
Development tool for the mutation sweep of DESIGN §10.9 (works on scratch worktrees of /repo only).
"""
import sys, os, subprocess, json, glob, shutil, collections
from concurrent.futures import ThreadPoolExecutor
ENV = dict(os.environ, GOFLAGS='-mod=mod', GOPROXY='off', GOSUMDB='off', GOTOOLCHAIN='local')
VERIF = os.path.dirname(os.path.dirname(os.path.abspath(__file__)))


def sh(cmd, cwd=None, timeout=600):
    # own process group, killed as a whole on timeout (a mutant may loop forever inside a test binary)
    import signal
    p = subprocess.Popen(cmd, cwd=cwd, env=ENV, shell=isinstance(cmd, str), stdout=subprocess.PIPE, stderr=subprocess.STDOUT, start_new_session=True)
    try:
        out, _ = p.communicate(timeout=timeout)
        return p.returncode, out.decode('utf-8', 'replace')
    except subprocess.TimeoutExpired:
        try:
            os.killpg(p.pid, signal.SIGKILL)
        except Exception:
            pass
        p.wait()
        return 124, 'timeout'


def filter_(gen, out, jobs=6, cap=25):
    os.makedirs(out, exist_ok=True)
    per = collections.Counter()
    todo = []
    skip_files = set(os.environ.get('MSWEEP_SKIP_FILES', '').split(',')) - {''}
    seen = set()
    if os.environ.get('MSWEEP_SEEN'):
        for l in open(os.environ['MSWEEP_SEEN']):
            t = l.split(None, 3)
            if len(t) == 4:
                seen.add((t[2], t[3].strip()))
    for d in sorted(glob.glob(os.path.join(gen, 'm*'))):
        f, line, desc = open(os.path.join(d, 'meta.txt')).read().strip().split('\n')
        if per[f] >= cap or f in skip_files or (f + ':' + line, desc) in seen:
            continue
        per[f] += 1
        todo.append((d, f, line, desc))
    wts = []
    for j in range(jobs):
        wt = '/tmp/msweep2/wt%d' % j
        sh(['git', '-C', '/repo', 'worktree', 'remove', '--force', wt])
        sh(['git', '-C', '/repo', 'worktree', 'add', '-q', '--detach', wt, 'HEAD'])
        wts.append(wt)
    import queue
    pool = queue.Queue()
    for w in wts:
        pool.put(w)

    def one(item):
        d, f, line, desc = item
        wt = pool.get()
        try:
            shutil.copy(os.path.join(d, 'file.go'), os.path.join(wt, f))
            rc, o = sh('gofmt -l %s >/dev/null; go build ./... && go build -tags verif ./... && go test -vet=off -count=1 ./...' % f, cwd=wt, timeout=300)
            res = 'survives' if rc == 0 else ('timeout' if rc == 124 else 'killed')
            if rc == 0:
                rc2, diff = sh(['git', 'diff'], cwd=wt)
                name = os.path.basename(d)
                od = os.path.join(out, name)
                os.makedirs(od, exist_ok=True)
                open(os.path.join(od, 'patch.diff'), 'w').write(diff)
                open(os.path.join(od, 'meta.txt'), 'w').write('%s\n%s\n%s\n' % (f, line, desc))
            return os.path.basename(d), f, line, desc, res
        finally:
            sh(['git', 'checkout', '-q', '--', '.'], cwd=wt)
            pool.put(wt)
    counts = collections.Counter()
    with ThreadPoolExecutor(max_workers=jobs) as ex:
        for name, f, line, desc, res in ex.map(one, todo):
            counts[res] += 1
            print(name, res, f + ':' + line, desc, flush=True)
    for w in wts:
        sh(['git', '-C', '/repo', 'worktree', 'remove', '--force', w])
    sh(['git', '-C', '/repo', 'worktree', 'prune'])
    print(dict(counts))


def plan(out, batch):
    anchors = collections.defaultdict(set)
    for l in open(os.path.join(VERIF, 'properties.jsonl')):
        d = json.loads(l)
        for f in d.get('anchors', {}).get('files', []):
            anchors[f].add(d['id'])
    # files no property names: the layers below (bitboards, attack tables, move words) feed these
    extra = {'pkg/bitboard/': ['C12', 'C01', 'C15'], 'pkg/pieces/': ['C12', 'C01', 'C15'], 'pkg/magic/': ['C12', 'C01'], 'pkg/move/': ['C19', 'C03', 'C01', 'C04'],
             'pkg/types/': ['C03', 'C11', 'C10', 'C01'], 'pkg/evaluation/': ['C15', 'C16', 'C18', 'C13'], 'pkg/search/': ['C04', 'C05', 'C13', 'C19', 'C14'],
             'pkg/position/': ['C01', 'C02', 'C09', 'C10', 'C11', 'C17', 'C03'], 'pkg/uci/': ['C06', 'C07', 'C03', 'C05']}
    with open(batch, 'w') as bf:
        for d in sorted(glob.glob(os.path.join(out, 'm*'))):
            f = open(os.path.join(d, 'meta.txt')).read().split('\n')[0]
            props = set(anchors.get(f, set()))
            for pre, ps in extra.items():
                if f.startswith(pre):
                    props |= set(ps)
            bf.write('%s %s %s\n' % (os.path.basename(d), os.path.join(d, 'patch.diff'), ','.join(sorted(props))))


if __name__ == '__main__':
    a = sys.argv[1:]
    if a and a[0] == 'filter':
        filter_(a[1], a[2], int(a[3]) if len(a) > 3 else 6, int(a[4]) if len(a) > 4 else 25)
    elif a and a[0] == 'plan':
        plan(a[1], a[2])
    else:
        print(__doc__)
