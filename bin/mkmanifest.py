#!/usr/bin/env python3
"""Writes /verif/MANIFEST.json from the table below (single source of truth for what is claimed)."""
import json, os, subprocess
VERIF = os.path.dirname(os.path.dirname(os.path.abspath(__file__)))

NOTE = ("Trusted: Lean 4.33 kernel; axioms propext/Classical.choice/Quot.sound only; the Go harness, its generators and the "
        "read-only verif hooks; the Lean compiler for the correspondence driver only; Go runtime and standard library. ")

CLAIMS = {
 'C01': dict(cat='proof', tech='Lean 4 theorems legal_exact / perft_exact (model = FIDE spec) + differential correspondence model vs Go + spec oracle',
   text="PROVED on the Lean model (Props/C01, C01a): for every well-formed position - with no restriction on the move counters (C01c: legal_exact_any, perft_exact_any) - the moves the engine treats as playable are exactly "
        "the FIDE-legal moves of the specification - none missing, none extra, none duplicated (legal_exact), the generator yields exactly the pseudo-legal moves incl. "
        "all castling conditions (genMoves_exact), successors are the FIDE successors (engineLegal_succ) and perft equals the true count for every depth (perft_exact, induction). "
        "The model is tied to the Go code by correspondence on every run: legal move list (as a multiset), check flag, attack answers after moves, perft (also through the repository's own cmd/perft binary) on corpus, "
        "playout, random-material and exhaustive single-attacker positions; independently the Go legal move set is compared with the executable spec.", ref='5/C01, 10.4'),
 'C02': dict(cat='proof', tech='Lean 4 refinement theorem makeMove_refines (model MakeMove = Fide.apply) + correspondence of every field',
   text="PROVED (Props/C02): for every shape-consistent position and every move of the shape the generators produce, MakeMove does not panic and its result, seen through the "
        "abstraction (everything a FEN shows), is exactly Fide.apply: placement incl. castling rook / en-passant victim / promotion piece, side, castling rights, en-passant target, "
        "clocks. Tie: every field of Position after every pseudo-legal move compared with the model; successor FEN compared with the spec; reload-equality and copy-recoverability asserted on the Go side.", ref='5/C02, 10.4'),
 'C03': dict(cat='proof', tech='Lean 4 round-trip theorems for squares and all move kinds + correspondence of the position fold',
   text="PROVED (Props/C03, C03b when present): every square and every generated move word of each kind prints to text that parses back to the same word. Tie: games up to 140 plies replayed through "
        "MakeMoveFromString in Go, model and spec fold; every printed legal move parsed back on the Go side.", ref='5/C03, 10.4'),
 'C04': dict(cat='proof', tech='Lean 4 theorems about the executable search model (PV legality for all table contents) + black-box correspondence + spec judge of answers and PVs',
   text="PROVED on the search model (Props/C04): every PV written by negamax is a line of generated moves each passing MakeMove+IsLegal, for arbitrary contents of the shared tables "
        "(negamax_pv_legal_partial, hypothesis: window inside [-INF, INF]); the iteration loop only adopts legal lines and the answer of search is a FIDE-legal move of the root, for every legal root position with legal material and every sane table "
        "(Props/C04d: answer_fide_legal_closed, adopted_pv_legal_closed - hypotheses on the root and the start state only; Props/C04c: the same for an arbitrary class of positions; an in-window root score is never -32718, the one score whose wrapped aspiration window would leave that range); the answer is the head of the adopted PV (search_answer_head). The search model (negamax, quiescence, TT, killers, history, SEE, "
        "all pruning, int16 wrap) is compared with the Go search on every info line, node and poll count with cancellation at chosen polls; answers and PVs are judged by the FIDE spec; "
        "Go-only searches to depth 5 and UCI dialogues (second position on the same game object, immediate timeouts) are judged with the engine's own generator.", ref='5/C04, 10.4',
   note='The node-level theorem is stated for windows inside the score range (it is false outside, kernel-evaluated counterexample in Props/C04c); the loop-level theorems need only a sane table and a bounded evaluation, both invariants; see DESIGN 10.4.'),
 'C05': dict(cat='proof', tech='Lean 4 theorems about cancellation, depth and termination of the iteration loop + correspondence with cancellation oracle + measured wall-clock',
   text="PROVED on the search model (Props/C05): after the poll that reports done every further node entry returns cancelled without counting a node (negamax_after_cancel, quiescence_after_cancel), "
        "the cancelling poll is the last poll of the whole tree (negamax_cancel_last_poll), loops stop at the first cancelled child, the iteration loop ends at once (searchIterative_stops), reported depths never exceed the request "
        "(depth_never_exceeded), at most one re-search per depth and none with the full window (the repaired defect), at most 2*maxD root searches (root_searches_le). Tie: cancellation at chosen poll indices replayed in model and Go; "
        "Go-side: poll at every node (node-counter gap), no node after a noticed cancellation unless no iteration had completed, terminated, depth; budget below clock (C08); wall-clock of limited searches and stop latency measured.",
   ref='5/C05, 10.4', note='Partial with respect to the runtime: wall-clock bounds are measured with slack, not proved; termination of check-extension chains is assumed (fuel).'),
 'C06': dict(cat='proof', tech='Lean 4 inductive invariant of the UCI transition system (kernel-checked finite closure) + go/ast source-order facts required by theorem + concurrent dialogues',
   text="PROVED (Props/C06): for the transition system of reader, search goroutine, flag and cancellation under a rule-obeying GUI, every reachable state (dialogues of any length, any interleaving) satisfies: no go refused, "
        "no position refused after bestmove, no stop lost, no bestmove without go, no deadlock, next position accepted. 18 order-of-events / lock-discipline facts are extracted from the source on every run by an abstract interpretation of the handlers "
        "(event sequences with helper calls inlined, guards as truth tables over the flag values) and required by theorem (source_facts_hold). Concurrent dialogues (back-to-back writes, stop/isready bursts) are driven through the real line handler in-process and through the real binary: bestmove/readyok counts, "
        "no deadlock, stop latency, whole output lines, legal answers.", ref='5/C06, 10.4',
   note='Go scheduler fairness, channel/context semantics and write(2) atomicity are trusted; promptness is measured.'),
 'C07': dict(cat='proof', tech='Lean 4 totality and faithfulness theorems for the go parser + correspondence + dialogues through the real handler and binary',
   text="PROVED (Props/C07): parseGo never panics for any token list and any Atoi (parseGo_total); every line built from grammar items in any order/combination yields exactly the left-to-right "
        "interpretation (parseGo_faithful, also for the real Atoi model: parseGo_faithful_real); unknown prefixes are skipped (removePrefixGarbage_spec). Tie: grammar-directed and mutated token lists compared on "
        "parameters and messages; expected parameters asserted independently on the Go side; sequential dialogues incl. unknown commands through the real handler (no panic) and the real binary.", ref='5/C07, 10.4'),
 'C08': dict(cat='proof', tech='Lean 4 theorems on calculateTime as regenerated from the Go source text on every run (go2lean; generic unfold/split/omega script) + correspondence of the regenerated definition with the running function',
   text="PROVED on every run about the definition that tools/go2lean regenerates from the text of calculateTime (Props/C08): budget < clock of the mover whenever it is known, budget < explicit movetime, both at once, "
        "and independence of the opponent's clock and increment. The generic proof script re-proves property-preserving rewrites (helpers are translated on demand and unfolded) and fails on breaking ones; if the function leaves the translatable subset or the script does not close, "
        "the same statements on the hand-written model (Props/M08) together with the model-vs-code correspondence are the second route. The regenerated definition is executed by the driver and compared with the "
        "Go function on a boundary grid, random values and through the go-command path (parse, then budget); the clauses are also asserted on the Go side.", ref='5/C08, 10.6'),
 'C09': dict(cat='proof', tech='Lean 4 theorems for arbitrary key tables (incremental = from-scratch hash, path independence, single-component distinctness) + kernel check of the real keys + correspondence',
   text="PROVED (Props/C09): every primitive and MakeMove/null move/FEN load keep hash = from-scratch hash (makeMove_hash, makeNull_hash, parseFen_hash), equal components give equal hashes (hash_path_independent), "
        "positions differing in exactly one component hash differently given non-zero/distinct keys, and the 781 keys dumped from the running engine are pairwise distinct and non-zero (realKeys_distinct). "
        "Tie: hash after every move/null move/reload compared with model and from-scratch hook; distinctness on generated single-component pairs incl. every en-passant file and castling set.", ref='5/C09, 10.4'),
 'C10': dict(cat='proof', tech='Lean 4 invariant theorems WF_makeMove / WF_reachable + correspondence of every field + independent Go-side consistency check',
   text="PROVED (Props/C10, C10b): every move the engine plays from a well-formed position yields a well-formed position - all clauses of C10 (WF_makeMove), hence along every legal move sequence (WF_reachable); C10d: the same for all counter values and for null moves out of check, along every sequence of any length (c10_move_any, c10_null_any, c10_reach_any); "
        "WF is the spec's well-formedness seen through the abstraction (WF_iff_spec); null moves keep the shape. Tie: every field compared after every operation; an independent mailbox check of the clauses on the Go side "
        "(also after the string path); check clause against the spec; exhaustive single-attacker positions.", ref='5/C10, 10.4'),
 'C11': dict(cat='proof', tech='Lean 4 theorems parseFen_total and fen_roundtrip on the byte-level FEN model + correspondence on valid and malformed streams',
   text="PROVED (Props/C11, C11b): parseFen never panics for any byte string (parseFen_total); for every shape- and state-consistent position whose hash is the from-scratch hash, parsing the printed FEN "
        "returns the position itself in every field (fen_roundtrip) and printing again reproduces the text (fen_canonical). Tie: printed FENs of generated positions and 6000 mutated/garbage strings (non-ASCII digits, invalid UTF-8, doubled blanks, "
        "counters at their limits) compared three-way ok/error/panic with all fields; round trip and canonical printing asserted on the Go side and against the spec printer.", ref='5/C11, 10.4'),
 'C12': dict(cat='proof', tech='Lean 4 theorems for all 2^64 occupancies (walker = geometry by induction, magic lookup = walker by kernel-checked index injectivity) + regenerated tie + exhaustive correspondence',
   text="PROVED (Props/C12a-d): rook/bishop/queen attack sets equal the squares reachable along open lines up to the first blocker for every square and all 2^64 occupancies (rookAttacks_exact etc.: ray-walker induction, "
        "kernel-checked per-square injectivity of the 128 dumped magic multipliers over all 107648 relevant subsets, mask irrelevance); knight/king/pawn tables and pawn pushes exact; attackers of a square and check detection exact "
        "(squareAttackedBy_exact, isInCheck_exact); shifts/leaper formulas regenerated from the source text and proved equal to the model (C12c). Tie: all leaper entries, table entries, random occupancies, attackers on generated positions.", ref='5/C12, 10.4'),
 'C13': dict(cat='proof', tech='Lean 4 end-to-end theorem search_plays_mate on the search model (all table states satisfying the preserved invariant, all cancellation points) + correspondence + spec judge on a mate-in-one pool',
   text="PROVED on the search model (Props/C13, C13b, C13c): for every legal root position with legal material in which some move mates (no class of positions and no evaluation bound is assumed: the positions the search reaches keep well-formedness and legal material, C04d, and C15 bounds the evaluation there), if some move mates, every completed full-window root search of depth 1..254 returns INF-1 with a mating move heading its PV (searchRoot_mate_in_one) and "
        "search answers with a mating move for every cancellation point incl. the immediate one (search_plays_mate), for every table state in which stored scores are in range and no usable entry sits under the hash of a "
        "checkmated child - an invariant every search preserves and the empty table satisfies - assuming no 64-bit hash collision between a checkmated child and a reachable position with a legal move. "
        "Tie: the search model is compared with the Go search node for node; mate-in-one positions searched at depths 1-4 with cancellation at many polls after searches of predecessor positions and with the clock at 98/99/100, "
        "answers judged by the spec / engine generator.", ref='5/C13, 10.4',
   note='Conditional on absence of 64-bit hash collisions (false in general by counting; a hypothesis on the positions reachable from the root).'),
 'C14': dict(cat='proof', tech='Lean 4 refinement of the bucket table to the log of saves + correspondence on colliding histories',
   text="PROVED (Props/C14): every non-empty entry is exactly one logged save (stored_from_log); a usable score comes from a save of that hash with at least the requested depth and respects its bound (get_sound); "
        "the suggested move was stored with that hash; a never-stored hash yields nothing; a save is found afterwards. Tie: colliding histories compared result by result; soundness decided against the log on the Go side. On the text regenerated from ttentry.go (Props/C14s, decided completely: tie_tac or kernel evaluation of all 2^16 byte pairs): the bound kind survives the write of every age byte, age and kind are read back as written, the payload fields are untouched.", ref='5/C14, 10.4, 10.10'),
 'C15': dict(cat='proof', tech='Lean 4 theorems eval_bounded / eval_no_overflow / eval_mirror + tables dumped from the running code + correspondence of exact scores',
   text="PROVED (Props/C15, C15b): for legal material the score is strictly outside the mate range (|v| <= evalBound, a bound computed from the tuning constants and tables regenerated from the running code; evalBound < INF - maxPlies is decided on every run, currently 14881 < 32667), no int16 intermediate overflows, the evaluation never panics; evaluation of the mirror position equals the "
        "evaluation of the position for every position with one king per side (eval_mirror, using slider exactness C12b). Tie: exact raw score compared on generated positions incl. maximal material; mirror and bound asserted "
        "on the Go side through both the uncached and the public cached entry point.", ref='5/C15, 10.4'),
 'C16': dict(cat='proof', tech='Lean 4 theorem cache_transparent (parametric) + one-square hash separation for the real keys + correspondence on histories and on the table API',
   text="PROVED (Props/C16, C16b): along every history in which equal hashes mean equal raw evaluation, every returned score is the uncached one; positions with clock >= 100 bypass the cache; positions differing in one square hash "
        "differently under the real keys. Tie: histories with clock/castling/en-passant/one-piece variants compared score by score; the table driven directly with hashes agreeing in slot / low bits.", ref='5/C16, 10.4'),
 'C17': dict(cat='proof', tech='Lean 4 theorem captures_eq_filter_of_WF (ordered list equality) + correspondence',
   text="PROVED (Props/C17): for every well-formed position the capture generator yields exactly - same moves, same order - the capturing moves of the full generator (captures_eq_filter_of_WF); the exact condition outside "
        "well-formedness is characterised (captures_eq_filter_iff_castling). Tie: ordered lists compared; multiset equality asserted on the Go side.", ref='5/C17, 10.4'),
 'C18': dict(cat='proof', tech='Lean 4 theorems: swap list = minimax, pruning keeps the sign, model attacker sequence = spec attackers, sign(SEE) = sign(spec minimax) for legal captures (<= 32 men) + correspondence + spec oracle on constructed batteries',
   text="PROVED (Props/C18): the unpruned swap list equals the exchange minimax exactly, the early exit never changes the sign (swap_sign), and the model's loop is that swap list over its attacker sequence (see_eq_swap, see_sign). "
        "C18b: the model's incrementally maintained attacker sequence equals the specification's recomputed least attackers (see_attackers_spec), the king rule agrees (see_king_rule), hence for every legal "
        "non-en-passant capture of a well-formed position with at most 32 men sign(SEE) = sign(spec minimax) (see_sign_spec_partial; the 32-men bound is necessary and follows from legal material: C18c see_sign_spec_legal, see_sign_spec_reach for every position reached from a legal root). Tie: exact value vs model and sign vs recursive spec minimax on all "
        "legal captures of generated positions and constructed battery / king-adjacent exchanges.", ref='5/C18, 10.4'),
 'C19': dict(cat='proof', tech='Lean 4 theorems (SortIndex visiting = sorted permutation, scoring touches only score bits) + regenerated accessor tie + correspondence',
   text="PROVED (Props/C19, C19b): visiting by SortIndex is a permutation in non-increasing score order for lists of any length; scoring changes only the score bits for every heuristic state; generated words carry no score bits; "
        "move accessors regenerated from the source text equal the model accessors. Tie: scored list and visit order compared for generated positions x heuristic states.", ref='5/C19, 10.4'),
}

PENDING = {
}

def main():
    checks = []
    for pid in sorted(CLAIMS):
        c = CLAIMS[pid]
        checks.append({
          'property_id': pid,
          'quick_cmd': 'bin/check %s quick' % pid,
          'thorough_cmd': 'bin/check %s thorough' % pid,
          'evidence_file': '/verif/evidence/%s.json' % pid,
          'replay_cmd_template': 'bin/check --replay {path}',
          'engine': 'lean4-model+correspondence',
          'level_claimed': {'category': c['cat'], 'text': c['text'], 'design_ref': c['ref']},
          'level_note': NOTE + c.get('note', ''),
          'technique': c['tech'],
        })
    allp = [json.loads(l)['id'] for l in open(os.path.join(VERIF, 'properties.jsonl'))]
    na = [{'property_id': p, 'reason': PENDING.get(p, 'check under construction in this round (model/harness not yet registered); not a limit of the technique')}
          for p in allp if p not in CLAIMS]
    hooks_commits = subprocess.run(['git', '-C', '/repo', 'log', '--format=%h', '--grep=^verif hooks'], stdout=subprocess.PIPE).stdout.decode().split()
    man = {
      'version': 1,
      'setup_cmd': 'bin/setup',
      'hooks': {
        'guard': 'verif',
        'enable': 'go build -tags verif (harness module tools/harness with replace github.com/shaardie/clemens => /repo)',
        'baseline_off_cmd': 'bin/baseline.sh',
        'source_commits': hooks_commits,
        'add_only': True,
      },
      'engines': [
        {'name': 'lean4-model+correspondence', 'path': '/verif/lean', 'serves_properties': sorted(CLAIMS),
         'kind_free_text': 'Lean 4 model + spec + theorems (lake project), compiled core-only driver, Go harness (tools/harness) calling the real packages in-process'}],
      'checks': checks,
      'notes': 'See DESIGN.md. Known findings / fixed defects: KNOWN_FINDINGS.txt. Seeded mutants: seeded/.',
      'not_applicable': na,
    }
    with open(os.path.join(VERIF, 'MANIFEST.json'), 'w') as f:
        json.dump(man, f, indent=1)
    print('checks:', len(checks), 'not claimed:', len(na))

if __name__ == '__main__':
    main()
