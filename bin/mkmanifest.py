#!/usr/bin/env python3
"""Writes /verif/MANIFEST.json from the table below (single source of truth for what is claimed)."""
import json, os, subprocess
VERIF = os.path.dirname(os.path.dirname(os.path.abspath(__file__)))

NOTE = ("Trusted: Lean 4.33 kernel; axioms propext/Classical.choice/Quot.sound only; the Go harness, its generators and the "
        "read-only verif hooks; the Lean compiler for the correspondence driver only; Go runtime and standard library. ")

CLAIMS = {
 'C01': dict(cat='proof', tech='Lean 4 model + FIDE spec; differential correspondence; spec oracle',
   text="Lean model of both generators, CanCastleNow, MakeMove and the legality filter, tied to the Go code by differential correspondence "
        "(ordered pseudo-legal list, legal list, perft) on corpus, playout and random-material positions; the property itself is decided against "
        "an executable FIDE specification in Lean (mailbox board, (file,rank) geometry) used as oracle: Go's legal move set == spec legal set, "
        "perft(Go) == perft(spec). Theorems proved so far are listed in evidence (attack-layer exactness feeding the generators); the full "
        "legal_exact theorem is staged (DESIGN 5/C01, 6).",
   ref='5/C01'),
 'C02': dict(cat='proof', tech='Lean 4 model of MakeMove vs FIDE successor spec; correspondence',
   text="Lean model of MakeMove (every field) tied by correspondence on every pseudo-legal move of generated positions; the successor is compared "
        "with Fide.apply (spec) through the printed FEN; copy-recoverability asserted on the Go side.", ref='5/C02'),
 'C03': dict(cat='proof', tech='Lean 4 model of move text round trip and position fold; correspondence',
   text="Model of SquareFromString/Move.String/MakeMoveFromString and of the position-command fold; games up to 140 plies replayed through the "
        "model and the spec fold (Fide.apply) and compared with the Go result; every printed legal move is parsed back on the Go side.", ref='5/C03'),
 'C09': dict(cat='proof', tech='Lean 4 proof of incremental = from-scratch hash; correspondence',
   text="Zobrist model over an arbitrary key table; incremental hash after every move / null move / FEN load compared with the from-scratch hash "
        "(hook) on the Go side and with the model; path independence via FEN reload.", ref='5/C09'),
 'C10': dict(cat='proof', tech='Lean 4 invariant (WF) + correspondence of every field',
   text="Executable well-formedness predicate (content of C10) in Lean; every field of Position compared after each operation; an independent "
        "Go-side mailbox check of the consistency clauses; check clause against the spec.", ref='5/C10'),
 'C11': dict(cat='proof', tech='Lean 4 model of FEN parser/printer at byte level; totality; correspondence',
   text="Byte-level model of NewFromFen/ToFen (Go rune decoding, unicode.IsDigit table from the runtime, uint8 cursor arithmetic, Atoi); valid and "
        "malformed streams compared three-way ok/error/panic with all fields; round trip asserted on the Go side.", ref='5/C11'),
 'C12': dict(cat='proof', tech='Lean 4 proof over all occupancies (walker = geometry, kernel-checked magic tables); correspondence',
   text="Shifts, leapers, pawn pushes, ray walker, magic table construction and lookup modelled; magic multipliers dumped from the running code "
        "into the model; all leaper entries, table entries and random full occupancies compared with the model and with the geometric spec; "
        "SquareAttackedBy/IsInCheck on generated positions x 64 squares against the spec.", ref='5/C12'),
 'C17': dict(cat='proof', tech='Lean 4 model of both generators; filter equality; correspondence',
   text="Model of GeneratePseudoLegalCaptures and GeneratePseudoLegalMoves; ordered lists compared; the property itself (captures == capturing "
        "moves of the full generator as multisets) asserted on the Go side for every generated position.", ref='5/C17'),
 'C04': dict(cat='proof', tech='Lean 4 executable model of the whole search; black-box correspondence; spec judge of answers and PVs',
   text="Lean model of Search/SearchIterative/SearchRoot/negamax/quiescence with TT, killers, history, SEE, all pruning and int16 wrap-around, "
        "cancellation as an oracle (n-th poll); sequences of searches sharing the tables are compared with the Go code on best move, every info "
        "line (depth, score, nodes, PV) and poll count, with cancellation at chosen polls; the answer and every printed PV are judged by the FIDE "
        "spec (legal sequence from the root, answer = head of the last PV, null move only without legal moves), also for Go-only searches to depth 5.",
   ref='5/C04'),
 'C05': dict(cat='proof', tech='Lean 4 model of search with cancellation oracle + time budget proof; correspondence; measured wall-clock',
   text="Cancellation at every chosen poll index is replayed in the Lean search model (same nodes, same polls); Go-side assertions: search "
        "terminates, requested depth never exceeded, no node after the cancellation was noticed unless no iteration had completed (single depth-1 "
        "fallback); budget below clock/movetime (C08 model); wall-clock of movetime/clock-limited searches and stop latency are measured "
        "(not proved) in-process; terminal roots (checkmate/stalemate) are in the corpus.", ref='5/C05',
   note='Partial with respect to the runtime: timers, scheduler and wall-clock bounds are measured with slack, not proved; termination of check-extension chains is assumed (fuel).'),
 'C06': dict(cat='proof', tech='Lean 4 inductive invariant of the UCI transition system (kernel-checked finite closure) + source-order facts (go/ast) + concurrent dialogues',
   text="Labelled transition system of reader, search goroutine, flag and cancellation under a rule-obeying GUI; its reachable set is closed under "
        "steps and satisfies the safety, no-deadlock and accepts-next invariants (kernel evaluation, lifted by induction to dialogues of any length); "
        "the handler orderings the model depends on are extracted from the source with go/ast on every run (17 facts) and required by theorem; "
        "concurrent dialogues (back-to-back writes, stop/isready at any time) are driven through the real line handler in-process: bestmove and "
        "readyok counts, no deadlock, stop latency, whole output lines.", ref='5/C06',
   note='Go scheduler fairness, channel/context semantics and write(2) atomicity are trusted; promptness is measured.'),
 'C13': dict(cat='proof', tech='Lean 4 executable search model; correspondence; spec judge (mate delivered) on a mate-in-one pool',
   text="Positions with a mating move (corpus and found in playouts) are searched at depths 1-4 with cancellation at polls 0,1,2,3,.., after "
        "earlier searches of the predecessor position filled the shared tables, and with the half-move clock at 98/99/100; the Go answer is "
        "judged by the spec (the move played delivers checkmate) and compared with the Lean search model.", ref='5/C13'),
 'C07': dict(cat='proof', tech='Lean 4 model of tokeniser and go-parser; totality/faithfulness; correspondence',
   text="Model of removePrefixGarbage and parseGo (parametric in Atoi, including the value Atoi leaves behind on an error); grammar-directed and "
        "mutated token lists compared on parameters and canonical messages; no-panic asserted on the Go side.", ref='5/C07'),
 'C08': dict(cat='proof', tech='Lean 4 proof (omega) on the model of calculateTime; correspondence on grid + random',
   text="calculateTime modelled on Int; budget < clock, budget < movetime, independence of the opponent's clock; model tied by correspondence "
        "on a boundary grid and random values; the three clauses also asserted on the Go side.", ref='5/C08'),
 'C14': dict(cat='proof', tech='Lean 4 refinement of the bucket table to the log of saves; correspondence on colliding histories',
   text="Model of Get/PotentiallySave over 4-way buckets; generated histories colliding in two buckets compared result by result; soundness, "
        "absence and find-after-save decided against the log of saves (oracle) on the Go side.", ref='5/C14'),
 'C15': dict(cat='proof', tech='Lean 4 model of the evaluation; mirror/bound; correspondence of exact scores',
   text="Every evaluation term modelled over tables dumped from the running code; exact raw score compared on generated positions incl. "
        "promotion-heavy and bare-king material; mirror symmetry and the mate-range bound asserted on the Go side with the mirror checked "
        "against the spec mirror.", ref='5/C15'),
 'C16': dict(cat='proof', tech='Lean 4 proof of cache transparency (parametric); correspondence on histories',
   text="Model of evalWithCache and its direct-mapped table; histories with pairs differing only in half-move clock (across 100), castling "
        "rights and en passant state compared score by score; transparency asserted against the uncached evaluation (hook).", ref='5/C16'),
 'C18': dict(cat='proof', tech='Lean 4 swap-list vs minimax theorem; model of SEE; spec minimax oracle',
   text="Model of the swap algorithm with x-rays compared on exact value for every legal non-en-passant capture of generated positions; the "
        "sign is decided against a recursive minimax on the spec board (attackers recomputed after each capture).", ref='5/C18'),
 'C19': dict(cat='proof', tech='Lean 4 proof that SortIndex visiting is a sorted permutation; model of scoreMoves; correspondence',
   text="Model of scoreMoves and SortIndex; scored list and visit order compared for generated positions x heuristic states (PV/TT move with "
        "and without score bits, killers, history, counter moves); permutation and order asserted on the Go side.", ref='5/C19'),
}

PENDING = {
}

def main():
    checks = []
    for pid in sorted(CLAIMS):
        c = CLAIMS[pid]
        checks.append({
          'property_id': pid,
          'quick_cmd': 'bin/check %s quick' % pid,
          'thorough_cmd': 'bin/check %s thorough' % pid,
          'evidence_file': '/verif/evidence/%s.json' % pid,
          'replay_cmd_template': 'bin/check --replay {path}',
          'engine': 'lean4-model+correspondence',
          'level_claimed': {'category': c['cat'], 'text': c['text'], 'design_ref': c['ref']},
          'level_note': NOTE + c.get('note', ''),
          'technique': c['tech'],
        })
    allp = [json.loads(l)['id'] for l in open(os.path.join(VERIF, 'properties.jsonl'))]
    na = [{'property_id': p, 'reason': PENDING.get(p, 'check under construction in this round (model/harness not yet registered); not a limit of the technique')}
          for p in allp if p not in CLAIMS]
    hooks_commits = subprocess.run(['git', '-C', '/repo', 'log', '--format=%h', '--grep=^verif hooks'], stdout=subprocess.PIPE).stdout.decode().split()
    man = {
      'version': 1,
      'setup_cmd': 'bin/setup',
      'hooks': {
        'guard': 'verif',
        'enable': 'go build -tags verif (harness module tools/harness with replace github.com/shaardie/clemens => /repo)',
        'baseline_off_cmd': 'bin/baseline.sh',
        'source_commits': hooks_commits,
        'add_only': True,
      },
      'engines': [
        {'name': 'lean4-model+correspondence', 'path': '/verif/lean', 'serves_properties': sorted(CLAIMS),
         'kind_free_text': 'Lean 4 model + spec + theorems (lake project), compiled core-only driver, Go harness (tools/harness) calling the real packages in-process'}],
      'checks': checks,
      'notes': 'See DESIGN.md. Known findings / fixed defects: KNOWN_FINDINGS.txt. Seeded mutants: seeded/.',
      'not_applicable': na,
    }
    with open(os.path.join(VERIF, 'MANIFEST.json'), 'w') as f:
        json.dump(man, f, indent=1)
    print('checks:', len(checks), 'not claimed:', len(na))

if __name__ == '__main__':
    main()
