import sys, os, json, subprocess, time, fcntl, re, hashlib, shutil, glob, binascii

VERIF = os.path.dirname(os.path.dirname(os.path.abspath(__file__)))
REPO = os.environ.get('VERIF_REPO', '/repo')
WORK = os.path.join(VERIF, 'work')
LEAN = os.path.join(VERIF, 'lean')
HARNESS_SRC = os.path.join(VERIF, 'tools', 'harness')
HARNESS = os.path.join(WORK, 'harness')
DRIVER = os.path.join(LEAN, '.lake', 'build', 'bin', 'driver')
GOENV = dict(os.environ, GOFLAGS='-mod=mod', GOPROXY='off', GOSUMDB='off', GOTOOLCHAIN='local', VERIF_BIN=WORK,
             VERIF_CORPUS=os.path.join(VERIF, 'corpus'))
NCPU = os.cpu_count() or 4

ALLOWED_AXIOMS = {'propext', 'Classical.choice', 'Quot.sound'}

# --------------------------------------------------------------------------------------
# Which operation keys bear on which property.
#   KEYS[op][go_key] = (properties for which a model mismatch breaks the correspondence,
#                       properties for which a spec mismatch is a violation)
#   ASSERT[op][p.key] = properties for which a 0 is a violation (oracle evaluated on the Go side)
# --------------------------------------------------------------------------------------
KEYS = {
  'gen':   {'pseudo': ([], []), 'caps': (['C17'], []), 'legal': (['C01', 'C10'], []), 'legaluci': ([], ['C01', 'C10']),
            'check': (['C12', 'C01', 'C10'], ['C12', 'C01', 'C10']), 'capsfilter': (['C17'], [])},
  'attby': {'attby': (['C12'], ['C12'])},
  'att':   {'att': (['C12'], ['C12'])},
  'magic': {'mask': (['C12'], []), 'shift': (['C12'], []), 'size': (['C12'], []), 'dmask': (['C12'], []), 'dshift': (['C12'], [])},
  'mv':    {'res': (['C02', 'C10'], []), 'dump': (['C02', 'C09', 'C10'], []), 'fen': ([], ['C02']), 'legal': (['C01'], ['C01', 'C10']),
            'fullhash': (['C09'], []), 'str': (['C03'], [])},
  'mvs':   {'res': (['C03'], []), 'dump': (['C03'], [])},
  'play':  {'res': (['C03'], []), 'dump': (['C03', 'C09', 'C10'], []), 'fen': ([], ['C03']), 'board': ([], ['C03']), 'hist': (['C09', 'C03'], []), 'fullhash': (['C09'], [])},
  'null':  {'null': (['C09', 'C10'], []), 'nullfull': (['C09'], []), 'back': (['C09', 'C10'], []), 'same': (['C09', 'C10'], [])},
  'fen':   {'res': (['C11'], []), 'fen': (['C11'], ['C11']), 'dump': (['C11', 'C09'], [])},
  'perft': {'perft': (['C01'], ['C01'])},
  'eval':  {'raw': (['C15', 'C16'], []), 'mirror': (['C15'], []), 'mirrorfen': ([], ['C15'])},
  'evalc': {'scores': (['C16'], []), 'raws': (['C16', 'C15'], [])},
  'see':   {'see': (['C18'], []), 'seesign': (['C18'], ['C18'])},
  'tt':    {'out': (['C14'], [])},
  'order': {'res': (['C19'], []), 'scored': (['C19'], []), 'visit': (['C19'], [])},
  'time':  {'budget': (['C08'], [])},
  'gotime': {'budget': (['C08', 'C07'], [])},
  'go':    {'res': (['C07'], []), 'sp': (['C07'], []), 'msgs': (['C07'], [])},
  'gof':   {'res': (['C07'], []), 'sp': (['C07'], []), 'msgs': (['C07'], [])},
  'prep':  {'tokens': (['C07'], [])},
  'hashdiff': {'h1': (['C09'], []), 'h2': (['C09'], [])},
  'ecache': {'out': (['C16'], [])},
  'dialog': {'out': (['C07', 'C06', 'C05', 'C03'], [])},
  'conc': {'out': (['C06', 'C05'], [])},
  'procuci': {'out': (['C06', 'C07'], [])},
  'perftbin': {'perft': (['C01'], ['C01'])},
  'search': {'out': (['C04', 'C05', 'C13'], [])},
  'judge': {'bestlegal': ([], ['C04']), 'pvlegal': ([], ['C04']), 'bestfirst': ([], ['C04']), 'mateok': ([], ['C13'])},
}
ASSERT = {
  'gen':  {'p.c17': ['C17'], 'p.shape': ['C10']},
  'mv':   {'p.hash': ['C09'], 'p.copy': ['C02'], 'p.reload': ['C09', 'C11', 'C02'], 'p.shape': ['C10', 'C02'], 'p.strback': ['C03'], 'p.strshape': ['C10', 'C03'], 'p.attsame': ['C12']},
  'play': {'p.hash': ['C09'], 'p.replayable': ['C03'], 'p.shape': ['C10'], 'p.gensame': ['C17', 'C12', 'C10', 'C01']},
  'null': {'p.nullhash': ['C09'], 'p.nullback': ['C09', 'C10']},
  'fen':  {'p.total': ['C11'], 'p.roundtrip': ['C11'], 'p.canon': ['C11']},
  'eval': {'p.mirror': ['C15'], 'p.bound': ['C15'], 'p.mirrorpub': ['C15', 'C16']},
  'evalc': {'p.transparent': ['C16'], 'p.object': ['C16']},
  'tt':   {'p.sound': ['C14'], 'p.absent': ['C14'], 'p.aftersave': ['C14']},
  'order': {'p.perm': ['C19'], 'p.sorted': ['C19'], 'p.strscore': ['C03', 'C19']},
  'time': {'p.ltclock': ['C08', 'C05'], 'p.ltmovetime': ['C08', 'C05'], 'p.indep': ['C08']},
  'go':   {'p.total': ['C07'], 'p.reported': ['C07']},
  'gotime': {'p.ltclock': ['C08'], 'p.ltmovetime': ['C08']},
  'prep': {'p.garbage': ['C07']},
  'gof':  {'p.total': ['C07'], 'p.faithful': ['C07']},
  'hashdiff': {'p.distinct': ['C09']},
  'ecache': {'p.keyexact': ['C16']},
  'dialog': {'p.nopanic': ['C07', 'C06'], 'p.answered': ['C06', 'C05'], 'p.bestlegal': ['C04', 'C06'], 'p.onebest': ['C05', 'C06'], 'p.posexact': ['C03']},
  'timed': {'p.intime': ['C05']},
  'conc': {'p.live': ['C06', 'C05'], 'p.prompt': ['C06', 'C05'], 'p.whole': ['C06'], 'p.bestlegal': ['C04', 'C06']},
  'procuci': {'p.live': ['C06', 'C07'], 'p.prompt': ['C06'], 'p.whole': ['C06']},
  'deepseq': {'p.terminated': ['C05'], 'p.nopanic': ['C04', 'C05', 'C13'], 'p.bestlegal': ['C04', 'C13'], 'p.pvlegal': ['C04'], 'p.bestfirst': ['C04'], 'p.mateok': ['C13'], 'p.depthok': ['C05']},
  'deep': {'p.terminated': ['C05'], 'p.nopanic': ['C04', 'C05'], 'p.bestlegal': ['C04'], 'p.pvlegal': ['C04'], 'p.bestfirst': ['C04'], 'p.mateok': ['C13'], 'p.depthok': ['C05']},
  'facts': {'p.terminated': ['C05'], 'p.depthok': ['C05'], 'p.stopnow': ['C05'], 'p.nopanic': ['C04', 'C05'], 'p.nextnode': ['C05']},
}
# operations whose answers are compared even outside the legal-position domain
ALWAYS = {'fen', 'att', 'magic', 'tt', 'time', 'go', 'gof', 'gotime', 'prep', 'search', 'facts', 'hashdiff', 'ecache', 'dialog', 'timed', 'conc', 'deep', 'deepseq', 'procuci'}
# operations where, outside the domain (s.dom=0), only the assertions are judged (the property claims totality there, not values)
TOTAL_ONLY_OOD = {'go': {'p.total', 'p.reported'}, 'gof': {'p.total'}, 'fen': {'p.total'}, 'dialog': set()}


def sh(cmd, cwd=None, env=None, timeout=None, stdin=None):
    p = subprocess.run(cmd, cwd=cwd, env=env, stdout=subprocess.PIPE, stderr=subprocess.STDOUT, timeout=timeout, stdin=stdin)
    return p.returncode, p.stdout.decode('utf-8', 'replace')


def kv(line):
    d = {}
    for tok in line.split():
        if '=' in tok:
            k, v = tok.split('=', 1)
            d[k] = v
    return d


def decode_op(op):
    """human-readable form of an operation line (hex arguments decoded)"""
    toks = op.split()
    out = []
    for i, t in enumerate(toks):
        if i > 0 and len(t) >= 8 and len(t) % 2 == 0 and re.fullmatch(r'[0-9a-f]+', t) and toks[0] not in ('att',):
            try:
                out.append(repr(binascii.unhexlify(t).decode('utf-8', 'replace')))
                continue
            except Exception:
                pass
        out.append(t)
    return ' '.join(out)


class Lock:
    def __init__(self, path):
        os.makedirs(os.path.dirname(path), exist_ok=True)
        self.f = open(path, 'w')
    def __enter__(self):
        fcntl.flock(self.f, fcntl.LOCK_EX)
        return self
    def __exit__(self, *a):
        fcntl.flock(self.f, fcntl.LOCK_UN)
        self.f.close()


def repo_digest():
    h = hashlib.sha256()
    for root, dirs, files in os.walk(REPO):
        dirs[:] = sorted(d for d in dirs if d not in ('.git', 'openings'))
        for fn in sorted(files):
            if fn.endswith('.go') or fn in ('go.mod', 'go.sum'):
                p = os.path.join(root, fn)
                h.update(p.encode())
                with open(p, 'rb') as f:
                    h.update(f.read())
    for base in (HARNESS_SRC, os.path.join(VERIF, 'tools', 'go2lean'), LEAN):
        for root, dirs, files in os.walk(base):
            dirs[:] = sorted(d for d in dirs if d not in ('.lake', 'Gen'))
            for fn in sorted(files):
                if fn.endswith(('.go', '.lean', '.toml', '.mod')):
                    with open(os.path.join(root, fn), 'rb') as f:
                        h.update(f.read())
    return h.hexdigest()[:16]


def prepare(log):
    """Rebuild everything that depends on /repo's working tree. Returns dict(ok, stage, output)."""
    os.makedirs(WORK, exist_ok=True)
    with Lock(os.path.join(WORK, '.prepare.lock')):
        dig = repo_digest()
        stamp = os.path.join(WORK, 'prepared.' + dig)
        if os.path.exists(stamp) and os.path.exists(HARNESS) and os.path.exists(DRIVER):
            return {'ok': True, 'digest': dig, 'cached': True, 'translator': open(stamp).read()}
        for old in glob.glob(os.path.join(WORK, 'prepared.*')):
            os.remove(old)
        if os.path.exists(HARNESS):
            os.remove(HARNESS)
        shutil.copy(os.path.join(REPO, 'go.sum'), os.path.join(HARNESS_SRC, 'go.sum'))
        rc, out = sh(['go', 'build', '-tags', 'verif', '-o', HARNESS, '.'], cwd=HARNESS_SRC, env=GOENV, timeout=600)
        log.append(('go build -tags verif (harness against /repo)', rc, out[-3000:]))
        if rc != 0:
            return {'ok': False, 'stage': 'harness-build', 'output': out[-3000:], 'digest': dig}
        # T1: regenerate the Lean text of the loop-free integer functions from the Go source text
        g2l = os.path.join(WORK, 'go2lean')
        rc, out = sh(['go', 'build', '-o', g2l, '.'], cwd=os.path.join(VERIF, 'tools', 'go2lean'), env=GOENV, timeout=600)
        if rc == 0:
            rc, out = sh([g2l, REPO, os.path.join(LEAN, 'Clemens', 'Gen', 'Src.lean')], env=GOENV, timeout=600)
        log.append(('go2lean (regenerate Gen/Src.lean from the source text)', rc, out[-3000:]))
        translator_note = out[-1500:] if rc != 0 else ''
        for name, pkg in (('perftbin', './cmd/perft'), ('ucibin', './cmd/uci')):
            rc, out = sh(['go', 'build', '-o', os.path.join(WORK, name), pkg], cwd=REPO, env=GOENV, timeout=600)
            log.append(('go build ' + pkg, rc, out[-2000:]))
            if rc != 0:
                return {'ok': False, 'stage': 'repo-binary-build', 'output': out[-3000:], 'digest': dig}
        rc, out = sh([HARNESS, 'dump', os.path.join(LEAN, 'Clemens', 'Gen')], env=GOENV, timeout=300)
        log.append(('harness dump (regenerate Lean data from the running code)', rc, out[-3000:]))
        if rc != 0:
            return {'ok': False, 'stage': 'dump', 'output': out[-3000:], 'digest': dig}
        rc, out = sh(['lake', 'build', 'driver'], cwd=LEAN, timeout=3000)
        log.append(('lake build driver', rc, out[-3000:]))
        if rc != 0:
            return {'ok': False, 'stage': 'driver-build', 'output': out[-3000:], 'digest': dig}
        open(stamp, 'w').write(translator_note)
        return {'ok': True, 'digest': dig, 'cached': False, 'translator': translator_note}


def theorems_in(path):
    if not os.path.exists(path):
        return []
    txt = open(path).read()
    txt = re.sub(r'/-.*?-/', '', txt, flags=re.S)
    txt = re.sub(r'--.*', '', txt)
    return re.findall(r'^\s*theorem\s+([A-Za-z0-9_.\']+)', txt, flags=re.M)


def lean_namespace_of(path):
    txt = open(path).read()
    m = re.search(r'^namespace\s+(\S+)', txt, flags=re.M)
    return m.group(1) if m else ''


# Modules that only state tie T1 (the definitions regenerated from the Go text equal the hand-written model definitions).
# The property theorems are about the hand-written model, which is tied to the code by the correspondence runs (T3) as well;
# when a T1 tie no longer checks (a rewrite of a leaf function), the property is still decided through T3, the lost tie is
# recorded in the evidence and the correspondence sample for that property is enlarged.
TIE_MODULES = {'C10c', 'C12c', 'C14b', 'C19b', 'C14s', 'C19s'}
# Second route for a property whose theorems are stated on a regenerated definition: the same statements on the hand-written
# model (theorem modules) together with the correspondence keys that compare that model with the code.
# Tie modules whose statements are about regenerated definitions and are proved by a complete procedure: required whenever the named
# functions were translated (not stubs).
SRC_REQUIRED = {'C14s': ['tt.ttEntry.setNodeType', 'tt.ttEntry.setAge', 'tt.ttEntry.getNodeType', 'tt.ttEntry.getAge']}
FALLBACK = {'C08': {'needs': 'search.calculateTime', 'modules': ['M08'], 'alt_keys': {'budget': 'budgeth'}}}


def thm_names(paths):
    out = []
    for path in paths:
        ns = lean_namespace_of(path)
        out += [(ns + '.' + n) if ns else n for n in theorems_in(path)]
    return out


def obligations(prop, tier, log, untranslated=()):
    """Build the property's theorem modules (Props/<prop>*.lean) against the regenerated definitions."""
    allpaths = sorted(glob.glob(os.path.join(LEAN, 'Clemens', 'Props', prop + '*.lean')))
    paths = [p for p in allpaths if os.path.basename(p)[:-5] not in TIE_MODULES]
    tiepaths = [p for p in allpaths if os.path.basename(p)[:-5] in TIE_MODULES]
    mods = ['Clemens.Props.' + os.path.basename(p)[:-5] for p in paths]
    res = {'modules': mods, 'theorems': [], 'ok': True, 'failed': [], 'axioms': {}, 'bad_axioms': [], 'forbidden': [],
           'ties_lost': [], 'route': 'primary', 'alt_keys': {}}
    if not allpaths:
        res['missing'] = True
        return res
    res['theorems'] = thm_names(paths)
    fb = FALLBACK.get(prop)
    rc, out = 0, ''
    if fb and fb['needs'] in untranslated:
        rc, out = 1, 'the regenerated definition of %s is a stub (the function left the translatable subset)' % fb['needs']
    elif mods:
        with Lock(os.path.join(WORK, '.lake.lock')):
            rc, out = sh(['lake', 'build'] + mods, cwd=LEAN, timeout=6000)
        log.append(('lake build ' + ' '.join(mods), rc, out[-4000:]))
    if rc != 0 and fb:
        # second route: the hand-written model's theorems; its tie to the code is the correspondence on the alternative keys
        fmods = ['Clemens.Props.' + m for m in fb['modules']]
        with Lock(os.path.join(WORK, '.lake.lock')):
            rc2, out2 = sh(['lake', 'build'] + fmods, cwd=LEAN, timeout=6000)
        log.append(('lake build ' + ' '.join(fmods) + ' (second route)', rc2, out2[-4000:]))
        res['primary_output'] = out[-3000:]
        if rc2 == 0:
            res['route'] = 'fallback'
            res['alt_keys'] = fb['alt_keys']
            res['primary_failed'] = sorted(set(n for n in res['theorems'] if re.search(r'\b' + re.escape(n.split('.')[-1]) + r'\b', out))) or ['<' + ' '.join(mods) + '>']
            mods = fmods
            res['modules'] = mods
            res['theorems'] = thm_names([os.path.join(LEAN, 'Clemens', 'Props', m + '.lean') for m in fb['modules']])
            rc = 0
        else:
            out = out + '\n' + out2
    if rc != 0:
        res['ok'] = False
        res['output'] = out[-4000:]
        # attribute the failure: theorem names mentioned in error lines, or whole modules that failed
        failed = [n for n in res['theorems'] if re.search(r'\b' + re.escape(n.split('.')[-1]) + r'\b', out)]
        res['failed'] = sorted(set(failed)) or ['<build of ' + ' '.join(mods) + '>']
        return res
    for tp in tiepaths:
        tm = 'Clemens.Props.' + os.path.basename(tp)[:-5]
        with Lock(os.path.join(WORK, '.lake.lock')):
            rct, outt = sh(['lake', 'build', tm], cwd=LEAN, timeout=6000)
        log.append(('lake build ' + tm + ' (tie T1)', rct, outt[-3000:]))
        if rct == 0:
            mods.append(tm)
            res['theorems'] += thm_names([tp])
        else:
            names = thm_names([tp])
            lost = [n for n in names if re.search(r'\b' + re.escape(n.split('.')[-1]) + r'\b', outt)] or ['<' + tm + '>']
            res['ties_lost'].append({'module': tm, 'theorems': lost, 'output': outt[-1500:]})
            need = SRC_REQUIRED.get(os.path.basename(tp)[:-5])
            if need and not any(f in untranslated for f in need):
                # statements about regenerated definitions that are decided completely (proved iff true): a failure is a broken obligation
                res['ok'] = False
                res['failed'] = sorted(set(res['failed'] + lost))
                res['output'] = outt[-4000:]
    # forbidden constructs anywhere in the Lean sources
    srcs = glob.glob(os.path.join(LEAN, 'Clemens', '**', '*.lean'), recursive=True)
    bad = []
    for s in srcs:
        txt = open(s).read()
        txt = re.sub(r'/-.*?-/', '', txt, flags=re.S)
        txt = re.sub(r'--.*', '', txt)
        for pat in (r'\bsorry\b', r'\badmit\b', r'^\s*axiom\s', r'native_decide', r'bv_decide', r'implemented_by', r'^\s*unsafe\s', r'maxHeartbeats\s+0\b'):
            if re.search(pat, txt, flags=re.M):
                bad.append((os.path.relpath(s, LEAN), pat))
    res['forbidden'] = bad
    if bad:
        res['ok'] = False
    if tier == 'thorough' and res['theorems']:
        tmp = os.path.join(WORK, 'axioms_%s.lean' % prop)
        with open(tmp, 'w') as f:
            for m in mods:
                f.write('import %s\n' % m)
            for n in res['theorems']:
                f.write('#print axioms %s\n' % n)
        with Lock(os.path.join(WORK, '.lake.lock')):
            rc, out = sh(['lake', 'env', 'lean', tmp], cwd=LEAN, timeout=3000)
        log.append(('#print axioms', rc, out[-4000:]))
        for m in re.finditer(r"'(\S+)' (depends on axioms: \[([^\]]*)\]|does not depend on any axioms)", out.replace('\n', ' ')):
            ax = [a.strip() for a in (m.group(3) or '').split(',') if a.strip()]
            res['axioms'][m.group(1)] = ax
            for a in ax:
                if a not in ALLOWED_AXIOMS:
                    res['bad_axioms'].append((m.group(1), a))
        if rc != 0 or res['bad_axioms'] or len(res['axioms']) != len(res['theorems']):
            res['ok'] = False
            res['output'] = out[-3000:]
        for m in mods:
            with Lock(os.path.join(WORK, '.lake.lock')):
                rc, out = sh(['lake', 'env', 'leanchecker', m], cwd=LEAN, timeout=3000)
            log.append(('leanchecker ' + m, rc, out[-2000:]))
            res['leanchecker_rc'] = rc
            if rc != 0:
                res['ok'] = False
                res['output'] = out[-3000:]
    return res


class HarnessCrash(Exception):
    """the harness process died while executing an operation (the engine panicked in one of its own goroutines, or killed the
    process): op is the operation it was executing, confirmed tells whether running that operation alone dies again"""
    def __init__(self, op, output, confirmed):
        Exception.__init__(self, 'harness died executing: %s' % (op or '?')[:200])
        self.op, self.output, self.confirmed = op, output, confirmed


def crash_culprit(wdir, tag, opsf, out):
    cur = opsf + '.cur'
    op = ''
    if os.path.exists(cur):
        op = open(cur).read().strip()
    confirmed = False
    if op:
        one = os.path.join(wdir, tag + '.crash.ops')
        with open(one, 'w') as f:
            f.write(op + '\n')
        try:
            rc, out2 = sh([HARNESS, 'exec', one, os.path.join(wdir, tag + '.crash.go')], env=GOENV, timeout=600)
        except subprocess.TimeoutExpired:
            rc, out2 = 1, 'timeout'
        confirmed = rc != 0
        if confirmed:
            out = out2
    return HarnessCrash(op, out[-2500:], confirmed)


def run_ops(wdir, tag, gen_args=None, ops_lines=None):
    """Generate (or take) operation lines, run them through Go and Lean, return (ops, go, lean, stats)."""
    os.makedirs(wdir, exist_ok=True)
    opsf = os.path.join(wdir, tag + '.ops')
    gof = os.path.join(wdir, tag + '.go')
    leanf = os.path.join(wdir, tag + '.lean')
    statf = os.path.join(wdir, tag + '.stats')
    if ops_lines is not None:
        with open(opsf + '.in', 'w') as f:
            f.write('\n'.join(ops_lines) + '\n')
        rc, out = sh([HARNESS, 'exec', opsf + '.in', gof], env=GOENV, timeout=3000)
        shutil.move(opsf + '.in', opsf)
        if rc != 0 and len(ops_lines) == 1:
            raise HarnessCrash(ops_lines[0], out[-2500:], True)
        if rc != 0:
            # find the line: execute them one at a time
            for l in ops_lines:
                one = os.path.join(wdir, tag + '.one.ops')
                with open(one, 'w') as f:
                    f.write(l + '\n')
                rc1, out1 = sh([HARNESS, 'exec', one, gof + '.one'], env=GOENV, timeout=600)
                if rc1 != 0:
                    raise HarnessCrash(l, out1[-2500:], True)
    else:
        rc, out = sh([HARNESS, 'ops'] + gen_args + [opsf, gof, statf], env=GOENV, timeout=int(os.environ.get('VERIF_OP_TIMEOUT', '3600')))
        if rc != 0:
            raise crash_culprit(wdir, tag, opsf, out)
    if rc != 0:
        raise RuntimeError('harness failed: ' + out[-2000:])
    with open(opsf, 'rb') as fin, open(leanf, 'wb') as fout:
        p = subprocess.run([DRIVER], stdin=fin, stdout=fout, stderr=subprocess.PIPE, timeout=int(os.environ.get('VERIF_OP_TIMEOUT', '3600')))
    if p.returncode != 0:
        raise RuntimeError('driver failed: ' + p.stderr.decode()[-2000:])
    ops = open(opsf).read().split('\n')
    go = open(gof).read().split('\n')
    lean = open(leanf).read().split('\n')
    if ops and ops[-1] == '':
        ops, go, lean = ops[:-1], go[:len(ops) - 1], lean[:len(ops) - 1]
    stats = {}
    if os.path.exists(statf):
        for l in open(statf):
            k, v = l.split()
            stats[k] = int(v)
    return ops, go, lean, stats


def _search_view(fields):
    """projection of the `search` answer (`;`-joined searches, each best=…|nodes=…|polls=…|info/info/…) onto some of its parts"""
    def proj(v):
        if v is None:
            return None
        outs = []
        for one in v.split(';'):
            parts = one.split('|')
            keep = []
            for p in parts:
                if p.startswith('best='):
                    if 'best' in fields:
                        keep.append(p)
                elif p.startswith('nodes=') or p.startswith('polls='):
                    if 'nodes' in fields:
                        keep.append(p)
                elif 'pv' in fields:
                    # info lines: depth, score and pv without the node counts
                    keep.append('/'.join(re.sub(r'_nodes_\d+', '', l) for l in p.split('/')))
            outs.append('|'.join(keep))
        return ';'.join(outs)
    return proj


def _dialog_protocol(v):
    """the protocol lines of a dialogue transcript (readyok, uciok, bestmove, unclassifiable) without the informational ones"""
    if v is None:
        return None
    r = ''.join(c for c in v if c in 'RUB?')
    return r or '-'


def _dialog_no_info(v):
    """a dialogue transcript without the unclassified `info string` lines (the messages of the go parser are judged on the `go` / `gof`
    operations; extra informational output is not a property violation)"""
    if v is None:
        return None
    r = ''.join(c for c in v if c != 'G')
    return r or '-'


# What each property reads from a compound answer.  A property is judged on the part of the answer it speaks about: C13 on
# the move answered, C04 on the move and the principal variations, C05 on all of it (node and poll counts); C06/C05 on the
# protocol lines of a dialogue, C07 on every line including the informational ones.
def _sorted_words(v):
    """a move list as a multiset (the order in which moves are generated is not part of the set-valued properties)"""
    if v is None or v == '-':
        return v
    return ','.join(sorted(v.split(',')))


def _dump_board(v):
    """a position dump without the counters and the hash: what the board-consistency property (C10) speaks about.
    A `null` answer holds several dumps separated by `|`."""
    if v is None:
        return None
    outs = []
    for one in v.split('|'):
        secs = one.split(';')
        if len(secs) == 5:
            f = secs[3].split(',')
            secs = secs[:3] + [','.join(f[:3])]
            outs.append(';'.join(secs))
        else:
            outs.append(one)
    return '|'.join(outs)


VIEWS = {
  ('null', 'null'): {'C10': _dump_board}, ('null', 'back'): {'C10': _dump_board}, ('mv', 'dump'): {'C10': _dump_board},
  ('play', 'dump'): {'C10': _dump_board},
  ('gen', 'pseudo'): {'C01': _sorted_words}, ('gen', 'legal'): {'C01': _sorted_words, 'C10': _sorted_words},
  ('gen', 'caps'): {'C17': _sorted_words}, ('gen', 'capsfilter'): {'C17': _sorted_words},
  ('mv', 'legal'): {'C01': _sorted_words, 'C10': _sorted_words},
  ('search', 'out'): {'C13': _search_view({'best'}), 'C04': _search_view({'best', 'pv'})},
  ('dialog', 'out'): {'C06': _dialog_protocol, 'C05': _dialog_protocol, 'C07': _dialog_no_info, 'C03': _dialog_no_info},
}


def compare(prop, ops, go, lean, alt_keys=None):
    """Return (relevant_count, in_domain_distinct, mismatches) for one property.
    alt_keys: correspondence keys read from another model key (the second route of a property)."""
    alt_keys = alt_keys or {}
    mism = []
    relevant = 0
    distinct = set()
    ood = 0
    if not (len(ops) == len(go) == len(lean)):
        mism.append({'kind': 'corr', 'op': '<stream>', 'key': 'length', 'go': str(len(go)), 'lean': str(len(lean))})
        n = min(len(ops), len(go), len(lean))
        ops, go, lean = ops[:n], go[:n], lean[:n]
    for i, op in enumerate(ops):
        kind = op.split(' ', 1)[0]
        keys = KEYS.get(kind, {})
        asserts = ASSERT.get(kind, {})
        if not any(prop in c or prop in s for c, s in keys.values()) and not any(prop in ps for ps in asserts.values()):
            continue
        g = kv(go[i])
        l = kv(lean[i])
        if l.get('s.dom') == '0' and kind not in ALWAYS:
            ood += 1
            continue
        if l.get('s.dom') == '0' and kind in TOTAL_ONLY_OOD:
            # outside the domain the property makes an exact claim about: only the Go-side assertions (no crash) are judged
            ood += 1
            if 'harness_recovered' in g:
                mism.append({'kind': 'assert', 'i': i, 'op': op, 'key': 'panic', 'go': go[i], 'lean': lean[i]})
            for k, ps in asserts.items():
                if prop in ps and g.get(k) == '0' and k in TOTAL_ONLY_OOD[kind]:
                    mism.append({'kind': 'assert', 'i': i, 'op': op, 'key': k, 'go': go[i][:600], 'lean': lean[i][:600]})
            continue
        relevant += 1
        distinct.add(op)
        if 'harness_recovered' in g:
            mism.append({'kind': 'assert', 'i': i, 'op': op, 'key': 'panic', 'go': go[i], 'lean': lean[i]})
            continue
        for k, (corr, spec) in keys.items():
            if prop in corr:
                gv, lv = g.get(k), l.get('m.' + alt_keys.get(k, k))
                view = VIEWS.get((kind, k), {}).get(prop)
                if view:
                    gv, lv = view(gv), view(lv)
                if (gv is not None or lv is not None) and gv != lv:
                    # a missing key on one side counts only when the other side has it
                    mism.append({'kind': 'corr', 'i': i, 'op': op, 'key': k, 'go': gv, 'lean': lv})
            if prop in spec:
                gv, lv = g.get(k), l.get('s.' + k)
                view = VIEWS.get((kind, k), {}).get(prop)
                if view:
                    gv, lv = view(gv), view(lv)
                if lv is not None and gv != lv:
                    mism.append({'kind': 'spec', 'i': i, 'op': op, 'key': k, 'go': gv, 'lean': lv})
        for k, ps in asserts.items():
            if prop in ps and g.get(k) == '0':
                mism.append({'kind': 'assert', 'i': i, 'op': op, 'key': k, 'go': go[i][:600], 'lean': lean[i][:600]})
    return relevant, len(distinct), ood, mism


def load_known():
    known, fixed = [], []
    path = os.path.join(VERIF, 'KNOWN_FINDINGS.txt')
    if os.path.exists(path):
        for l in open(path):
            l = l.strip()
            if l.startswith('finding:'):
                m = re.match(r'finding:\s*property=(\S+)\s+match=(\S+)\s+(.*)', l)
                if m:
                    known.append({'property': m.group(1), 'match': m.group(2), 'what': m.group(3)})
            elif l.startswith('fixed:'):
                fixed.append(l)
    return known, fixed


def write_replay(prop, seed, n, rec):
    d = os.path.join(VERIF, 'replays')
    os.makedirs(d, exist_ok=True)
    path = os.path.join(d, '%s-%s-%d.json' % (prop, seed, n))
    with open(path, 'w') as f:
        json.dump(rec, f, indent=1)
    return path


def write_evidence(prop, ev):
    d = os.path.join(VERIF, 'evidence')
    os.makedirs(d, exist_ok=True)
    with open(os.path.join(d, prop + '.json'), 'w') as f:
        json.dump(ev, f, indent=1)


def main(argv):
    from props import PROPS, run_property, replay
    if len(argv) >= 2 and argv[0] == '--replay':
        return replay(argv[1])
    if len(argv) < 2 or argv[0] not in PROPS or argv[1] not in ('quick', 'thorough'):
        print(__doc__ or 'usage: check <Cxx> quick|thorough | --replay <file>')
        return 2
    return run_property(argv[0], argv[1])
