#!/bin/bash
# Runs the repository's pinned test suite with the verif guard OFF and compares with BASELINE.json.
export GOFLAGS=-mod=mod GOPROXY=off GOSUMDB=off GOTOOLCHAIN=local
cd /repo || exit 2
go test -json -vet=off -count=1 -timeout 25m ./... > /tmp/verif_baseline.json 2>/tmp/verif_baseline.err
python3 - <<'PY'
import json,sys
passed=set(); failed=set()
for l in open('/tmp/verif_baseline.json'):
    try: e=json.loads(l)
    except Exception: continue
    if e.get('Test') and e.get('Action') in('pass','fail'):
        (passed if e['Action']=='pass' else failed).add(e['Package']+'::'+e['Test'])
base=set(json.load(open('/root/.vp/BASELINE.json'))['stable_pass'])
missing=sorted(base-passed)
print(f"baseline={len(base)} passed={len(passed)} failed={len(failed)} missing_from_baseline={len(missing)}")
for m in missing[:20]: print("MISSING",m)
for m in sorted(failed)[:20]: print("FAILED",m)
sys.exit(0 if not missing and not failed else 1)
PY
