#!/usr/bin/env python3
"""intake_mutants.py [suffix] [Cxx…]: verify the delivered mutants under /tmp/mut/<Cxx>.out/<X> (all if none is named) and keep the
confirmed ones as /verif/seeded/<Cxx>-<X><suffix>/."""
import os, sys, json, glob, shutil, subprocess
sys.path.insert(0, os.path.dirname(os.path.abspath(__file__)))
import mutant
VERIF = mutant.VERIF
SUFFIX = sys.argv[1] if len(sys.argv) > 1 else ''
ONLY = set(sys.argv[2:])
for d in sorted(glob.glob('/tmp/mut/C*.out/*')):
    if ONLY and os.path.basename(os.path.dirname(d)).split('.')[0] not in ONLY:
        continue
    if not os.path.exists(os.path.join(d, 'patch.diff')):
        continue
    pid = os.path.basename(os.path.dirname(d)).split('.')[0]
    name = '%s-%s%s' % (pid, os.path.basename(d), SUFFIX)
    dest = os.path.join(VERIF, 'seeded', name)
    if os.path.exists(os.path.join(dest, 'meta.json')):
        continue
    r = mutant.verify(d)
    print(name, json.dumps({k: v for k, v in r.items() if k not in ('dir',)}))
    if r.get('confirmed'):
        os.makedirs(dest, exist_ok=True)
        for f in os.listdir(d):
            shutil.copy(os.path.join(d, f), dest)
        needs = ''
        rd = os.path.join(d, 'README.md')
        if os.path.exists(rd):
            needs = open(rd).read()[:1500]
        json.dump({'property': pid, 'breaks': pid, 'needs_to_manifest': needs,
                   'confirmed_by': 'bin/mutant.py verify (scratch worktree of /repo HEAD: go build, full suite passes with change, demo fails with change, demo passes without)',
                   'verify_result': {k: v for k, v in r.items() if k != 'dir'}}, open(os.path.join(dest, 'meta.json'), 'w'), indent=1)
